#!/usr/bin/env python3
"""ckernels vertical - translator of C compute kernels into the deep embedding of
coq/Model/CKernel.v (Gen/CKernelGen.v), from `clang -Xclang -ast-dump=json` of the CURRENT
source (macros already expanded by clang).

One AST node kind -> one constructor.  Everything outside the subset raises Unsupported
(fail closed): the kernel then gets no Gallina function, its obligations cannot build, and
checks/ckernels.py falls back to the differential search of the compiled C against the spec.

Subset
  types        unsigned integers of 8/16/32/64 bits (scalars, parameters), pointers to them /
               to void (parameters, and locals initialised ONCE from a cast / `+ constant` of
               another pointer and never assigned again: resolved statically, they are names
               for (object, element type, byte offset)), local arrays of constant size, local
               unions of such arrays (all members at offset 0).
  signed int   `int` scalars (loop counters, helper parameters) are kept in [0, 2^31): every int
               + - * and every uint32 -> int conversion is GUARDED (a statement that evaluates to an
               error when the result leaves the range, so the theorems prove it does not); otherwise
               only where the value is provably the same as the unsigned one: non-negative
               integer constant expressions (folded here: `(i - 16) & 15`, `32 - (r)`,
               `i < 16` with literal i), 0/1 results of comparisons and `!`.
  expressions  literals, variables, a[i] / *p / u.m[i] (index any unsigned expression),
               + - * & | ^ << >> / % at the type clang computed (EBin carries the width),
               ~ (ENot), unary - (0 - x), ! (ELnot), < <= > >= == != on unsigned operands,
               integral casts (ECast when narrowing, nothing when zero-extending),
               = and op= (also as sub-expressions: `a = b = 0`), ++ -- (pre/post, also inside a
               loop condition: `while (n-- > 0)`), __builtin_bswap32/64, calls of functions
               `c ? a : b` (an if assigning a fresh scalar), `&scalar` passed to an inlined function
               (`*p` is then that scalar), memset (p, 0, constant) on a whole local array,
               sizeof of an array, calls of functions
               defined in the same translation unit (INLINED: parameters become fresh scalars /
               pointer names, the body is translated in place, a single trailing `return e`).
  statements   compound, declarations, expression statements, if/else, while, for (as
               init; while (c) { body; inc }), a trailing `return;`.
  not (yet)    switch, do-while, && ||, break/continue/goto, structs, signed arithmetic,
               pointer arithmetic with a non-constant offset, pointer assignment, recursion; two operands of one
               operator may both carry side effects only when these are the parameter/result scalars of
               inlined calls.
"""
import json, os, re, subprocess, sys

KERNELS = [
    # key, file, function, group (which Properties file / hook counts it), interface of the Gallina
    # function after `fuel` (L = list N: a memory object or the junk of a local array, N = scalar);
    # the extraction and the drivers are written against this interface, so a kernel that is not
    # translated - or whose interface changed - gets a stub returning None (fail closed)
    ("murmur3_block", "mh_sha1_murmur3_x64_128/murmur3_x64_128_internal.c", "_murmur3_x64_128_block", "c10", "LNL"),
    ("murmur3_tail", "mh_sha1_murmur3_x64_128/murmur3_x64_128_internal.c", "_murmur3_x64_128_tail", "c10", "LNLL"),
    ("sha256_single", "sha256_mb/sha256_ctx_base.c", "sha256_single", "c01", "LLL"),
    ("sha1_single", "sha1_mb/sha1_ctx_base.c", "sha1_single", "c01", "LLL"),
    ("sha512_single", "sha512_mb/sha512_ctx_base.c", "sha512_single", "c01", "LLL"),
    ("md5_single", "md5_mb/md5_ctx_base.c", "md5_single", "c01", "LL"),
]


# translated and proved in wip, not wired: needs fixes/sm3-base-rotate-count-zero.patch in /repo
# (the current source shifts a uint32_t by 32, which the model - like C - leaves undefined)
KERNELS_PENDING = [
    ("sm3_single", "sm3_mb/sm3_ctx_base.c", "sm3_single", "c01", "LLLL"),
]


class Unsupported(Exception):
    pass


BASE = {"unsigned long": (64, False), "unsigned long long": (64, False), "long": (64, True),
        "long long": (64, True), "unsigned int": (32, False), "int": (32, True),
        "unsigned short": (16, False), "short": (16, True), "unsigned char": (8, False),
        "char": (8, True), "signed char": (8, True), "_Bool": (8, False), "unsigned": (32, False)}

_AST_CACHE = {}


def gcc_version():
    try:
        v = subprocess.run(["gcc", "-dumpfullversion"], stdout=subprocess.PIPE, timeout=20).stdout.decode().strip()
        if re.match(r"^\d+\.\d+(\.\d+)?$", v):
            # clang 14 cannot parse glibc's headers when it announces GCC >= 11 (attribute
            # malloc with arguments); the only `__GNUC__ >= 11` conditionals in the library are
            # `OPT_FIX __attribute__((noipa))` (an optimisation barrier without meaning for the
            # source semantics), so announce at most 10.x
            return v if int(v.split(".")[0]) < 11 else "10.5.0"
    except Exception:
        pass
    return "10.5.0"


def clang_ast(repo, rel):
    key = (repo, rel)
    if key in _AST_CACHE:
        return _AST_CACHE[key]
    incs = ["-I", os.path.join(repo, "include"), "-I", os.path.join(repo, os.path.dirname(rel)), "-I", repo]
    for d in sorted(os.listdir(repo)):
        if os.path.isdir(os.path.join(repo, d)) and not d.startswith("."):
            incs += ["-I", os.path.join(repo, d)]
    # the library is built by gcc: make clang's preprocessor take gcc's branches (endian_helper.h
    # selects __builtin_bswap32 for GCC >= 4.3; clang alone announces GCC 4.2)
    cmd = ["clang", "-Xclang", "-ast-dump=json", "-fsyntax-only", "-w", "-fgnuc-version=" + gcc_version()] + incs + [os.path.join(repo, rel)]
    p = subprocess.run(cmd, stdout=subprocess.PIPE, stderr=subprocess.PIPE, timeout=120)
    if p.returncode != 0:
        raise Unsupported("clang failed on %s: %s" % (rel, p.stderr.decode(errors="replace")[-600:]))
    ast = json.loads(p.stdout)
    _AST_CACHE[key] = ast
    return ast


class TU:
    def __init__(self, ast):
        self.typedefs = {}
        self.funcs = {}
        for d in ast.get("inner", []):
            k = d.get("kind")
            if k == "TypedefDecl":
                self.typedefs[d["name"]] = d["type"].get("desugaredQualType") or d["type"]["qualType"]
            elif k == "FunctionDecl" and any(c.get("kind") == "CompoundStmt" for c in d.get("inner", [])):
                self.funcs[d["name"]] = d

    def parse(self, q, depth=0):
        """C type text -> ('int', width, signed) | ('ptr', t) | ('arr', t, n) | ('void',) | ('rec', text)"""
        if depth > 20:
            raise Unsupported("typedef chain too deep: " + q)
        q = q.strip()
        m = re.match(r"^(.*\S)\s*\[(\d+)\]$", q)
        if m:
            return ("arr", self.parse(m.group(1), depth + 1), int(m.group(2)))
        if q.endswith("*"):
            return ("ptr", self.parse(q[:-1], depth + 1))
        q = re.sub(r"\b(const|volatile|restrict|__restrict)\b", " ", q)
        q = " ".join(q.split())
        if q in BASE:
            return ("int",) + BASE[q]
        if q == "void":
            return ("void",)
        if q.startswith("union ") or q.startswith("struct "):
            return ("rec", q)
        if q in self.typedefs:
            return self.parse(self.typedefs[q], depth + 1)
        raise Unsupported("type `%s`" % q)

    def ty(self, node):
        t = node["type"]
        try:
            return self.parse(t["qualType"])
        except Unsupported:
            if "desugaredQualType" in t:
                return self.parse(t["desugaredQualType"])
            raise


# ---------------------------------------------------------------- target language (python side)
# expr: ("C", n) ("V", x) ("L", o, aw, idx) ("B", op, w, a, b) ("N", w, a) ("X", w, a) ("S", w, a)
#       ("P", c, a, b) ("!", a)
# stmt: ("A", x, e) ("T", o, aw, idx, e) ("I", c, th, el) ("W", pre, c, body)

BINOPS = {"+": "BAdd", "-": "BSub", "*": "BMul", "&": "BAnd", "|": "BOr", "^": "BXor",
          "<<": "BShl", ">>": "BShr", "/": "BDiv", "%": "BMod"}
CMPOPS = {"<": "CLt", "<=": "CLe", ">": "CGt", ">=": "CGe", "==": "CEq", "!=": "CNe"}


def fold_signed(op, a, b):
    """constant folding of an `int` node whose operands are integer constants (possibly negative
    intermediates such as `(0 - 16) & 15`): exact C semantics (two's complement for & | ^),
    anything C leaves undefined / implementation-defined fails closed.  A negative constant is
    only ever accepted where it is converted to an unsigned type (C: modulo 2^w) or folded
    further; cq_expr refuses to emit one."""
    if (a < 0 or b < 0) and op in ("<<", ">>", "/", "%"):
        raise Unsupported("signed %s on a negative constant" % op)
    if op == "+": r = a + b
    elif op == "-": r = a - b
    elif op == "*": r = a * b
    elif op == "&": r = a & b
    elif op == "|": r = a | b
    elif op == "^": r = a ^ b
    elif op == "<<":
        if b >= 31: raise Unsupported("signed shift by %d" % b)
        r = a << b
    elif op == ">>":
        if b >= 32: raise Unsupported("signed shift by %d" % b)
        r = a >> b
    elif op == "/":
        if b == 0: raise Unsupported("constant division by zero")
        r = a // b
    elif op == "%":
        if b == 0: raise Unsupported("constant division by zero")
        r = a % b
    else:
        raise Unsupported("signed operator " + op)
    if not (-2 ** 31 <= r < 2 ** 31):
        raise Unsupported("signed constant expression overflows int")
    return r


class Fn:
    """translation of one kernel entry function (helpers inlined)"""
    def __init__(self, tu, fdecl):
        self.tu = tu
        self.fdecl = fdecl
        self.vars = []          # (name, width)
        self.objs = []          # dict(name, kind 'param'|'local', views set(), ncells_bytes, written, const)
        self.bind = {}          # decl id -> binding
        self.fields = {}        # FieldDecl id -> (byte offset, type)
        self.depth = 0
        self.params = []        # ('scalar', vid, name, width) | ('ptr', oid, name)
        self.failvar = None

    # ---- allocation
    def new_var(self, name, width):
        self.vars.append((name, width))
        return len(self.vars) - 1

    def new_obj(self, name, kind, nbytes=None):
        self.objs.append({"name": name, "kind": kind, "views": set(), "nbytes": nbytes, "written": False})
        return len(self.objs) - 1

    # ---- types
    def uint_width(self, node, what="expression"):
        t = self.tu.ty(node)
        if t[0] != "int":
            raise Unsupported("%s of non-integer type %s" % (what, node["type"]["qualType"]))
        return t[1], t[2]

    # ---- pointers (static)
    def ptr(self, e):
        """pointer-valued expression -> (obj, element width or None, byte offset)"""
        k = e["kind"]
        if k == "ParenExpr":
            return self.ptr(e["inner"][0])
        if k in ("ImplicitCastExpr", "CStyleCastExpr"):
            ck = e.get("castKind")
            inner = e["inner"][0]
            if ck == "LValueToRValue":
                if inner["kind"] != "DeclRefExpr":
                    raise Unsupported("pointer loaded from memory")
                b = self.bind.get(inner["referencedDecl"]["id"])
                if not b or b[0] != "ptr":
                    raise Unsupported("pointer variable `%s` not bound" % inner["referencedDecl"].get("name"))
                return (b[1], b[2], b[3])
            if ck == "ArrayToPointerDecay":
                return self.arr_lvalue(inner)
            if ck in ("BitCast", "NoOp"):
                o, _, off = self.ptr(inner)
                if isinstance(o, tuple) and ck == "BitCast":
                    raise Unsupported("cast of the address of a scalar")
                t = self.tu.ty(e)
                if t[0] != "ptr":
                    raise Unsupported("cast of a pointer to a non-pointer")
                ew = self.elem_width(t[1])
                if ew and off % (ew // 8):
                    raise Unsupported("misaligned pointer cast")
                return (o, ew, off)
            raise Unsupported("pointer cast kind %s" % ck)
        if k == "UnaryOperator" and e["opcode"] == "&":
            inner = e["inner"][0]
            while inner["kind"] == "ParenExpr":
                inner = inner["inner"][0]
            if inner["kind"] == "DeclRefExpr":
                b = self.bind.get(inner["referencedDecl"]["id"])
                if b and b[0] == "scalar":
                    return (("V", b[1], b[2]), b[2], 0)
            raise Unsupported("address of something that is not a scalar local")
        if k == "BinaryOperator" and e["opcode"] in ("+", "-"):
            l, r = e["inner"]
            lt = self.tu.ty(l)
            if lt[0] != "ptr":
                if e["opcode"] == "-":
                    raise Unsupported("pointer difference")
                l, r = r, l
            o, ew, off = self.ptr(l)
            c = self.const_of(r)
            if c is None or ew is None:
                raise Unsupported("pointer arithmetic with a non-constant offset")
            off = off + c * (ew // 8) if e["opcode"] == "+" else off - c * (ew // 8)
            if off < 0:
                raise Unsupported("negative pointer offset")
            return (o, ew, off)
        raise Unsupported("pointer expression %s" % k)

    def elem_width(self, t):
        if t[0] == "int":
            if t[2]:
                raise Unsupported("pointer to a signed type")
            return t[1]
        if t[0] == "void":
            return None
        raise Unsupported("pointer to %s" % (t,))

    def arr_lvalue(self, e):
        """array-typed lvalue -> (obj, elem width, byte offset)"""
        k = e["kind"]
        if k == "ParenExpr":
            return self.arr_lvalue(e["inner"][0])
        if k == "DeclRefExpr":
            b = self.bind.get(e["referencedDecl"]["id"])
            if not b or b[0] != "arr":
                raise Unsupported("array `%s` not bound" % e["referencedDecl"].get("name"))
            return (b[1], b[2], 0)
        if k == "MemberExpr":
            if e.get("isArrow"):
                raise Unsupported("-> member access")
            base = e["inner"][0]
            if base["kind"] != "DeclRefExpr":
                raise Unsupported("nested member access")
            b = self.bind.get(base["referencedDecl"]["id"])
            if not b or b[0] != "rec":
                raise Unsupported("record variable not bound")
            fid = e.get("referencedMemberDecl")
            if fid not in self.fields:
                raise Unsupported("unknown field")
            off, ft = self.fields[fid]
            if ft[0] != "arr":
                raise Unsupported("non-array union member")
            return (b[1], self.elem_width(ft[1]), off)
        raise Unsupported("array lvalue %s" % k)

    def const_of(self, e):
        """integer constant expression (literals and signed-int folding) or None"""
        try:
            pre, x = self.tx(e)
        except Unsupported:
            return None
        if pre or x[0] != "C":
            return None
        return x[1]

    # ---- lvalues
    def lvalue(self, e):
        """-> (pre, ('scalar', vid, width) | ('mem', obj, aw, idx expr))"""
        k = e["kind"]
        if k == "ParenExpr":
            return self.lvalue(e["inner"][0])
        if k == "DeclRefExpr":
            b = self.bind.get(e["referencedDecl"]["id"])
            if not b:
                raise Unsupported("variable `%s` not bound (global?)" % e["referencedDecl"].get("name"))
            if b[0] != "scalar":
                raise Unsupported("`%s` used as a scalar lvalue" % e["referencedDecl"].get("name"))
            return [], ("scalar", b[1], b[2])
        if k == "ArraySubscriptExpr":
            base, idx = e["inner"]
            if self.tu.ty(base)[0] != "ptr":
                base, idx = idx, base
            o, ew, off = self.ptr(base)
            if isinstance(o, tuple):
                raise Unsupported("subscript of the address of a scalar")
            if ew is None:
                raise Unsupported("subscript of void *")
            w, signed = self.uint_width(e, "array element")
            if signed or w != ew:
                raise Unsupported("array element type mismatch")
            pre, ix = self.tx(idx)
            ix = self.as_index(ix, idx)
            if off:
                if off % (ew // 8):
                    raise Unsupported("misaligned element")
                ix = ("B", "+", 64, ix, ("C", off // (ew // 8)))
            self.objs[o]["views"].add(ew)
            return pre, ("mem", o, ew, ix)
        if k == "UnaryOperator" and e["opcode"] == "*":
            o, ew, off = self.ptr(e["inner"][0])
            if isinstance(o, tuple):
                return [], ("scalar", o[1], o[2])
            if ew is None:
                raise Unsupported("dereference of void *")
            if off % (ew // 8):
                raise Unsupported("misaligned element")
            self.objs[o]["views"].add(ew)
            return [], ("mem", o, ew, ("C", off // (ew // 8)))
        raise Unsupported("lvalue %s" % k)

    def as_index(self, ix, node):
        t = self.tu.ty(node)
        if t[0] != "int":
            raise Unsupported("non-integer index")
        if t[2] and ix[0] != "C" and not (t[1] == 32):
            raise Unsupported("signed non-constant index")
        if ix[0] == "C" and ix[1] < 0:
            raise Unsupported("negative index")
        return ix

    def read(self, lv):
        if lv[0] == "scalar":
            return ("V", lv[1])
        return ("L", lv[1], lv[2], lv[3])

    def write(self, lv, x):
        if lv[0] == "scalar":
            return ("A", lv[1], x)
        self.objs[lv[1]]["written"] = True
        return ("T", lv[1], lv[2], lv[3], x)

    def lv_width(self, lv):
        return lv[2]

    def pure_index(self, lv):
        """an lvalue read twice (x op= e, x++) must have a side-effect-free, stable index"""
        return True

    def fail_stmt(self):
        """a statement whose evaluation is an error of the model (shift by the full width)"""
        if self.failvar is None:
            self.failvar = self.new_var("ub.fail", 32)
        return ("A", self.failvar, ("B", "<<", 32, ("C", 0), ("C", 32)))

    def guard(self, cond):
        """fail (model error) when cond is non-zero"""
        return ("I", cond, [self.fail_stmt()], [])

    def signed_op(self, op, a, b):
        """int op on values kept in [0, 2^31): the result, with the guards that keep it there"""
        if op == "+":
            v = ("B", "+", 32, a, b)
            return [self.guard(("P", ">=", v, ("C", 2 ** 31)))], v
        if op == "-":
            return [self.guard(("P", "<", a, b))], ("B", "-", 32, a, b)
        if op == "*":
            v = ("B", "*", 64, a, b)
            return [self.guard(("P", ">=", v, ("C", 2 ** 31)))], ("X", 32, v)
        if op in ("%", "/", "&", "|", "^", ">>"):
            return [], ("B", op, 32, a, b)
        raise Unsupported("signed %s on non-constant values" % op)

    def only_fresh_writes(self, pre):
        """pre-statements that only assign scalars created by inlining a call (unique per call
        site, so the other operand cannot mention them) and store nothing to memory: the order in
        which two such operand preludes run does not matter (C leaves it unspecified)"""
        for st in pre:
            if st[0] == "A":
                name = self.vars[st[1]][0]
                if "." not in name or name.startswith("old."):
                    return False
            elif st[0] == "I":
                if not (self.only_fresh_writes(st[2]) and self.only_fresh_writes(st[3])):
                    return False
            else:
                return False
        return True

    def both_sides(self, pl, pr, op):
        if pl and pr and not (self.only_fresh_writes(pl) and self.only_fresh_writes(pr)):
            raise Unsupported("side effects on both sides of %s" % op)

    # ---- expressions
    def tx(self, e, void=False):
        """-> (pre statements, pure expression)"""
        k = e["kind"]
        if k in ("ParenExpr", "ConstantExpr"):
            return self.tx(e["inner"][0], void)
        if k == "IntegerLiteral":
            v = int(e["value"])
            if v < 0:
                raise Unsupported("negative literal")
            return [], ("C", v)
        if k == "CharacterLiteral":
            return [], ("C", int(e["value"]))
        if k in ("ImplicitCastExpr", "CStyleCastExpr"):
            ck = e.get("castKind")
            inner = e["inner"][0]
            if ck == "LValueToRValue":
                ii = inner
                while ii["kind"] == "ParenExpr":
                    ii = ii["inner"][0]
                if ii["kind"] == "DeclRefExpr":
                    b0 = self.bind.get(ii["referencedDecl"]["id"])
                    if b0 and b0[0] == "const":
                        return [], ("C", b0[1])
                pre, lv = self.lvalue(inner)
                return pre, self.read(lv)
            if ck == "NoOp":
                return self.tx(inner, void)
            if ck == "ToVoid":
                return self.tx(inner, True)
            if ck == "IntegralCast":
                pre, x = self.tx(inner)
                tw, tsigned = self.uint_width(e, "cast")
                sw, ssigned = self.uint_width(inner, "cast operand")
                if ssigned:
                    if x[0] == "C" or x[0] in ("P", "!"):
                        if x[0] == "C" and not tsigned:
                            return pre, ("C", x[1] % 2 ** tw)      # C: conversion to unsigned is modulo 2^w
                        if x[0] == "C" and not (-2 ** (tw - 1) <= x[1] < 2 ** (tw - 1)):
                            raise Unsupported("constant does not fit the cast target")
                        return pre, x
                    if sw == 32 and tw >= 32:
                        return pre, x          # an int kept in [0, 2^31): the same value at any type of >= 32 bits
                    raise Unsupported("cast from a signed non-constant value")
                if tsigned:
                    if sw < tw:
                        return pre, x          # zero-extension, value preserved, non-negative
                    if sw == 32 and tw == 32:  # uint32 -> int: guarded
                        return pre + [self.guard(("P", ">=", x, ("C", 2 ** 31)))], x
                    raise Unsupported("cast of an unsigned value to a signed type of the same or smaller width")
                if tw < sw:
                    return pre, ("X", tw, x)
                return pre, x
            raise Unsupported("cast kind %s" % ck)
        if k == "UnaryOperator":
            op = e["opcode"]
            inner = e["inner"][0]
            if op == "~":
                w, signed = self.uint_width(e)
                pre, x = self.tx(inner)
                if signed:
                    if x[0] == "C" and not pre:
                        return [], ("C", -x[1] - 1)
                    raise Unsupported("~ on a signed value")
                return pre, ("N", w, x)
            if op == "-":
                w, signed = self.uint_width(e)
                pre, x = self.tx(inner)
                if signed:
                    if x[0] == "C" and not pre and x[1] > -2 ** 31:
                        return [], ("C", -x[1])
                    raise Unsupported("unary - on a signed value")
                return pre, ("B", "-", w, ("C", 0), x)
            if op == "!":
                pre, x = self.tx(inner)
                return pre, ("!", x)
            if op in ("++", "--"):
                pre, lv = self.lvalue(inner)
                w = self.lv_width(lv)
                tw, signed = self.uint_width(e)
                if tw != w:
                    raise Unsupported("++/-- on a promoted value")
                if signed:
                    if w != 32:
                        raise Unsupported("++/-- on a signed value that is not an int")
                    g, newv = self.signed_op("+" if op == "++" else "-", self.read(lv), ("C", 1))
                    pre = pre + g
                else:
                    newv = ("B", "+" if op == "++" else "-", w, self.read(lv), ("C", 1))
                if void:
                    return pre + [self.write(lv, newv)], ("C", 0)
                if e.get("isPostfix"):
                    t = self.new_var("old." + str(len(self.vars)), w)
                    return pre + [("A", t, self.read(lv)), self.write(lv, newv)], ("V", t)
                return pre + [self.write(lv, newv)], self.read(lv)
            raise Unsupported("unary operator %s" % op)
        if k == "BinaryOperator":
            op = e["opcode"]
            l, r = e["inner"]
            if op == "=":
                prer, x = self.tx(r)
                prel, lv = self.lvalue(l)
                w = self.lv_width(lv)
                rw, rsigned = self.uint_width(r, "assigned value")
                if rsigned and x[0] not in ("C", "P", "!") and not (rw == 32 and w >= 32):
                    raise Unsupported("assignment of a signed value")
                if rw > w or (x[0] == "C" and x[1] >= 2 ** w):
                    raise Unsupported("assignment narrows without a cast")
                st = self.write(lv, x)
                return prer + prel + [st], (("C", 0) if void else self.read(lv))
            if op == ",":
                pre1, _ = self.tx(l, True)
                pre2, x = self.tx(r, void)
                return pre1 + pre2, x
            if op in BINOPS:
                w, signed = self.uint_width(e)
                pl, a = self.tx(l)
                pr, b = self.tx(r)
                self.both_sides(pl, pr, op)
                if signed:
                    if a[0] == "C" and b[0] == "C":
                        return pl + pr, ("C", fold_signed(op, a[1], b[1]))
                    if w == 32 and not (a[0] == "C" and a[1] < 0) and not (b[0] == "C" and b[1] < 0):
                        g, v = self.signed_op(op, a, b)
                        return pl + pr + g, v
                    raise Unsupported("signed arithmetic (%s at type int)" % op)
                if op in ("<<", ">>"):
                    lw, lsigned = self.uint_width(l)
                    if lsigned and a[0] != "C":
                        raise Unsupported("shift of a signed value")
                return pl + pr, ("B", op, w, a, b)
            if op in CMPOPS:
                pl, a = self.tx(l)
                pr, b = self.tx(r)
                self.both_sides(pl, pr, op)
                for side, x in ((l, a), (r, b)):
                    sw, ssigned = self.uint_width(side, "comparison operand")
                    if ssigned and x[0] not in ("C", "P", "!") and sw != 32:
                        raise Unsupported("comparison of signed values")
                    if x[0] == "C" and x[1] < 0 and not (a[0] == "C" and b[0] == "C"):
                        raise Unsupported("comparison with a negative constant")
                if a[0] == "C" and b[0] == "C":
                    va, vb = a[1], b[1]
                    res = {"<": va < vb, "<=": va <= vb, ">": va > vb, ">=": va >= vb, "==": va == vb, "!=": va != vb}[op]
                    return pl + pr, ("C", 1 if res else 0)
                return pl + pr, ("P", op, a, b)
            raise Unsupported("binary operator %s" % op)
        if k == "CompoundAssignOperator":
            op = e["opcode"][:-1]
            l, r = e["inner"]
            if op not in BINOPS:
                raise Unsupported("compound operator %s" % e["opcode"])
            prer, x = self.tx(r)
            prel, lv = self.lvalue(l)
            w = self.lv_width(lv)
            ct = self.tu.parse(e["computeResultType"]["qualType"])
            cl = self.tu.parse(e["computeLHSType"]["qualType"])
            if ct[0] != "int" or ct[2] or cl[0] != "int" or cl[2] or cl[1] != ct[1] or ct[1] < w:
                raise Unsupported("compound assignment computed at a signed / narrower type")
            v = ("B", op, ct[1], self.read(lv), x)
            if ct[1] > w:
                v = ("X", w, v)
            return prer + prel + [self.write(lv, v)], (("C", 0) if void else self.read(lv))
        if k == "ConditionalOperator":
            c0, a0, b0 = e["inner"]
            pc, c = self.tx(c0)
            pa, a = self.tx(a0)
            pb, b = self.tx(b0)
            w, signed = self.uint_width(e)
            if signed and w != 32:
                raise Unsupported("?: at a signed type that is not int")
            for x in (a, b):
                if x[0] == "C" and x[1] < 0:
                    raise Unsupported("negative constant in ?:")
            t = self.new_var("cond." + str(len(self.vars)), w)
            return pc + [("I", c, pa + [("A", t, a)], pb + [("A", t, b)])], ("V", t)
        if k == "UnaryExprOrTypeTraitExpr" and e.get("name") == "sizeof":
            if "argType" in e:
                t = self.tu.parse(e["argType"].get("desugaredQualType") or e["argType"]["qualType"])
            else:
                inner = e["inner"][0]
                while inner["kind"] == "ParenExpr":
                    inner = inner["inner"][0]
                t = self.tu.ty(inner)
            def size(t):
                if t[0] == "int":
                    return t[1] // 8
                if t[0] == "arr":
                    return t[2] * size(t[1])
                raise Unsupported("sizeof of %s" % (t,))
            return [], ("C", size(t))
        if k == "CallExpr":
            callee = e["inner"][0]
            while callee["kind"] in ("ImplicitCastExpr", "ParenExpr"):
                callee = callee["inner"][0]
            if callee["kind"] != "DeclRefExpr":
                raise Unsupported("indirect call")
            name = callee["referencedDecl"]["name"]
            args = e["inner"][1:]
            if name in ("__builtin_bswap32", "__builtin_bswap64"):
                pre, x = self.tx(args[0])
                return pre, ("S", 32 if name.endswith("32") else 64, x)
            if name == "memset":
                # memset (p, 0, n) over a whole local array: zero stores at the array's element width
                o, _, off = self.ptr(args[0])
                val = self.const_of(args[1])
                n = self.const_of(args[2])
                if isinstance(o, tuple) or off != 0 or val != 0 or n is None:
                    raise Unsupported("memset other than (array, 0, constant)")
                ob = self.objs[o]
                if ob["kind"] != "local" or ob["nbytes"] != n or len(ob["views"]) != 1:
                    raise Unsupported("memset that does not clear exactly one whole local array")
                ew = next(iter(ob["views"]))
                ob["written"] = True
                return [("T", o, ew, ("C", i), ("C", 0)) for i in range(n * 8 // ew)], ("C", 0)
            if name in self.tu.funcs:
                return self.inline(self.tu.funcs[name], args, void)
            raise Unsupported("call of `%s` (not defined in this file)" % name)
        raise Unsupported("expression %s" % k)

    def inline(self, fdecl, args, void):
        if self.depth > 8:
            raise Unsupported("call depth (recursion?)")
        self.depth += 1
        try:
            pre = []
            params = [c for c in fdecl.get("inner", []) if c.get("kind") == "ParmVarDecl"]
            if len(params) != len(args):
                raise Unsupported("argument count of `%s`" % fdecl["name"])
            saved = {}
            for p, a in zip(params, args):
                t = self.tu.ty(p)
                if t[0] == "int":
                    if t[2] and t[1] != 32:
                        raise Unsupported("signed parameter of `%s`" % fdecl["name"])
                    pa, x = self.tx(a)
                    if t[2] and x[0] == "C":
                        # an int parameter given a constant: bound to the constant itself
                        pre += pa
                        saved[p["id"]] = self.bind.get(p["id"])
                        self.bind[p["id"]] = ("const", x[1])
                        continue
                    v = self.new_var("%s.%s" % (fdecl["name"], p.get("name", "_")), t[1])
                    pre += pa + [("A", v, x)]
                    nb = ("scalar", v, t[1])
                elif t[0] == "ptr":
                    o, _, off = self.ptr(a)
                    nb = ("ptr", o, self.elem_width(t[1]), off)
                else:
                    raise Unsupported("parameter type of `%s`" % fdecl["name"])
                saved[p["id"]] = self.bind.get(p["id"])
                self.bind[p["id"]] = nb
            body = [c for c in fdecl["inner"] if c.get("kind") == "CompoundStmt"][0]
            rt = self.tu.parse(fdecl["type"]["qualType"].split("(")[0])
            stmts = list(body.get("inner", []))
            ret = None
            if rt[0] == "void":
                if stmts and stmts[-1]["kind"] == "ReturnStmt" and not stmts[-1].get("inner"):
                    stmts = stmts[:-1]
                pre += self.block(stmts)
                res = ("C", 0)
            else:
                if rt[0] != "int" or rt[2]:
                    raise Unsupported("return type of `%s`" % fdecl["name"])
                if not stmts or stmts[-1]["kind"] != "ReturnStmt" or not stmts[-1].get("inner"):
                    raise Unsupported("`%s` does not end in `return e`" % fdecl["name"])
                pre += self.block(stmts[:-1])
                pr, x = self.tx(stmts[-1]["inner"][0])
                ret = self.new_var("%s.ret" % fdecl["name"], rt[1])
                pre += pr + [("A", ret, x)]
                res = ("V", ret)
            for k2, v2 in saved.items():
                if v2 is None:
                    self.bind.pop(k2, None)
                else:
                    self.bind[k2] = v2
            return pre, res
        finally:
            self.depth -= 1

    # ---- statements
    def block(self, stmts):
        out = []
        for s in stmts:
            out += self.stmt(s)
        return out

    def stmt(self, s):
        k = s["kind"]
        if k == "CompoundStmt":
            return self.block(s.get("inner", []))
        if k == "NullStmt":
            return []
        if k == "DeclStmt":
            out = []
            for d in s.get("inner", []):
                out += self.decl(d)
            return out
        if k == "IfStmt":
            inner = s["inner"]
            if s.get("hasVar") or s.get("hasInit"):
                raise Unsupported("if with declaration")
            pre, c = self.tx(inner[0])
            th = self.stmt(inner[1])
            el = self.stmt(inner[2]) if len(inner) > 2 else []
            return pre + [("I", c, th, el)]
        if k == "WhileStmt":
            inner = s["inner"]
            if len(inner) != 2:
                raise Unsupported("while with declaration")
            pre, c = self.tx(inner[0])
            return [("W", pre, c, self.stmt(inner[1]))]
        if k == "ForStmt":
            init, condvar, cond, inc, body = s["inner"]
            if condvar:
                raise Unsupported("for with condition variable")
            out = self.stmt(init) if init else []
            if cond:
                pre, c = self.tx(cond)
            else:
                raise Unsupported("for without condition")
            b = self.stmt(body)
            if inc:
                pi, _ = self.tx(inc, True)
                b = b + pi
            return out + [("W", pre, c, b)]
        if k == "ReturnStmt":
            raise Unsupported("return that is not the last statement of the function")
        if k in ("BinaryOperator", "CompoundAssignOperator", "UnaryOperator", "CallExpr", "ParenExpr",
                 "ImplicitCastExpr", "CStyleCastExpr"):
            pre, _ = self.tx(s, True)
            return pre
        raise Unsupported("statement %s" % k)

    def decl(self, d):
        k = d["kind"]
        if k == "RecordDecl":
            if d.get("tagUsed") != "union":
                raise Unsupported("local struct")
            for f in d.get("inner", []):
                if f.get("kind") == "FieldDecl":
                    self.fields[f["id"]] = (0, self.tu.ty(f))
            return []
        if k != "VarDecl":
            raise Unsupported("declaration %s" % k)
        if d.get("storageClass") in ("static", "extern"):
            raise Unsupported("static / extern local")
        t = self.tu.ty(d)
        init = d["inner"][0] if d.get("inner") else None
        name = d.get("name", "_")
        if t[0] == "int":
            if t[2] and t[1] != 32:
                raise Unsupported("signed local `%s`" % name)
            v = self.new_var(name, t[1])
            self.bind[d["id"]] = ("scalar", v, t[1])
            if init is None:
                return []
            pre, x = self.tx(init)
            return pre + [("A", v, x)]
        if t[0] == "ptr":
            if init is None:
                raise Unsupported("pointer local `%s` without initialiser" % name)
            o, _, off = self.ptr(init)
            self.bind[d["id"]] = ("ptr", o, self.elem_width(t[1]), off)
            return []
        if t[0] == "arr":
            ew = self.elem_width(t[1])
            if ew is None:
                raise Unsupported("array of void")
            o = self.new_obj(name, "local", t[2] * ew // 8)
            self.objs[o]["views"].add(ew)
            self.bind[d["id"]] = ("arr", o, ew, t[2])
            if init is None:
                return []
            if init["kind"] != "InitListExpr":
                raise Unsupported("array initialiser %s" % init["kind"])
            items = init.get("inner", [])
            if "array_filler" in init:
                items = [c for c in init["array_filler"] if c.get("kind") != "ImplicitValueInitExpr"]
            out = []
            self.objs[o]["written"] = True
            for i in range(t[2]):
                if i < len(items):
                    pre, x = self.tx(items[i])
                    out += pre
                else:
                    x = ("C", 0)
                out.append(("T", o, ew, ("C", i), x))
            return out
        if t[0] == "rec":
            nbytes = 0
            # the RecordDecl precedes the VarDecl in the same DeclStmt: all its members are at offset 0
            for fid, (off, ft) in self.fields.items():
                if ft[0] == "arr":
                    nbytes = max(nbytes, ft[2] * self.elem_width(ft[1]) // 8)
                else:
                    raise Unsupported("non-array union member")
            if init is not None or nbytes == 0:
                raise Unsupported("union local with initialiser / unknown layout")
            o = self.new_obj(name, "local", nbytes)
            self.bind[d["id"]] = ("rec", o)
            return []
        raise Unsupported("local of type %s" % (t,))

    # ---- entry
    def translate(self):
        f = self.fdecl
        rt = self.tu.parse(f["type"]["qualType"].split("(")[0])
        if rt[0] != "void":
            raise Unsupported("kernel entry with a return value")
        for p in [c for c in f.get("inner", []) if c.get("kind") == "ParmVarDecl"]:
            t = self.tu.ty(p)
            name = p.get("name", "_")
            if t[0] == "int":
                if t[2]:
                    raise Unsupported("signed parameter")
                v = self.new_var(name, t[1])
                self.bind[p["id"]] = ("scalar", v, t[1])
                self.params.append(("scalar", v, name, t[1]))
            elif t[0] == "ptr":
                o = self.new_obj(name, "param")
                self.bind[p["id"]] = ("ptr", o, self.elem_width(t[1]), 0)
                self.params.append(("ptr", o, name))
            else:
                raise Unsupported("parameter type")
        body = [c for c in f["inner"] if c.get("kind") == "CompoundStmt"][0]
        stmts = list(body.get("inner", []))
        if stmts and stmts[-1]["kind"] == "ReturnStmt" and not stmts[-1].get("inner"):
            stmts = stmts[:-1]
        self.body = self.block(stmts)
        for o in self.objs:
            vs = o["views"]
            if not vs:
                o["cw"] = 8
            elif len(vs) == 1:
                o["cw"] = next(iter(vs))
            else:
                o["cw"] = 8
            if o["kind"] == "local":
                o["ncells"] = o["nbytes"] * 8 // o["cw"]
        return self


# ---------------------------------------------------------------- Coq text

def cq_expr(x):
    k = x[0]
    if k == "C":
        if x[1] < 0:
            raise Unsupported("negative constant reaches the program")
        return "(EConst %d)" % x[1]
    if k == "V":
        return "(EVar %d)" % x[1]
    if k == "L":
        return "(ELoad %d %d %s)" % (x[1], x[2], cq_expr(x[3]))
    if k == "B":
        return "(EBin %s %d %s %s)" % (BINOPS[x[1]], x[2], cq_expr(x[3]), cq_expr(x[4]))
    if k == "N":
        return "(ENot %d %s)" % (x[1], cq_expr(x[2]))
    if k == "X":
        return "(ECast %d %s)" % (x[1], cq_expr(x[2]))
    if k == "S":
        return "(EBswap %d %s)" % (x[1], cq_expr(x[2]))
    if k == "P":
        return "(ECmp %s %s %s)" % (CMPOPS[x[1]], cq_expr(x[2]), cq_expr(x[3]))
    if k == "!":
        return "(ELnot %s)" % cq_expr(x[1])
    raise AssertionError(x)


def cq_stmts(ss, ind):
    if not ss:
        return "[]"
    pad = " " * ind
    return "[\n" + (";\n").join(pad + "  " + cq_stmt(s, ind + 2) for s in ss) + "\n" + pad + "]"


def cq_stmt(s, ind):
    k = s[0]
    if k == "A":
        return "SAssign %d %s" % (s[1], cq_expr(s[2]))
    if k == "T":
        return "SStore %d %d %s %s" % (s[1], s[2], cq_expr(s[3]), cq_expr(s[4]))
    if k == "I":
        return "SIf %s %s %s" % (cq_expr(s[1]), cq_stmts(s[2], ind), cq_stmts(s[3], ind))
    if k == "W":
        return "SWhile %s %s %s" % (cq_stmts(s[1], ind), cq_expr(s[2]), cq_stmts(s[3], ind))
    raise AssertionError(s)


def ident(s):
    return re.sub(r"[^A-Za-z0-9_]", "_", s)


def count_stmts(ss):
    n = 0
    for s in ss:
        n += 1
        if s[0] == "I":
            n += count_stmts(s[2]) + count_stmts(s[3])
        elif s[0] == "W":
            n += count_stmts(s[1]) + count_stmts(s[3])
    return n


def cq_function(key, fn):
    """the deep program + the Gallina function over N that runs it"""
    name = "c_" + key
    out = []
    out.append("(* %s: %d scalars, %d objects, %d statements" % (fn.fdecl["name"], len(fn.vars), len(fn.objs), count_stmts(fn.body)))
    out.append("   scalars: " + ", ".join("%d=%s:u%d" % (i, ident(n), w) for i, (n, w) in enumerate(fn.vars)))
    out.append("   objects: " + ", ".join("%d=%s:%s cells of %d bits%s" % (
        i, o["name"], o["kind"], o["cw"], (" x%d" % o["ncells"]) if o["kind"] == "local" else "") for i, o in enumerate(fn.objs)) + " *)")
    out.append("Definition %s_body : list stmt :=\n  %s." % (name, cq_stmts(fn.body, 2)))
    args = []
    for p in fn.params:
        if p[0] == "scalar":
            args.append("(%s : N)" % ident(p[2]))
        else:
            args.append("(%s : list N)" % ident(p[2]))
    for o in fn.objs:
        if o["kind"] == "local":
            args.append("(junk_%s : list N)" % ident(o["name"]))
    vars_init = ["None"] * len(fn.vars)
    for p in fn.params:
        if p[0] == "scalar":
            vars_init[p[1]] = "Some (wrap %d %s)" % (p[3], ident(p[2]))
    objs_init = []
    for o in fn.objs:
        if o["kind"] == "param":
            objs_init.append("mkobj %d %s" % (o["cw"], ident(o["name"])))
        else:
            # an uninitialised local array holds arbitrary values OF ITS CELL TYPE
            objs_init.append("mkobj %d (map (wrap %d) (firstn %d (junk_%s ++ repeat 0 %d)))" % (o["cw"], o["cw"], o["ncells"], ident(o["name"]), o["ncells"]))
    fn.sig = "".join("N" if a.endswith(": N)") else "L" for a in args)
    outs = [i for i, o in enumerate(fn.objs) if o["kind"] == "param" and o["written"]]
    fn.nouts = len(outs)
    if len(outs) == 1:
        res_ty = "option (list N)"
        res = "get_obj st %d" % outs[0]
    else:
        res_ty = "option (list (list N))"
        res = "Some []"
        for i in reversed(outs):
            res = "match get_obj st %d, %s with Some a, Some b => Some (a :: b) | _, _ => None end" % (i, res)
    out.append("Definition %s_init %s : state :=\n  mkstate [%s]\n          [%s]." % (
        name, " ".join(args), "; ".join(vars_init), "; ".join(objs_init)))
    out.append("Definition %s (fuel : nat) %s : %s :=\n  match exec fuel %s_body (%s_init %s) with\n  | Some st => %s\n  | None => None\n  end." % (
        name, " ".join(args), res_ty, name, name, " ".join(a.split()[0][1:] for a in args), res))
    return "\n".join(out) + "\n"


HEADER = """(* GENERATED by tr/ckernel.py from the clang AST of the kernel sources of %s - do not edit.
   One definition group per kernel: the deep-embedded body (Model/CKernel.v), its initial state,
   and the Gallina function over N that runs it.  A kernel the translator cannot translate
   (construct outside the subset) is listed in ck_untranslated and has no definitions: every
   obligation about it then fails to build (fail closed). *)
From Coq Require Import NArith List String.
From ISAL Require Import Base.Words Base.ListUtil Model.CKernel.
Import ListNotations.
Local Open Scope N_scope.

"""


def translate_kernel(repo, rel, func):
    tu = TU(clang_ast(repo, rel))
    if func not in tu.funcs:
        raise Unsupported("function `%s` has no body in %s" % (func, rel))
    return Fn(tu, tu.funcs[func]).translate()


def generate(repo, kernels=None):
    """-> (Coq text, {key: None | reason it was not translated}, {key: Fn})"""
    kernels = kernels or KERNELS
    text = HEADER % "the current working tree"
    status, fns = {}, {}
    for key, rel, func, group, sig in kernels:
        try:
            fn = translate_kernel(repo, rel, func)
            body = cq_function(key, fn)
            if fn.sig != sig or fn.nouts != 1:
                raise Unsupported("interface changed: parameters/objects %s with %d written pointer parameters, expected %s with 1" % (fn.sig, fn.nouts, sig))
            text += body + "\n"
            status[key] = None
            fns[key] = fn
        except Unsupported as ex:
            status[key] = str(ex)
        except (KeyError, IndexError, ValueError, TypeError, AttributeError) as ex:
            status[key] = "translator error: %r" % (ex,)
        if status[key] is not None:
            text += "(* %s (%s in %s): NOT TRANSLATED - %s *)\n" % (key, func, rel, status[key].replace("*)", "* )").replace("(*", "( *"))
            text += "Definition c_%s (fuel : nat) %s : option (list N) := None.\n\n" % (
                key, " ".join("(_ : %s)" % ("N" if c == "N" else "list N") for c in sig))
    text += "Definition ck_translated : list string := [%s]%%string.\n" % "; ".join('"%s"' % k for k, v in status.items() if v is None)
    text += "Definition ck_untranslated : list string := [%s]%%string.\n" % "; ".join('"%s"' % k for k, v in status.items() if v is not None)
    return text, status, fns


if __name__ == "__main__":
    repo = sys.argv[1] if len(sys.argv) > 1 else os.environ.get("VERIF_REPO", "/repo")
    text, status, _ = generate(repo)
    sys.stdout.write(text)
    for k, v in status.items():
        sys.stderr.write("%s: %s\n" % (k, "ok" if v is None else "NOT TRANSLATED: " + v))
