"""C12 translator: ISA extensions needed by the call closure of every symbol a dispatcher can
bind  ->  coq/Gen/IsaReqGen.v

ISA oracle = GNU as (binutils 2.40): the AT&T disassembly of an object's .text is
re-assembled under `-march=generic64+<features>`; gas refuses an instruction unless the CPU
features of its template are enabled.

 * per object: lines that do not assemble on plain generic64 (x86-64 baseline incl. SSE2) are
   the non-baseline instructions;
 * per distinct non-baseline line: the smallest enabling feature set, searching singles,
   pairs, triples in an order in which a feature comes after everything gas switches on
   together with it (measured, see closure_order) — so the set found is the template's own
   requirement and not something that merely implies it;
 * sufficiency is re-checked on the whole object text with exactly the union enabled;
 * requirement of a symbol = union over the objects of its call closure (undefined-symbol
   references resolved inside the archive, transitively; dispatch objects are not entered:
   a call into another dispatched entry point is covered by that entry's own theorem).
   Object granularity over-approximates function granularity.

Instructions gas cannot attribute to any of the listed features make the object require
F_UNKNOWN (never available): fail closed."""
import hashlib, json, os, re, subprocess, tempfile

# gas name -> Coq constructor of Model/Dispatch.v, with one characteristic instruction
FEATS = [
    ("sse3", "F_SSE3", "haddps %xmm1,%xmm2"),
    ("ssse3", "F_SSSE3", "pshufb %xmm1,%xmm2"),
    ("sse4.1", "F_SSE4_1", "pextrd $1,%xmm1,%eax"),
    ("sse4.2", "F_SSE4_2", "pcmpgtq %xmm1,%xmm2"),
    ("popcnt", "F_POPCNT", "popcntl %eax,%ebx"),
    ("aes", "F_AESNI", "aesenc %xmm1,%xmm2"),
    ("pclmul", "F_PCLMUL", "pclmulqdq $1,%xmm1,%xmm2"),
    ("movbe", "F_MOVBE", "movbel (%rax),%ebx"),
    ("bmi", "F_BMI1", "andnl %eax,%ebx,%ecx"),
    ("bmi2", "F_BMI2", "rorxl $3,%eax,%ebx"),
    ("lzcnt", "F_LZCNT", "lzcntl %eax,%ebx"),
    ("adx", "F_ADX", "adcxl %eax,%ebx"),
    ("sha", "F_SHA", "sha1rnds4 $1,%xmm1,%xmm2"),
    ("gfni", "F_GFNI", "gf2p8mulb %xmm1,%xmm2"),
    ("avx", "F_AVX", "vaddps %xmm1,%xmm2,%xmm3"),
    ("avx2", "F_AVX2", "vpaddd %ymm1,%ymm2,%ymm3"),
    ("fma", "F_FMA", "vfmadd132ps %xmm1,%xmm2,%xmm3"),
    ("f16c", "F_F16C", "vcvtph2ps %xmm1,%xmm2"),
    ("vaes", "F_VAES", "vaesenc %ymm1,%ymm2,%ymm3"),
    ("vpclmulqdq", "F_VPCLMULQDQ", "vpclmulqdq $1,%ymm1,%ymm2,%ymm3"),
    ("avx512f", "F_AVX512F", "vpaddd %zmm1,%zmm2,%zmm3"),
    ("avx512cd", "F_AVX512CD", "vpconflictd %zmm1,%zmm2"),
    ("avx512dq", "F_AVX512DQ", "vpmullq %zmm1,%zmm2,%zmm3"),
    ("avx512bw", "F_AVX512BW", "vpaddb %zmm1,%zmm2,%zmm3"),
    ("avx512vl", "F_AVX512VL", "vpaddd %ymm17,%ymm2,%ymm3"),
    ("avx512ifma", "F_AVX512IFMA", "vpmadd52luq %zmm1,%zmm2,%zmm3"),
    ("avx512vbmi", "F_AVX512VBMI", "vpermb %zmm1,%zmm2,%zmm3"),
    ("avx512_vbmi2", "F_AVX512VBMI2", "vpshldw $1,%zmm1,%zmm2,%zmm3"),
    ("avx512_vnni", "F_AVX512VNNI", "vpdpbusd %zmm1,%zmm2,%zmm3"),
    ("avx512_bitalg", "F_AVX512BITALG", "vpopcntb %zmm1,%zmm2"),
    ("avx512_vpopcntdq", "F_AVX512VPOPCNTDQ", "vpopcntd %zmm1,%zmm2"),
]
COQ = {g: c for g, c, _ in FEATS}
CACHE_VERSION = 7


def as_errors(text, feats, workdir):
    """assemble; -> set of failing line numbers (1-based)"""
    p = os.path.join(workdir, "t%d.s" % os.getpid())
    with open(p, "w") as fh:
        fh.write(text)
    march = "generic64" + "".join("+" + f for f in feats)
    r = subprocess.run(["as", "-march=" + march, "--64", p, "-o", "/dev/null"], stdout=subprocess.PIPE,
                       stderr=subprocess.STDOUT, text=True, timeout=600)
    bad = set()
    for l in r.stdout.splitlines():
        m = re.match(r".*?:(\d+): Error", l)
        if m:
            bad.add(int(m.group(1)))
    if r.returncode != 0 and not bad:
        raise RuntimeError("as failed without line errors: " + r.stdout[:500])
    return bad


def gas_version():
    return subprocess.run(["as", "--version"], stdout=subprocess.PIPE, text=True).stdout.splitlines()[0]


def closure_order(workdir):
    """closure(g) = features whose characteristic instruction assembles with +g alone
    (gas switches prerequisites on); features sorted so that g comes after closure(g)\\{g}"""
    text = "\n".join(c for _, _, c in FEATS) + "\n"
    clo = {}
    for g, _, _ in FEATS:
        bad = as_errors(text, [g], workdir)
        clo[g] = [FEATS[i][0] for i in range(len(FEATS)) if (i + 1) not in bad]
        if g not in clo[g]:
            raise RuntimeError("characteristic instruction of %s does not assemble with +%s" % (g, g))
    order = sorted((g for g, _, _ in FEATS), key=lambda g: (len(clo[g]), [x[0] for x in FEATS].index(g)))
    pos = {g: i for i, g in enumerate(order)}
    for g in order:
        for f in clo[g]:
            if pos[f] > pos[g] and g not in clo[f]:
                raise RuntimeError("no topological order: %s enables %s" % (g, f))
    return order, clo


PAD_RE = re.compile(r"^((data16|cs|ds|es|ss)\s+)*(nop[wlq]?\b.*|xchgw?\s+%ax,%ax|xchg\s+%ax,%ax)$")
BR_RE = re.compile(r"^(j\w+|call\w*|loop\w*|jrcxz|jecxz)\s+([0-9a-f]+)$")
IND_RE = re.compile(r"^(notrack\s+)?(jmp\w*|call\w*)\s+\*")
END_RE = re.compile(r"^(ret\w*|jmp\w*|ud2|hlt)\b")


def parse_obj(obj):
    """-> dict(syms={name: [sec, addr, is_global]}, undef=[names], code_secs=[...],
               blocks=[{sec, addr, name, lines:[text], br:[addr], rel:[[sym, addend]], ind:bool, fall:bool}])
    blocks are the symbol-delimited pieces of every code section, in file order"""
    syms, undef = {}, []
    out = subprocess.run(["objdump", "-t", obj], stdout=subprocess.PIPE, stderr=subprocess.DEVNULL, text=True,
                         timeout=300).stdout
    for l in out.splitlines():
        m = re.match(r"^([0-9a-f]{16}) (.{7}) (\S+)\s+([0-9a-f]+)\s+(?:\.hidden |\.internal |\.protected )?(\S+)$", l)
        if not m:
            continue
        addr, flags, sec, name = int(m.group(1), 16), m.group(2), m.group(3), m.group(5)
        if sec == "*UND*":
            undef.append(name)
        elif sec not in ("*ABS*", "*COM*") and "d" not in flags[5:] and not flags[6] == "f":
            if flags[6] == "S" or name.startswith("."):
                continue
            if name not in syms or flags[0] in "gu!w":
                syms[name] = [sec, addr, flags[0] != "l"]
    out = subprocess.run(["objdump", "-dr", "-M", "att,suffix", "--no-show-raw-insn", obj], stdout=subprocess.PIPE,
                         stderr=subprocess.DEVNULL, text=True, timeout=300).stdout
    blocks, secs, cur, sec, pending = [], [], None, None, []
    for l in out.splitlines():
        m = re.match(r"Disassembly of section (\S+):", l)
        if m:
            for r in pending:       # field at the very end of a section: assume a 4-byte field
                if r[2] is not None:
                    r[1] += 4
                    r[2] = None
            pending = []
            sec, cur = m.group(1), None
            secs.append(sec)
            continue
        m = re.match(r"^([0-9a-f]{16}) <(.*)>:$", l)
        if m:
            cur = {"sec": sec, "addr": int(m.group(1), 16), "name": m.group(2), "lines": [], "br": [], "rel": [],
                   "ind": False, "fall": True}
            blocks.append(cur)
            continue
        m = re.match(r"\s+([0-9a-f]+):\s+(R_X86_64_\w+)\s+(\S+)\s*$", l)
        if m and cur is not None:
            mm = re.match(r"^(.*?)([+-]0x[0-9a-f]+)?$", m.group(3))
            pcrel = m.group(2) in ("R_X86_64_PC32", "R_X86_64_PLT32", "R_X86_64_GOTPCREL", "R_X86_64_GOTPCRELX",
                                   "R_X86_64_REX_GOTPCRELX", "R_X86_64_PC64")
            # [symbol, addend, offset of the field if pc-relative else None]; the addend of a
            # pc-relative field is made relative to the next instruction below
            cur["rel"].append([mm.group(1), int(mm.group(2) or "0", 16), int(m.group(1), 16) if pcrel else None])
            pending.append(cur["rel"][-1])
            continue
        m = re.match(r"\s+([0-9a-f]+):\t(.*)$", l)
        if not m:
            continue
        for r in pending:
            if r[2] is not None:
                r[1] += int(m.group(1), 16) - r[2]
                r[2] = None
        pending = []
        if cur is None:
            cur = {"sec": sec, "addr": int(m.group(1), 16), "name": "?", "lines": [], "br": [], "rel": [],
                   "ind": False, "fall": True}
            blocks.append(cur)
        t = re.sub(r"\s*#.*$", "", m.group(2))
        t = re.sub(r"\s*<[^>]*>", "", t).strip()
        if not t:
            continue
        if t in ("endbr64", "notrack") or PAD_RE.match(t):
            continue            # CET landing pads and alignment padding: architectural NOPs
        cur["fall"] = not END_RE.match(t)
        mb = BR_RE.match(t)
        if mb:
            cur["br"].append(int(mb.group(2), 16))
            continue
        if IND_RE.match(t):
            cur["ind"] = True
        cur["lines"].append(t)
    for r in pending:
        if r[2] is not None:
            r[1] += 4
    for b in blocks:
        b["rel"] = [[r[0], r[1]] for r in b["rel"]]
    return {"syms": syms, "undef": sorted(set(undef)), "code_secs": secs, "blocks": blocks}


def normalise(t):
    """dedupe key / probe text of a non-baseline line: immediates and displacements are
    irrelevant to feature gating (registers are kept: xmm16+ forces EVEX)"""
    t = re.sub(r"\$-?0x[0-9a-f]+", "$1", t)
    t = re.sub(r"(?<![\w$%])-?0x[0-9a-f]+\(", "8(", t)
    return t


class Oracle:
    def __init__(self, cachedir):
        self.dir = cachedir
        os.makedirs(cachedir, exist_ok=True)
        self.path = os.path.join(cachedir, "isareq-cache.json")
        self.work = tempfile.mkdtemp(prefix="isareq-", dir=cachedir)
        try:
            self.c = json.load(open(self.path))
            if self.c.get("version") != CACHE_VERSION or self.c.get("gas") != gas_version():
                raise ValueError
        except Exception:
            self.c = {"version": CACHE_VERSION, "gas": gas_version(), "lines": {}, "objs": {}}
        if "order" not in self.c:
            self.c["order"], self.c["closure"] = closure_order(self.work)
        self.order = self.c["order"]
        self.dirty = False
        self.live = set()

    def close(self):
        if self.dirty:
            # keep the cache bounded: objects of at most a few trees
            if len(self.c["objs"]) > 2500:
                self.c["objs"] = {k: v for k, v in self.c["objs"].items() if k in self.live}
            tmp = self.path + ".%d" % os.getpid()
            with open(tmp, "w") as fh:
                json.dump(self.c, fh)
            os.replace(tmp, self.path)
        for f in os.listdir(self.work):
            os.remove(os.path.join(self.work, f))
        os.rmdir(self.work)

    def classify(self, lines):
        """lines: normalised non-baseline lines -> fills self.c['lines'][line] = [features] or
        None (no subset of <= 3 listed features enables it)"""
        todo = sorted(set(l for l in lines if l not in self.c["lines"]))
        if not todo:
            return
        self.dirty = True
        n = len(self.order)
        import itertools
        combos = [(g,) for g in self.order]
        # pairs / triples in an order that prefers early (least-implying) features
        combos2 = sorted(itertools.combinations(range(n), 2), key=lambda p: (p[1], p[0]))
        combos3 = sorted(itertools.combinations(range(n), 3), key=lambda p: (p[2], p[1], p[0]))
        # a line nothing enables is not worth the triple search
        alltext = "\n".join(todo) + "\n"
        hopeless = as_errors(alltext, list(self.order), self.work)
        for i in sorted(hopeless):
            self.c["lines"][todo[i - 1]] = None
        todo = [l for i, l in enumerate(todo) if (i + 1) not in hopeless]
        for stage in (combos, [tuple(self.order[i] for i in p) for p in combos2],
                      [tuple(self.order[i] for i in p) for p in combos3]):
            for fs in stage:
                if not todo:
                    break
                bad = as_errors("\n".join(todo) + "\n", list(fs), self.work)
                rest = []
                for i, l in enumerate(todo):
                    if (i + 1) in bad:
                        rest.append(l)
                    else:
                        self.c["lines"][l] = list(fs)
                todo = rest
        for l in todo:
            self.c["lines"][l] = None

    def obj_infos(self, paths):
        """{path: parsed object with per-block features}: blocks[i] gains feats=[gas names],
        unknown=[lines], ex={feature: example line}, n; `lines` is dropped.  Cached per object
        content; uncached objects are parsed and probed in parallel, their non-baseline lines
        classified in one batch."""
        import concurrent.futures as cf
        keys, res, todo = {}, {}, []
        for p in paths:
            with open(p, "rb") as fh:
                keys[p] = hashlib.sha256(fh.read()).hexdigest()[:24]
            self.live.add(keys[p])
            if keys[p] in self.c["objs"]:
                res[p] = self.c["objs"][keys[p]]
            else:
                todo.append(p)
        if not todo:
            return res
        self.dirty = True

        def phase_a(p):
            info = parse_obj(p)
            flat, owner = [], []
            for bi, b in enumerate(info["blocks"]):
                for t in b["lines"]:
                    flat.append(t)
                    owner.append(bi)
            wd = tempfile.mkdtemp(prefix="a-", dir=self.work)
            try:
                bad = as_errors("\n".join(flat) + "\n", [], wd) if flat else set()
            finally:
                for f in os.listdir(wd):
                    os.remove(os.path.join(wd, f))
                os.rmdir(wd)
            return p, info, flat, owner, bad
        with cf.ThreadPoolExecutor(min(16, os.cpu_count() or 4)) as ex:
            parsed = list(ex.map(phase_a, todo))
        self.classify([normalise(flat[i - 1]) for _, _, flat, _, bad in parsed for i in bad])
        for p, info, flat, owner, bad in parsed:
            for b in info["blocks"]:
                b["feats"], b["unknown"], b["ex"], b["n"] = [], [], {}, len(b["lines"])
            for i in sorted(bad):
                b = info["blocks"][owner[i - 1]]
                fs = self.c["lines"][normalise(flat[i - 1])]
                if fs is None:
                    if len(b["unknown"]) < 3:
                        b["unknown"].append(flat[i - 1])
                else:
                    for g in fs:
                        if g not in b["feats"]:
                            b["feats"].append(g)
                            b["ex"][g] = flat[i - 1]
            # sufficiency on the raw text with exactly the union enabled
            union = [g for g in self.order if any(g in b["feats"] for b in info["blocks"])]
            if bad:
                known_bad = {i for i in bad if self.c["lines"][normalise(flat[i - 1])] is None}
                for i in sorted(as_errors("\n".join(flat) + "\n", union, self.work) - known_bad):
                    info["blocks"][owner[i - 1]]["unknown"].append("insufficient: " + flat[i - 1])
            for b in info["blocks"]:
                del b["lines"]
            self.c["objs"][keys[p]] = info
            res[p] = info
        return res


def archive_defs(objdir, orc):
    infos, gdefs, has_slot = {}, {}, set()
    names = sorted(f for f in os.listdir(objdir) if f.endswith(".o"))
    got = orc.obj_infos([os.path.join(objdir, f) for f in names])
    infos = {f: got[os.path.join(objdir, f)] for f in names}
    for f, inf in infos.items():
        for n, (sec, addr, glob) in inf["syms"].items():
            if glob and sec in inf["code_secs"]:
                gdefs.setdefault(n, f)
            if n.endswith("_dispatched"):
                has_slot.add(f)
    return infos, gdefs, has_slot


def block_at(inf, sec, addr):
    best = None
    for i, b in enumerate(inf["blocks"]):
        if b["sec"] == sec and b["addr"] <= addr and (best is None or b["addr"] >= inf["blocks"][best]["addr"]):
            best = i
    return best


def requirements(objdir, symbols, cachedir):
    """-> ({symbol: {'feats': [Coq names], 'units': n, 'objs': [...], 'skipped': [dispatched entries
    called], 'unknown': [...], 'ex': {Coq feat: 'obj:block: instruction'}}}, meta)"""
    orc = Oracle(cachedir)
    res = {}
    try:
        infos, gdefs, has_slot = archive_defs(objdir, orc)
        index = {f: {} for f in infos}      # (sec, addr) lookups are linear; memoise
        def blk(f, sec, addr):
            k = (sec, addr)
            if k not in index[f]:
                index[f][k] = block_at(infos[f], sec, addr)
            return index[f][k]
        for s in symbols:
            if s not in gdefs:
                res[s] = {"feats": ["F_UNKNOWN"], "units": 0, "objs": [], "skipped": [],
                          "unknown": ["symbol not defined in the archive"], "ex": {}}
                continue
            f0 = gdefs[s]
            sec0, a0, _ = infos[f0]["syms"][s]
            seen, work, skipped, unknown = set(), [(f0, blk(f0, sec0, a0))], set(), []
            feats, ex = set(), {}
            while work:
                f, bi = work.pop()
                if bi is None or (f, bi) in seen:
                    continue
                seen.add((f, bi))
                inf = infos[f]
                b = inf["blocks"][bi]
                for g in b["feats"]:
                    if g not in feats:
                        feats.add(g)
                        ex[COQ[g]] = "%s:<%s>: %s" % (f, b["name"], b["ex"][g])
                unknown += ["%s:<%s>: %s" % (f, b["name"], u) for u in b["unknown"]]
                if b["ind"]:
                    unknown.append("%s:<%s>: indirect branch" % (f, b["name"]))
                if b["fall"] and bi + 1 < len(inf["blocks"]) and inf["blocks"][bi + 1]["sec"] == b["sec"]:
                    work.append((f, bi + 1))
                for a in b["br"]:
                    work.append((f, blk(f, b["sec"], a)))
                for name, add in b["rel"]:
                    if name in inf["code_secs"]:
                        work.append((f, blk(f, name, add)))
                    elif name in inf["syms"]:
                        sec, a, _ = inf["syms"][name]
                        if sec in inf["code_secs"]:
                            work.append((f, blk(f, sec, a)))
                    elif name in gdefs:
                        d = gdefs[name]
                        if d in has_slot:
                            skipped.add(name)
                        else:
                            sec, a, _ = infos[d]["syms"][name]
                            work.append((d, blk(d, sec, a)))
            cf = [COQ[g] for g in orc.order if g in feats]
            if unknown:
                cf.append("F_UNKNOWN")
            res[s] = {"feats": cf, "units": len(seen), "objs": sorted({f for f, _ in seen}),
                      "skipped": sorted(skipped), "unknown": unknown[:10], "ex": ex}
        meta = {"gas": orc.c["gas"], "order": orc.order,
                "closure": {g: [f for f in c if f != g] for g, c in orc.c["closure"].items() if len(c) > 1}}
    finally:
        orc.close()
    return res, meta


def q(s):
    return '"%s"' % s.replace('"', '""')


def generate(req):
    out = ["(* GENERATED by tr/isareq.py from the built objects (ISA oracle: GNU as) — do not edit. *)",
           "From Coq Require Import List String.", "From ISAL Require Import Model.Dispatch.",
           "Import ListNotations.", "Local Open Scope string_scope.", "",
           "(* bindable symbol -> ISA extensions needed by its call closure (beyond x86-64 with SSE2) *)",
           "Definition isa_requires : list (string * list feat) :=", "  ["]
    rows = ["    (%s, [%s])" % (q(s), "; ".join(req[s]["feats"])) for s in sorted(req)]
    out.append(";\n".join(rows))
    out.append("  ].")
    out.append("")
    return "\n".join(out)


if __name__ == "__main__":
    import sys
    sys.path.insert(0, os.path.dirname(os.path.abspath(__file__)))
    import dispatch
    tr = dispatch.translate(sys.argv[1])
    syms = sorted({s for l in tr["candidates"].values() for s in l})
    req, meta = requirements(sys.argv[1], syms, sys.argv[2] if len(sys.argv) > 2 else "/tmp/isareq-cache")
    print(json.dumps(meta))
    byset = {}
    for s in syms:
        byset.setdefault((tuple(req[s]["feats"]), tuple(req[s]["unknown"][:2])), []).append(s)
    for k, v in sorted(byset.items()):
        print(" ".join(k[0]), k[1], len(v), v[:3])
