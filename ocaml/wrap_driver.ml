(* model driver for C13/C16: runs the extracted mini-C interpreter and checkers.
   Line parser / printer only.  Lines:
     run <id> <fips 0|1> <entry> key=hex ...      -> <id> ret=<sval> trace=<ev>;<ev>;... spec=<bits>
     verdict <id> <16|13|legacy> <entry>          -> <id> ok | <id> fail cex key=hex ... unsupported=<n>
     cands <id> <16|13> <entry>                   -> <id> key=hex,hex,... ...
     spec <id> <entry>                            -> <id> callee=.. args=.. store=.. inline=.. ret=.. class=.. nparams=..
     view <id> <entry> key=hex ...                -> <id> spec=<bits>   ([pre] ++ must ++ may ++ [same key], from the table only)
     info <id>                                    -> <id> covers=<0|1> entries=<n>,... classes=<entry>:<class>,...
     judge <id> <16|13> <entry> <ret> <fault> <stubret> <chg: i,i|-> <calls: f:a,a;f:a|-> key=hex ...
                                                  -> <id> accept | <id> reject   (L0 acceptor on a native observation)
   key syntax: A<i> | S | G<g> | X<f>.<n> | M(<key>,<off>,<key>,<off>,<n>) | L(<key>,<field>,<epoch>) | Q(<key>,<key>) *)
open Isal
open Conv

let rec key_str (k : skey) : string =
  match k with
  | KArg i -> Printf.sprintf "A%d" (int_of_n i)
  | KStatus -> "S"
  | KGlobal g -> Printf.sprintf "G%d" (int_of_n g)
  | KExt (f, n) -> Printf.sprintf "X%d.%d" (int_of_n f) (int_of_n n)
  | KMemcmp (a, oa, b, ob, n) ->
    Printf.sprintf "M(%s,%d,%s,%d,%d)" (key_str a) (int_of_n oa) (key_str b) (int_of_n ob) (int_of_n n)
  | KLoad (k, f, e) -> Printf.sprintf "L(%s,%d,%d)" (key_str k) (int_of_n f) (int_of_n e)
  | KEq (a, b) -> Printf.sprintf "Q(%s,%s)" (key_str a) (key_str b)

(* recursive-descent parser for keys *)
let parse_key (s : string) : skey =
  let pos = ref 0 in
  let len = String.length s in
  let peek () = if !pos < len then s.[!pos] else '\000' in
  let adv () = incr pos in
  let num () =
    let st = !pos in
    while !pos < len && s.[!pos] >= '0' && s.[!pos] <= '9' do adv () done;
    n_of_int (int_of_string (String.sub s st (!pos - st))) in
  let expect c = if peek () = c then adv () else failwith ("key syntax: " ^ s) in
  let rec key () =
    match peek () with
    | 'A' -> adv (); KArg (num ())
    | 'S' -> adv (); KStatus
    | 'G' -> adv (); KGlobal (num ())
    | 'X' -> adv (); let f = num () in expect '.'; let n = num () in KExt (f, n)
    | 'M' -> adv (); expect '('; let a = key () in expect ','; let oa = num () in expect ',';
      let b = key () in expect ','; let ob = num () in expect ','; let n = num () in expect ')';
      KMemcmp (a, oa, b, ob, n)
    | 'L' -> adv (); expect '('; let k = key () in expect ','; let f = num () in expect ',';
      let e = num () in expect ')'; KLoad (k, f, e)
    | 'Q' -> adv (); expect '('; let a = key () in expect ','; let b = key () in expect ')'; KEq (a, b)
    | _ -> failwith ("key syntax: " ^ s) in
  let k = key () in
  if !pos <> len then failwith ("key syntax (trailing): " ^ s);
  k

let cty_str = function
  | CInt (b, s) -> Printf.sprintf "%s%d" (if s then "i" else "u") (int_of_n b)
  | CPtr -> "p" | CVoid -> "v"
let unop_str = function ONeg -> "neg" | OBNot -> "not"
let binop_str = function OAdd -> "add" | OSub -> "sub" | OMul -> "mul" | OShl -> "shl" | OShr -> "shr"
                         | OAnd -> "and" | OOr -> "or" | OXor -> "xor"
let cmpop_str = function CEq -> "eq" | CNe -> "ne" | CLt -> "lt" | CLe -> "le" | CGt -> "gt" | CGe -> "ge"
let rec sval_str (v : sval) : string =
  match v with
  | SConst n -> "c" ^ hex_of_n n
  | SKey k -> "k" ^ key_str k
  | SUn (o, t, a) -> Printf.sprintf "%s.%s[%s]" (unop_str o) (cty_str t) (sval_str a)
  | SBin (o, t, a, b) -> Printf.sprintf "%s.%s[%s|%s]" (binop_str o) (cty_str t) (sval_str a) (sval_str b)
  | SCmp (o, t, a, b) -> Printf.sprintf "%s.%s[%s|%s]" (cmpop_str o) (cty_str t) (sval_str a) (sval_str b)
  | SCast (f, t, a) -> Printf.sprintf "cast.%s.%s[%s]" (cty_str f) (cty_str t) (sval_str a)

let args_str l = String.concat "," (List.map sval_str l)
let event_str = function
  | EvRead k -> "R:" ^ key_str k
  | EvWrite (k, f, v) -> Printf.sprintf "W:%s:%d:%s" (key_str k) (int_of_n f) (sval_str v)
  | EvCall (f, a) -> Printf.sprintf "C:%d:%s" (int_of_n f) (args_str a)
  | EvEnter (f, a) -> Printf.sprintf "E:%d:%s" (int_of_n f) (args_str a)
  | EvOpaque k -> Printf.sprintf "O:%d" (int_of_n k)

let parse_assign (toks : string list) : (skey * n) list =
  List.map (fun t ->
      match String.index_opt t '=' with
      | Some i -> (parse_key (String.sub t 0 i), n_of_hex (String.sub t (i + 1) (String.length t - i - 1)))
      | None -> failwith ("assignment syntax: " ^ t)) toks

let assign_str (l : (skey * n) list) : string =
  String.concat " " (List.map (fun (k, v) -> key_str k ^ "=" ^ hex_of_n v) l)

let bits l = String.concat "" (List.map (fun b -> if b then "1" else "0") l)

let () = iter_lines (fun line ->
  match split_ws line with
  | "run" :: id :: fips :: entry :: rest ->
    let l = parse_assign rest in
    let e = n_of_int (int_of_string entry) in
    (match run_entry (fips = "1") e l with
     | Some (Leaf (r, tr)) ->
       Printf.printf "%s ret=%s trace=%s spec=%s\n" id
         (match r with Some v -> sval_str v | None -> "void")
         (if tr = [] then "-" else String.concat ";" (List.map event_str tr))
         (bits (spec_view e l))
     | Some (Stuck w) -> Printf.printf "%s stuck=%d\n" id (int_of_n w)
     | Some (Node _) -> Printf.printf "%s stuck=node\n" id
     | None -> Printf.printf "%s noentry\n" id)
  | "verdict" :: id :: which :: entry :: _ ->
    let e = n_of_int (int_of_string entry) in
    (match spec_of e with
     | None -> Printf.printf "%s nospec\n" id
     | Some sp ->
       let ok, cex, uns =
         (match which with
          | "16" -> c16 sp, (fun () -> c16_cex sp), (fun () -> List.length (unsupported16 e))
          | "13" -> c13 sp, (fun () -> c13_cex sp), (fun () -> List.length (unsupported13 e))
          | _ -> c16_legacy sp, (fun () -> None), (fun () -> 0)) in
       if ok then Printf.printf "%s ok\n" id
       else Printf.printf "%s fail cex %s unsupported=%d\n" id
           (match cex () with Some l -> assign_str l | None -> "none") (uns ()))
  | "cands" :: id :: which :: entry :: _ ->
    let e = n_of_int (int_of_string entry) in
    let t = if which = "13" then cands13 e else cands16 e in
    Printf.printf "%s %s\n" id
      (String.concat " " (List.map (fun (k, vs) -> key_str k ^ "=" ^ String.concat "," (List.map (fun v -> hex_of_n v) vs)) t))
  | "judge" :: id :: which :: entry :: ret :: fault :: stubret :: chg :: calls :: rest ->
    let e = n_of_int (int_of_string entry) in
    let l = parse_assign rest in
    let chg = if chg = "-" then [] else List.map (fun x -> n_of_int (int_of_string x)) (String.split_on_char ',' chg) in
    let calls = if calls = "-" then [] else
        List.map (fun c ->
            match String.split_on_char ':' c with
            | [f; a] -> (n_of_int (int_of_string f),
                         if a = "" then [] else List.map n_of_hex (String.split_on_char ',' a))
            | [f] -> (n_of_int (int_of_string f), [])
            | _ -> failwith "call syntax") (String.split_on_char ';' calls) in
    let o = { o_ret = n_of_hex ret; o_calls = calls; o_chg = chg; o_fault = (fault = "1"); o_stubret = n_of_hex stubret } in
    let ok = if which = "13" then judge_13 e l o else judge_16 e l o in
    Printf.printf "%s %s\n" id (if ok then "accept" else "reject")
  | "samekeys" :: id :: entry :: _ ->
    (* the memcmp observations the specification's same-key formula is written in *)
    let e = n_of_int (int_of_string entry) in
    let rec skeys v acc = match v with
      | SKey k -> k :: acc | SConst _ -> acc
      | SUn (_, _, a) | SCast (_, _, a) -> skeys a acc
      | SBin (_, _, a, b) | SCmp (_, _, a, b) -> skeys a (skeys b acc) in
    let rec fkeys f acc = match f with
      | FAtom a -> skeys a acc | FNot g -> fkeys g acc
      | FAnd (g, h) | FOr (g, h) -> fkeys g (fkeys h acc) | _ -> acc in
    (match spec_of e with
     | None -> Printf.printf "%s nospec\n" id
     | Some sp -> Printf.printf "%s %s\n" id (String.concat " " (List.map key_str (fkeys sp.e_samekey []))))
  | "spec" :: id :: entry :: _ ->
    (* the hand-written specification row, printed: nothing derived from the translated bodies *)
    let e = n_of_int (int_of_string entry) in
    (match spec_of e with
     | None -> Printf.printf "%s nospec\n" id
     | Some sp ->
       let sh = sp.e_shape in
       Printf.printf "%s callee=%d args=%s store=%s inline=%d ret=%s class=%d nparams=%d\n" id (int_of_n sh.sh_callee)
         (if sh.sh_args = [] then "-" else args_str sh.sh_args)
         (match sh.sh_store with Some j -> string_of_int (int_of_n j) | None -> "-")
         (if sh.sh_inline then 1 else 0)
         (match sh.sh_ret with RZero -> "zero" | RCallee -> "callee" | RMapped _ -> "mapped")
         (int_of_n (class_n sp)) (List.length sp.e_params))
  | "view" :: id :: entry :: rest ->
    let e = n_of_int (int_of_string entry) in
    Printf.printf "%s spec=%s\n" id (bits (spec_view e (parse_assign rest)))
  | "info" :: id :: _ ->
    Printf.printf "%s covers=%d entries=%s classes=%s\n" id (if spec_covers then 1 else 0)
      (String.concat "," (List.map (fun e -> string_of_int (int_of_n e)) entries))
      (String.concat "," (List.map (fun sp -> Printf.sprintf "%d:%d" (int_of_n sp.e_id) (int_of_n (class_n sp))) specs))
  | [] -> ()
  | _ -> print_endline "?")
