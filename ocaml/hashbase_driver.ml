(* Model driver for the BASE family of the multi-buffer hash API (Model.HashBase, the five
   *_ctx_base.c files).

   Input, one case per line (the format checks/hashcommon.py feeds ocaml/hash_driver.ml):
     T <id> <algo> <K> <what> <nctx> <the native driver's output line for this case>
   The history is read off the native line (every executed call is printed there in concrete
   form); the extracted BASE model (base_step) is run over it and its observation and its
   white-box record of every context whose fields changed are printed in the native driver's
   syntax, for a token-by-token diff:
     <id> L0=na cls=- nf=- | S <c> > r=.. rc=.. st=.. er=.. tl=.. dg=.. w=<ctx>=<status:error:total:plen:-:digest:partial bytes>;...
   Glue only: parsing, printing, the splitmix64 data stream shared with the native driver. *)
open Isal
open Conv

let byte_n = Array.init 256 n_of_int

let stream_bytes (seed : int64) (n : int) : n list =
  let s = ref seed in
  let next () =
    s := Int64.add !s 0x9E3779B97F4A7C15L;
    let z = !s in
    let z = Int64.mul (Int64.logxor z (Int64.shift_right_logical z 30)) 0xBF58476D1CE4E5B9L in
    let z = Int64.mul (Int64.logxor z (Int64.shift_right_logical z 27)) 0x94D049BB133111EBL in
    Int64.logxor z (Int64.shift_right_logical z 31) in
  let buf = Bytes.create (((n + 7) / 8) * 8) in
  for i = 0 to (n + 7) / 8 - 1 do Bytes.set_int64_le buf (8 * i) (next ()) done;
  List.init n (fun i -> byte_n.(Char.code (Bytes.get buf i)))

let int64_of_hex s = Int64.of_string ("0x" ^ s)

let alg_of = function
  | "sha1" -> sha1_base | "sha256" -> sha256_base | "sha512" -> sha512_base
  | "md5" -> md5_base | "sm3" -> sm3_base | s -> failwith ("algo " ^ s)

let str_of_words l = if l = [] then "-" else String.concat "." (List.map (fun w -> hex_of_n w) l)

let kv toks key =
  let p = key ^ "=" in
  let lp = String.length p in
  let rec go = function
    | [] -> None
    | t :: r -> if String.length t >= lp && String.sub t 0 lp = p then Some (String.sub t lp (String.length t - lp)) else go r in
  go toks

let split_on_bar (s : string) : string list =
  let parts = ref [] and cur = Buffer.create 256 in
  let n = String.length s in
  let i = ref 0 in
  while !i < n do
    if !i + 2 < n && s.[!i] = ' ' && s.[!i + 1] = '|' && s.[!i + 2] = ' ' then begin
      parts := Buffer.contents cur :: !parts; Buffer.clear cur; i := !i + 3 end
    else begin Buffer.add_char cur s.[!i]; incr i end
  done;
  parts := Buffer.contents cur :: !parts;
  List.rev !parts

(* white-box record of a base-model context in the native driver's syntax; the incoming-length
   slot is "-" (the native driver prints it only while PROCESSING is set; the base code never
   writes that field) *)
let wb_record (ba : base_alg) (c : bctx) : string =
  let st = int_of_n c.b_status in
  let plen = int_of_n c.b_plen in
  let b = int_of_nat (bA ba).a_bsize in
  Printf.sprintf "%x:%d:%s:%d:%s:%s:%s" st (int_of_n c.b_error) (hex_of_n c.b_total) plen
    (if st land 1 <> 0 then "?" else "-")
    (str_of_words c.b_digest)
    (if plen = 0 || plen > 2 * b then "-" else hex_of_bytes (firstn (nat_of_int plen) c.b_pbuf))

let () = iter_lines (fun line ->
  match split_ws line with
  | "T" :: id :: algo :: _k :: _what :: nctx :: _ ->
    let ba = alg_of algo in
    let a = bA ba in
    let nctx = int_of_string nctx in
    let native =
      let cnt = ref 0 and pos = ref 0 in
      let n = String.length line in
      while !cnt < 6 && !pos < n do
        while !pos < n && line.[!pos] = ' ' do incr pos done;
        while !pos < n && line.[!pos] <> ' ' do incr pos done;
        incr cnt
      done;
      String.sub line !pos (n - !pos) in
    let segs = split_on_bar (String.trim native) in
    let out = Buffer.create 4096 in
    (* junk contexts exactly as harness ctx_fresh leaves them *)
    let b = int_of_nat a.a_bsize in
    let wordhex = if b = 128 then "eeeeeeeeeeeeeeee" else "eeeeeeee" in
    let junk = { b_digest = List.map (fun _ -> n_of_hex wordhex) a.a_iv; b_status = n_of_int 4; b_error = N0;
                 b_total = n_of_hex "eeeeeeeeeeeeeeee"; b_pbuf = List.init (2 * b) (fun _ -> byte_n.(0xEE));
                 b_plen = n_of_int 77 } in
    let st = ref (base_model_init (List.init nctx (fun _ -> junk))) in
    let last = Array.make nctx "" in
    Array.iteri (fun i _ -> last.(i) <- wb_record ba (bgetc ba !st (nat_of_int i))) last;
    let print_wb () =
      Buffer.add_string out " w=";
      let first = ref true in
      for i = 0 to nctx - 1 do
        let r = wb_record ba (bgetc ba !st (nat_of_int i)) in
        if r <> last.(i) then begin
          Buffer.add_string out (Printf.sprintf "%s%d=%s" (if !first then "" else ";") i r);
          first := false; last.(i) <- r end
      done;
      if !first then Buffer.add_string out "-" in
    let print_obs (ret : nat option) (rc : n) (have_rc : bool) =
      let o = base_obs_of ba !st ret rc in
      match o.o_ret with
      | None -> Buffer.add_string out (Printf.sprintf " r=- rc=%s" (if have_rc then string_of_int (int_of_n rc) else "n"))
      | Some r ->
        Buffer.add_string out (Printf.sprintf " r=%d rc=%s st=%x er=%d tl=%s dg=%s" (int_of_nat r)
          (if have_rc then string_of_int (int_of_n rc) else "n") (int_of_n o.o_status) (int_of_n o.o_error)
          (hex_of_n o.o_total) (str_of_words o.o_digest)) in
    let stop = ref false in
    List.iteri (fun si seg ->
      if si > 0 && not !stop then begin
        let toks = split_ws seg in
        match toks with
        | "end" :: _ -> ()
        | ("TIMEOUT" | "FAULT" | "nodrain" | "stranded" | "badop") :: _ -> stop := true
        | "S" :: c :: flags :: len :: _place :: seed :: ">" :: obs ->
          let cid = int_of_string c and flags = n_of_hex flags and len = int_of_string len in
          if List.mem "TIMEOUT" obs || List.mem "FAULT" obs then stop := true
          else begin
            let buf = stream_bytes (int64_of_hex seed) len in
            let have_rc = (match kv obs "rc" with Some "n" | None -> false | _ -> true) in
            let ((s', ret), rc) = base_step ba !st (Submit (nat_of_int cid, buf, flags)) in
            st := s';
            Buffer.add_string out (Printf.sprintf " | S %d >" cid);
            print_obs ret rc have_rc; print_wb ()
          end
        | "F" :: ">" :: obs ->
          if List.mem "TIMEOUT" obs || List.mem "FAULT" obs then stop := true
          else begin
            let have_rc = (match kv obs "rc" with Some "n" | None -> false | _ -> true) in
            let ((s', ret), rc) = base_step ba !st Flush in
            st := s';
            Buffer.add_string out " | F >";
            print_obs ret rc have_rc; print_wb ()
          end
        | "I" :: c :: ">" :: _ ->
          let cid = int_of_string c in
          st := upd (nat_of_int cid) (base_ctx_init junk) !st;
          Buffer.add_string out (Printf.sprintf " | I %d >" cid); print_wb ()
        | "J" :: c :: total :: plen :: seed :: ">" :: res ->
          let cid = int_of_string c in
          if List.mem "done" res then begin
            let plen = int_of_string plen and total = n_of_hex total in
            let nw = List.length a.a_iv in
            let wb = if b = 128 then 8 else 4 in
            let raw = stream_bytes (int64_of_hex seed) (nw * wb + plen) in
            let chain = List.map le_to_N (chunks (nat_of_int wb) (firstn (nat_of_int (nw * wb)) raw)) in
            let part = skipn (nat_of_int (nw * wb)) raw in
            st := upd (nat_of_int cid) (base_inject (bgetc ba !st (nat_of_int cid)) chain total part) !st;
            Buffer.add_string out (Printf.sprintf " | J %d >" cid); print_wb ()
          end else Buffer.add_string out (Printf.sprintf " | J %d > skip" cid)
        | _ -> stop := true     (* B / V: long real streams are not the base tie's business *)
      end) segs;
    print_endline (Printf.sprintf "%s L0=na cls=- nf=-%s" id (Buffer.contents out))
  | [] -> ()
  | _ -> print_endline "?")
