(* model driver for C05 / C10: same case lines as harness/mh_drv.c, same output lines.
   U <id> <family> <alg> <seed-hex> <stream-hex> <ctx-placement> <nseg> <len[:placement]>...
   alg = sha1 | sha256 | mur.  One update call per segment, then finalize.
   Output: <id> { u <total_length> <partial[0..total%1024)> <interim words> [<h1> <h2>] }*
                f <digest words> [<h1> <h2>]  g <interim words after the tail blocks>  s <L0 spec digest> [<spec h1> <spec h2>] *)
open Isal
open Conv

let words_hex (l : n list) : string =
  if l = [] then "-" else String.concat "" (List.map (fun w -> hex_of_n ~digits:8 w) l)

let rec take_drop (k : int) (l : n list) (acc : n list) : n list * n list =
  if k <= 0 then (List.rev acc, l)
  else match l with [] -> (List.rev acc, []) | x :: r -> take_drop (k - 1) r (x :: acc)

let seg_len (s : string) : int =
  match String.index_opt s ':' with
  | Some i -> int_of_string (String.sub s 0 i)
  | None -> int_of_string s

let prefix (total : n) (partial : n list) : string =
  let p = (int_of_n total) land 1023 in
  hex_of_bytes (fst (take_drop p partial []))

let words_of_hex (s : string) : n list =
  if s = "-" then [] else List.init (String.length s / 8) (fun i -> n_of_hex (String.sub s (8 * i) 8))

let rec zeros_n k = if k <= 0 then [] else N0 :: zeros_n (k - 1)

(* J lines (state injection, see harness/mh_drv.c): the run starts from the given context
   instead of init; there is no whole stream, so the "s" fields repeat the model's finalize *)
type inject = { j_total : n; j_partial : n list; j_interim : n list; j_h : n * n }

let () = iter_lines (fun line ->
  let toks = split_ws line in
  let (toks, inj) = match toks with
    | "J" :: id :: fam :: alg :: seed :: total :: partial :: interim :: h1 :: h2 :: rest ->
      let p = bytes_of_hex partial in
      ("U" :: id :: fam :: alg :: seed :: rest,
       Some { j_total = n_of_hex total; j_partial = p @ zeros_n (1024 - List.length p);
              j_interim = words_of_hex interim; j_h = (n_of_hex h1, n_of_hex h2) })
    | _ -> (toks, None) in
  match toks with
  | "U" :: id :: _fam :: alg :: seed :: stream :: _ctxp :: _nseg :: segs ->
    let stream = bytes_of_hex stream in
    let b = Buffer.create 4096 in
    Buffer.add_string b id;
    let lens = List.map seg_len segs in
    (* more than 64 updates: the context is printed after every 16th and the last (as mh_drv.c) *)
    let nseg = List.length lens in
    let k = ref (-1) in
    let dump () = incr k; nseg <= 64 || !k mod 16 = 15 || !k = nseg - 1 in
    let pieces =
      let rest = ref stream in
      List.map (fun k -> let (a, r) = take_drop k !rest [] in rest := r; a) lens in
    (match alg with
     | "sha1" | "sha256" ->
       let (init, upd, fin, tail, spec) =
         if alg = "sha1" then (mh1_init, mh1_update, mh1_finalize, mh1_tail, mh_sha1)
         else (mh256_init, mh256_update, mh256_finalize, mh256_tail, mh_sha256) in
       let c = ref (match inj with
         | None -> init
         | Some j -> { mc_total = j.j_total; mc_partial = j.j_partial; mc_state = j.j_interim }) in
       List.iter (fun seg ->
         c := upd !c seg;
         if dump () then Buffer.add_string b (Printf.sprintf " u %s %s %s" (hex_of_n !c.mc_total)
           (prefix !c.mc_total !c.mc_partial) (words_hex !c.mc_state))) pieces;
       Buffer.add_string b (" f " ^ words_hex (fin !c));
       Buffer.add_string b (" g " ^ words_hex (tail !c));
       Buffer.add_string b (" s " ^ words_hex (match inj with None -> spec stream | Some _ -> fin !c))
     | "mur" ->
       let seed = n_of_hex seed in
       let c = ref (match inj with
         | None -> mhm_init seed
         | Some j -> { mc_total = j.j_total; mc_partial = j.j_partial; mc_state = (j.j_interim, j.j_h) }) in
       List.iter (fun seg ->
         c := mhm_update !c seg;
         let (dg, (h1, h2)) = !c.mc_state in
         if dump () then Buffer.add_string b (Printf.sprintf " u %s %s %s %s %s" (hex_of_n !c.mc_total)
           (prefix !c.mc_total !c.mc_partial) (words_hex dg)
           (hex_of_n ~digits:16 h1) (hex_of_n ~digits:16 h2))) pieces;
       let (dg, (h1, h2)) = mhm_finalize !c in
       Buffer.add_string b (Printf.sprintf " f %s %s %s" (words_hex dg)
         (hex_of_n ~digits:16 h1) (hex_of_n ~digits:16 h2));
       Buffer.add_string b (" g " ^ words_hex (mhm_tail !c));
       (match inj with
        | None ->
          let (s1, s2) = murmur3_x64_128 seed stream in
          Buffer.add_string b (Printf.sprintf " s %s %s %s" (words_hex (mh_sha1 stream))
            (hex_of_n ~digits:16 s1) (hex_of_n ~digits:16 s2))
        | Some _ ->
          Buffer.add_string b (Printf.sprintf " s %s %s %s" (words_hex dg)
            (hex_of_n ~digits:16 h1) (hex_of_n ~digits:16 h2)))
     | _ -> Buffer.add_string b " badalg");
    print_endline (Buffer.contents b)
  | [] -> ()
  | _ -> print_endline "?")
