(* model driver for C09: same case lines as harness/roll_drv.c, same output lines *)
open Isal
open Conv

(* "pinned" as first argument: evaluate with the pinned release table instead of the
   table regenerated from the current source *)
let pinned = Array.length Sys.argv > 1 && Sys.argv.(1) = "pinned"
let c_rh_reset = if pinned then rh_reset (tbl pinned_table) else c_rh_reset
let c_rh_run = if pinned then rh_run (tbl pinned_table) else c_rh_run

let () = iter_lines (fun line ->
  match split_ws line with
  | "R" :: id :: _fam :: w :: mask :: trig :: init :: _nseg :: segs ->
    let w = int_of_string w in
    let mask = n_of_hex mask and trig = n_of_hex trig in
    let b = Buffer.create 256 in
    Buffer.add_string b id;
    (match c_rh_init N0 [] (nat_of_int w) with
     | None -> Buffer.add_string b " initfail"
     | Some s0 ->
       let s = ref (c_rh_reset s0 (bytes_of_hex init)) in
       List.iter (fun seg ->
         let seg = ref (bytes_of_hex seg) in
         let fuel = ref (List.length !seg + 2) in
         let continue = ref true in
         while !continue && !fuel > 0 do
           decr fuel;
           let ((s', off), v) = c_rh_run !s !seg mask trig in
           s := s';
           let off_i = int_of_nat off in
           Buffer.add_string b (Printf.sprintf " r %d %d %s %s" off_i (match v with HIT -> 0 | MAX -> 1)
             (hex_of_n ~digits:16 s'.rhash) (hex_of_bytes s'.rhist));
           (match v with
            | HIT -> seg := skipn off !seg
            | MAX -> continue := false)
         done) segs);
    print_endline (Buffer.contents b)
  | [] -> ()
  | _ -> print_endline "?")
