(* (C12 variant of conv.ml: identical functions, written without naming OCaml's `string` type,
   which the extraction of Coq's string shadows.)
   Hand-written glue between text lines and the extracted inductive numbers.
   Line parser / printer only; nothing here decides anything. *)
open Isal

let rec pos_of_int (i : int) : positive =
  if i = 1 then XH else if i land 1 = 0 then XO (pos_of_int (i lsr 1)) else XI (pos_of_int (i lsr 1))
let n_of_int (i : int) : n = if i = 0 then N0 else Npos (pos_of_int i)
let rec int_of_pos = function XH -> 1 | XO p -> 2 * int_of_pos p | XI p -> 2 * int_of_pos p + 1
let int_of_n = function N0 -> 0 | Npos p -> int_of_pos p
let rec nat_of_int i = if i <= 0 then O else S (nat_of_int (i - 1))
let int_of_nat n = let rec go acc = function O -> acc | S m -> go (acc + 1) m in go 0 n

let hexv c = match c with
  | '0'..'9' -> Char.code c - 48 | 'a'..'f' -> Char.code c - 87 | 'A'..'F' -> Char.code c - 55
  | _ -> failwith "hex"

(* arbitrary-size hex number (most significant digit first) -> N *)
let n_of_hex (s : Stdlib.String.t) : n =
  let s = if String.length s > 2 && s.[0] = '0' && (s.[1] = 'x' || s.[1] = 'X') then String.sub s 2 (String.length s - 2) else s in
  (* build positive from bits, msb first *)
  let acc = ref N0 in
  String.iter (fun c ->
    let v = hexv c in
    for b = 3 downto 0 do
      let bit = (v lsr b) land 1 in
      acc := (match !acc, bit with
              | N0, 0 -> N0 | N0, _ -> Npos XH
              | Npos p, 0 -> Npos (XO p) | Npos p, _ -> Npos (XI p))
    done) s;
  !acc

(* N -> hex string, zero-padded to `digits` (0 = minimal) *)
let hex_of_n ?(digits = 0) (x : n) : Stdlib.String.t =
  let bits = (match x with N0 -> [] | Npos p ->
    let rec go acc = function XH -> 1 :: acc | XO q -> go (0 :: acc) q | XI q -> go (1 :: acc) q in
    (* go builds msb-first when we cons lsb first then reverse *)
    let rec lsb = function XH -> [1] | XO q -> 0 :: lsb q | XI q -> 1 :: lsb q in
    ignore go; List.rev (lsb p)) in
  (* bits is msb first *)
  let nb = List.length bits in
  let pad = (4 - nb mod 4) mod 4 in
  let bits = List.init pad (fun _ -> 0) @ bits in
  let buf = Buffer.create 32 in
  let rec emit = function
    | a :: b :: c :: d :: r -> Buffer.add_char buf "0123456789abcdef".[a * 8 + b * 4 + c * 2 + d]; emit r
    | [] -> () | _ -> assert false in
  emit bits;
  let s = Buffer.contents buf in
  let s = if s = "" then "0" else s in
  let l = String.length s in
  if l < digits then String.make (digits - l) '0' ^ s else s

(* "-" or hex byte string -> list of byte values as N *)
let bytes_of_hex (s : Stdlib.String.t) : n list =
  if s = "-" then [] else begin
    let l = String.length s / 2 in
    List.init l (fun i -> n_of_int (hexv s.[2 * i] * 16 + hexv s.[2 * i + 1]))
  end
let hex_of_bytes (l : n list) : Stdlib.String.t =
  if l = [] then "-" else begin
    let b = Buffer.create (2 * List.length l) in
    List.iter (fun x -> Buffer.add_string b (Printf.sprintf "%02x" (int_of_n x land 255))) l;
    Buffer.contents b
  end

let split_ws (s : Stdlib.String.t) : Stdlib.String.t list =
  List.filter (fun x -> x <> "") (String.split_on_char ' ' (String.trim s))

let iter_lines (f : Stdlib.String.t -> unit) =
  try while true do f (input_line stdin) done with End_of_file -> ()
