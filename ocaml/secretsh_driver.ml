(* C14 secrets-oracle cross-check, GCM part: the hash subkey H = E(K, 0^128) as the EXTRACTED
   Coq spec computes it (Spec/GCM.gcm_hash_key_rk over Spec/AES.key_expansion, through
   coq/Extract/Gcm.v).
   H <id> <key hex> -> <id> <H hex> *)
open Isal
open Conv

let () = iter_lines (fun line ->
  match split_ws line with
  | "H" :: id :: key :: _ ->
    print_string (id ^ " " ^ hex_of_bytes (gcm_hash_key_rk (key_expansion (bytes_of_hex key))) ^ "\n")
  | _ -> ())
