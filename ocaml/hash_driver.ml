(* Model driver for the multi-buffer hash stack (C01 C06 C11 C15).

   Input, one case per line:
     T <id> <algo> <K> <what> <nctx> <the native driver's output line for this case>
   <what> is a string of letters: 0 = run the L0 trace acceptor (Spec.HashApiSpec.spec_check)
   over the REAL observed trace, call by call; 1 = run the L1 model (Model.HashCtx.step) with
   the scheduling oracle replayed from the observed manager-level trace and print the model's
   observations in the native driver's syntax.
   Output, one line per case:
     <id> L0=<ok|fail@k|na> cls=<a|r1|r2|r3|i|-,...> [| <model observation of call k> ...]
   Glue only: parsing, printing, feeding extracted functions.  The only arithmetic done here is
   the splitmix64 data stream (shared with the native driver and vlib) and, for contexts injected
   mid-stream (C15), subtracting the common prefix length from an observed total. *)
open Isal
open Conv

let byte_n = Array.init 256 n_of_int

(* splitmix64 byte stream, identical to harness/hash_drv.c fill_stream *)
let stream_bytes (seed : int64) (n : int) : n list =
  let s = ref seed in
  let next () =
    s := Int64.add !s 0x9E3779B97F4A7C15L;
    let z = !s in
    let z = Int64.mul (Int64.logxor z (Int64.shift_right_logical z 30)) 0xBF58476D1CE4E5B9L in
    let z = Int64.mul (Int64.logxor z (Int64.shift_right_logical z 27)) 0x94D049BB133111EBL in
    Int64.logxor z (Int64.shift_right_logical z 31) in
  let buf = Bytes.create (((n + 7) / 8) * 8) in
  for i = 0 to (n + 7) / 8 - 1 do Bytes.set_int64_le buf (8 * i) (next ()) done;
  List.init n (fun i -> byte_n.(Char.code (Bytes.get buf i)))

let int64_of_hex s = Int64.of_string ("0x" ^ s)

let algo_of = function
  | "sha1" -> sha1_algo | "sha256" -> sha256_algo | "sha512" -> sha512_algo
  | "md5" -> md5_algo | "sm3" -> sm3_algo | s -> failwith ("algo " ^ s)

let words_of_str s = if s = "-" || s = "" then [] else List.map n_of_hex (String.split_on_char '.' s)
let str_of_words l = if l = [] then "-" else String.concat "." (List.map (fun w -> hex_of_n w) l)

(* key=value tokens of an observation *)
let kv toks key =
  let p = key ^ "=" in
  let lp = String.length p in
  let rec go = function
    | [] -> None
    | t :: r -> if String.length t >= lp && String.sub t 0 lp = p then Some (String.sub t lp (String.length t - lp)) else go r in
  go toks

let split_on_bar (s : string) : string list =
  (* segments separated by " | " *)
  let parts = ref [] and cur = Buffer.create 256 in
  let n = String.length s in
  let i = ref 0 in
  while !i < n do
    if !i + 2 < n && s.[!i] = ' ' && s.[!i + 1] = '|' && s.[!i + 2] = ' ' then begin
      parts := Buffer.contents cur :: !parts; Buffer.clear cur; i := !i + 3 end
    else begin Buffer.add_char cur s.[!i]; incr i end
  done;
  parts := Buffer.contents cur :: !parts;
  List.rev !parts

let rec list_index x = function [] -> None | y :: r -> if x = y then Some 0 else (match list_index x r with Some k -> Some (k + 1) | None -> None)

(* white-box record of a model context, in the native driver's syntax:
   status:error:total:plen:inclen:digest:partial-bytes *)
let wb_record (a : algo) (c : ctx) : string =
  let st = int_of_n c.c_status in
  let plen = int_of_nat c.c_plen in
  let b = int_of_nat a.a_bsize in
  Printf.sprintf "%x:%d:%s:%d:%s:%s:%s" st (int_of_n c.c_error) (hex_of_n c.c_total) plen
    (if st land 1 <> 0 then string_of_int (List.length c.c_inc) else "-")
    (str_of_words c.c_digest)
    (if plen = 0 || plen > 2 * b then "-" else hex_of_bytes (firstn c.c_plen c.c_pbuf))


(* ---- diagnosis of a rejected observation (for the report only: the verdict is spec_check's).
   Returns a reason and, for the reasons that do not disturb the abstract state (a wrong
   return code, a non-zero error on the caller's own accepted context), the observation with
   that one field replaced by what the specification demands, so that the acceptor can go on
   over the rest of the trace. *)
let big_k = nat_of_int 100000
let idx_ref = ref 0
let diagnose (sa : algo) (abs : actx list) (c : call) (o : obs) : string * obs option =
  let hand_back a1 r =
    let ac = nth r a1 dummy in
    match ac.s_phase with
    | AFlight last ->
      let exp_st = if last then 4 else 0 in
      if int_of_n o.o_status <> exp_st then (Printf.sprintf "status:%x!=%x" (int_of_n o.o_status) exp_st, None)
      else if o.o_total <> w64 (N.of_nat (length ac.s_stream)) then
        (Printf.sprintf "total:%s!=%s" (hex_of_n o.o_total) (hex_of_n (w64 (N.of_nat (length ac.s_stream)))), None)
      else if last && o.o_digest <> md_hash sa ac.s_stream then
        ("digest:exp=" ^ String.concat "." (List.map (fun w -> hex_of_n w) (md_hash sa ac.s_stream)), None)
      else ("overfull", None)
    | _ -> ("notheld", None) in
  match c with
  | CSubmit (cid, _, flags) ->
    let ac = nth cid abs dummy in
    (match rejection ac flags with
     | Some e ->
       if o.o_ret <> Some cid then ("rej_ret", None)
       else if o.o_error <> e then (Printf.sprintf "rej_err:%d!=%d" (int_of_n o.o_error) (int_of_n e), None)
       else if o.o_rc <> rc_of e then (Printf.sprintf "rej_rc:%d!=%d" (int_of_n o.o_rc) (int_of_n (rc_of e)), Some { o with o_rc = rc_of e })
       else ("rej_status", None)
     | None ->
       if o.o_rc <> N0 then (Printf.sprintf "rc:%d" (int_of_n o.o_rc), Some { o with o_rc = N0 })
       else (match o.o_ret with
           | None -> ("overfull", None)
           | Some r ->
             if r = cid && o.o_error <> N0 then (Printf.sprintf "own_err:%d" (int_of_n o.o_error), Some { o with o_error = N0 })
             else (match spec_check sa big_k abs c { o with o_ret = None; o_rc = N0 } with
                 | Some a1 -> hand_back a1 r
                 | None -> ("internal", None))))
  | CFlush ->
    if o.o_rc <> N0 then (Printf.sprintf "rc:%d" (int_of_n o.o_rc), Some { o with o_rc = N0 })
    else (match o.o_ret with
        | None -> ("nullheld", None)
        | Some r -> hand_back abs r)

let () = iter_lines (fun line ->
  match split_ws line with
  | "T" :: id :: algo :: k :: what :: nctx :: _ ->
    let a = algo_of algo in
    let kk = nat_of_int (int_of_string k) in
    let nctx = int_of_string nctx in
    let do0 = String.contains what '0' and do1 = String.contains what '1' in
    (* the native line starts after the 6th token *)
    let native =
      let cnt = ref 0 and pos = ref 0 in
      let n = String.length line in
      (* skip 6 whitespace-separated tokens *)
      while !cnt < 6 && !pos < n do
        while !pos < n && line.[!pos] = ' ' do incr pos done;
        while !pos < n && line.[!pos] <> ' ' do incr pos done;
        incr cnt
      done;
      String.sub line !pos (n - !pos) in
    let segs = split_on_bar (String.trim native) in
    let out = Buffer.create 4096 in
    (* junk contexts exactly as harness ctx_fresh leaves them *)
    let b = int_of_nat a.a_bsize in
    let wordhex = if b = 128 then "eeeeeeeeeeeeeeee" else "eeeeeeee" in
    let junk = { c_digest = List.map (fun _ -> n_of_hex wordhex) a.a_iv; c_status = n_of_int 4; c_error = N0;
                 c_total = n_of_hex "eeeeeeeeeeeeeeee"; c_inc = []; c_pbuf = List.init (2 * b) (fun _ -> byte_n.(0xEE));
                 c_plen = nat_of_int 77 } in
    let st = ref (model_init a (List.init nctx (fun _ -> junk))) in
    let abs = ref (spec_init (nat_of_int nctx)) in
    (* C15: contexts injected mid-stream share one chain and one hashed-prefix length *)
    let spec_algo = ref a and pre = ref N0 and injected = ref false in
    let l0 = ref (if do0 then "ok" else "na") in
    let l0_fails = ref [] in
    let nf = Buffer.create 256 in
    let add_nf () = if Buffer.length nf > 0 then Buffer.add_char nf ','; Buffer.add_string nf (string_of_int (int_of_nat (n_flight !abs))) in
    (* run the acceptor on one call; on a refusal diagnose, and continue when the refused field
       does not touch the abstract state *)
    let accept_call (c : call) (o : obs) =
      let rec go o depth =
        match spec_check !spec_algo kk !abs c o with
        | Some a' -> abs := a'
        | None ->
          let (why, patched) = diagnose !spec_algo !abs c o in
          l0_fails := Printf.sprintf "fail@%d:%s" !idx_ref why :: !l0_fails;
          (match patched with
           | Some o' when depth < 3 -> go o' (depth + 1)
           | _ -> l0 := "stop") in
      go o 0 in
    let cls = Buffer.create 256 in
    let last = Array.make nctx "" in
    Array.iteri (fun i _ -> last.(i) <- wb_record a (getc a !st (nat_of_int i))) last;
    let script = ref [] in
    let sched _tick held =
      let rec pop () = match !script with
        | [] -> None
        | ('f', None) :: r -> script := r; pop ()
        | (_, None) :: r -> script := r; None
        | (_, Some cid) :: r -> script := r;
          (match list_index cid (List.map int_of_nat held) with Some i -> Some (nat_of_int i) | None -> None) in
      pop () in
    let parse_mlog s =
      if s = "-" then [] else
        List.filter_map (fun e ->
          if e = "over" || e = "" then None else
          let kind = e.[0] and rest = String.sub e 1 (String.length e - 1) in
          if rest = "-" || rest = "?" then Some (kind, None) else Some (kind, Some (int_of_string rest)))
          (String.split_on_char ',' s) in
    let print_model_obs (outc : outcome) (rc : n) (have_rc : bool) =
      (match outc with
       | OutOfFuel -> Buffer.add_string out " r=FUEL"
       | Ret None -> Buffer.add_string out (Printf.sprintf " r=- rc=%s" (if have_rc then string_of_int (int_of_n rc) else "n"))
       | Ret (Some r) ->
         let c = getc a !st r in
         Buffer.add_string out (Printf.sprintf " r=%d rc=%s st=%x er=%d tl=%s dg=%s" (int_of_nat r)
           (if have_rc then string_of_int (int_of_n rc) else "n") (int_of_n c.c_status) (int_of_n c.c_error)
           (hex_of_n c.c_total) (str_of_words c.c_digest))) in
    let print_wb () =
      Buffer.add_string out " w=";
      let first = ref true in
      for i = 0 to nctx - 1 do
        let r = wb_record a (getc a !st (nat_of_int i)) in
        if r <> last.(i) then begin
          Buffer.add_string out (Printf.sprintf "%s%d=%s" (if !first then "" else ";") i r);
          first := false; last.(i) <- r end
      done;
      if !first then Buffer.add_string out "-" in
    let add_cls s = if Buffer.length cls > 0 then Buffer.add_char cls ','; Buffer.add_string cls s in
    let obs_of_tokens toks (want_rc : n) : obs =
      let ret = match kv toks "r" with Some "-" | None -> None | Some "?" -> Some (nat_of_int (nctx + 1000)) | Some x -> Some (nat_of_int (int_of_string x)) in
      let geth key = match kv toks key with Some x -> n_of_hex x | None -> N0 in
      let er = match kv toks "er" with Some x -> n_of_int (int_of_string x) | None -> N0 in
      let total = geth "tl" in
      let total = if !injected then w64 (N.sub (N.add total (n_of_hex "10000000000000000")) (w64 !pre)) else total in
      let rc = match kv toks "rc" with
        | Some "n" | None -> want_rc   (* family entry points have no return code: the one the specification demands *)
        | Some x -> n_of_int (int_of_string x) in
      { o_ret = ret; o_status = geth "st"; o_error = er; o_total = total;
        o_digest = (match kv toks "dg" with Some x -> words_of_str x | None -> []); o_rc = rc } in
    let idx = idx_ref in
    idx := 0;
    let stop = ref false in
    List.iteri (fun si seg ->
      if si > 0 && not !stop then begin
        let toks = split_ws seg in
        match toks with
        | "end" :: _ -> ()
        | ("TIMEOUT" | "FAULT" | "nodrain" | "stranded" | "badop") :: _ -> stop := true
        | "S" :: c :: flags :: len :: _place :: seed :: ">" :: obs ->
          let cid = int_of_string c and flags = n_of_hex flags and len = int_of_string len in
          let buf = stream_bytes (int64_of_hex seed) len in
          if List.mem "TIMEOUT" obs || List.mem "FAULT" obs then stop := true
          else begin
            (if do0 && !l0 = "ok" then begin
               let ac = nth (nat_of_int cid) !abs dummy in
               let want_rc = (match rejection ac flags with
                | Some e -> add_cls ("r" ^ string_of_int (int_of_n e)); rc_of e
                | None -> add_cls "a"; N0) in
               accept_call (CSubmit (nat_of_int cid, buf, flags)) (obs_of_tokens obs want_rc); add_nf ()
             end else add_cls "-");
            if do1 then begin
              script := parse_mlog (match kv obs "m" with Some x -> x | None -> "-");
              let have_rc = (match kv obs "rc" with Some "n" | None -> false | _ -> true) in
              let ((s', outc), rc) = step a kk sched !st (Submit (nat_of_int cid, buf, flags)) in
              st := s';
              Buffer.add_string out (Printf.sprintf " | S %d >" cid);
              print_model_obs outc rc have_rc; print_wb ()
            end
          end;
          incr idx
        | "F" :: ">" :: obs ->
          if List.mem "TIMEOUT" obs || List.mem "FAULT" obs then stop := true
          else begin
            (if do0 && !l0 = "ok" then begin
               add_cls "f";
               accept_call CFlush (obs_of_tokens obs N0); add_nf ()
             end else add_cls "-");
            if do1 then begin
              script := parse_mlog (match kv obs "m" with Some x -> x | None -> "-");
              let have_rc = (match kv obs "rc" with Some "n" | None -> false | _ -> true) in
              let ((s', outc), rc) = step a kk sched !st Flush in
              st := s';
              Buffer.add_string out " | F >";
              print_model_obs outc rc have_rc; print_wb ()
            end
          end;
          incr idx
        | "I" :: c :: ">" :: _ ->
          let cid = int_of_string c in
          add_cls "i"; if do0 then add_nf ();
          (if do0 && !l0 = "ok" then begin
             let ac = nth (nat_of_int cid) !abs dummy in
             if in_flight ac then (l0_fails := Printf.sprintf "fail@%d:fail" !idx :: !l0_fails; l0 := "stop")
             else abs := upd (nat_of_int cid) dummy !abs
           end);
          if do1 then begin
            let old = getc a !st (nat_of_int cid) in
            ignore old;
            (let s0 = !st in st := { s0 with ctxs = upd (nat_of_int cid) (ctx_init junk) s0.ctxs });
            Buffer.add_string out (Printf.sprintf " | I %d >" cid); print_wb ()
          end;
          incr idx
        | "J" :: c :: total :: plen :: seed :: ">" :: res ->
          let cid = int_of_string c in
          add_cls "j"; if do0 then add_nf ();
          if List.mem "done" res then begin
            let plen = int_of_string plen and total = n_of_hex total in
            let nw = List.length a.a_iv in
            let wb = if wordhex = "eeeeeeee" then 4 else 8 in
            let raw = stream_bytes (int64_of_hex seed) (nw * wb + plen) in
            let chain = List.map le_to_N (chunks (nat_of_int wb) (firstn (nat_of_int (nw * wb)) raw)) in
            let part = skipn (nat_of_int (nw * wb)) raw in
            let p = N.sub total (n_of_int plen) in
            (if do0 && !l0 = "ok" then begin
               if !injected && (!pre <> p || (!spec_algo).a_iv <> chain) then (l0_fails := Printf.sprintf "fail@%d:badcase" !idx :: !l0_fails; l0 := "stop")
               else begin
                 injected := true; pre := p; spec_algo := shift_algo a chain p;
                 abs := upd (nat_of_int cid) (spec_injected part) !abs end
             end);
            if do1 then begin
              (let s0 = !st in st := { s0 with ctxs = upd (nat_of_int cid) (inject_ctx a chain total part) s0.ctxs });
              Buffer.add_string out (Printf.sprintf " | J %d >" cid); print_wb ()
            end
          end else if do1 then Buffer.add_string out (Printf.sprintf " | J %d > skip" cid);
          incr idx
        | "B" :: nc :: _len :: _count :: _seed :: ">" :: res ->
          (* long real streams: the model is started from the observed state of contexts 0..nc-1
             (checkpoint), which the w= records of this op carry *)
          add_cls "b"; if do0 then add_nf ();
          let nc = int_of_string nc in
          (match kv res "w" with
           | Some w when w <> "-" && not (List.exists (fun t -> String.length t > 2 && String.sub t 0 3 = "bad") res) ->
             let recs = String.split_on_char ';' w in
             List.iter (fun r ->
               match String.index_opt r '=' with
               | None -> ()
               | Some e ->
                 let cid = int_of_string (String.sub r 0 e) in
                 let f = Array.of_list (String.split_on_char ':' (String.sub r (e + 1) (String.length r - e - 1))) in
                 if cid < nc && Array.length f >= 7 then begin
                   let total = n_of_hex f.(2) and chain = words_of_str f.(5) in
                   let part = bytes_of_hex f.(6) in
                   let p = N.sub total (n_of_int (List.length part)) in
                   (if do0 && !l0 = "ok" then begin
                      if int_of_string ("0x" ^ f.(0)) <> 0 then (l0_fails := Printf.sprintf "fail@%d:fail" !idx :: !l0_fails; l0 := "stop")
                      else if !injected && (!pre <> p || (!spec_algo).a_iv <> chain) then (l0_fails := Printf.sprintf "fail@%d:crossctx" !idx :: !l0_fails; l0 := "stop")
                      else begin
                        injected := true; pre := p; spec_algo := shift_algo a chain p;
                        abs := upd (nat_of_int cid) (spec_injected part) !abs end
                    end);
                   if do1 then begin
                     (let s0 = !st in st := { s0 with ctxs = upd (nat_of_int cid) (inject_ctx a chain total part) s0.ctxs });
                     last.(cid) <- wb_record a (getc a !st (nat_of_int cid))
                   end
                 end) recs
           | _ -> if do0 && !l0 = "ok" then (l0_fails := Printf.sprintf "fail@%d:fail" !idx :: !l0_fails; l0 := "stop"));
          if do1 then Buffer.add_string out " | B >";
          incr idx
        | _ -> ()
      end) segs;
    let verdict = if not do0 then "na" else if !l0_fails = [] then "ok" else String.concat ";" (List.rev !l0_fails) in
    print_endline (Printf.sprintf "%s L0=%s cls=%s nf=%s%s" id verdict (Buffer.contents cls)
                     (if Buffer.length nf = 0 then "-" else Buffer.contents nf) (Buffer.contents out))
  | [] -> ()
  | _ -> print_endline "?")
