(* model driver for C02/C07 (AES-GCM).  One case per line:
     M <id> <keyhex> <enc 1|0> <ivhex> <aadhex> <taglen> <datahex> o            one-shot
     M <id> <keyhex> <enc 1|0> <ivhex> <aadhex> <taglen> <datahex> s l1 l2 ..   streaming
     (V instead of M: the vaes_avx512 policy for keeping the last full block open, defer_vaes)
     Z <id> <keyhex> <enc 1|0> <ivhex> <aadlen> <taglen> <datahex>              one-shot, AAD = aadlen zero bytes
   Output: <id> spec=<out>,<tag16> out=<hex> tag=<hex> ctx=<after init>,<after each update>,<after finalize>
   `spec` is Spec.GCM.gcm_ae_rk / gcm_ad_rk (SP 800-38D) on the whole data; out/tag/ctx are
   the streaming model Model.GcmStream run call by call.  Nothing is decided here. *)
open Isal
open Conv

let take_drop n l =
  let rec go n acc l = if n = 0 then (List.rev acc, l) else
    match l with [] -> (List.rev acc, []) | x :: r -> go (n - 1) (x :: acc) r in
  go n [] l

let () = iter_lines (fun line ->
  match split_ws line with
  | ("M" | "V" as pol) :: id :: key :: enc :: iv :: aad :: taglen :: data :: mode :: segs ->
    let defer = if pol = "V" then defer_vaes else defer_none in
    let enc = (enc = "1") in
    let rks = key_expansion (bytes_of_hex key) in
    let e = cipher rks in
    let h = gcm_precomp e in
    let iv = bytes_of_hex iv and aad = bytes_of_hex aad and data = bytes_of_hex data in
    let tl = nat_of_int (int_of_string taglen) in
    let (so, st) = if enc then gcm_ae_rk rks iv aad data else gcm_ad_rk rks iv aad data in
    let pieces = if mode = "o" then [data] else begin
      let rest = ref data in
      let ps = List.map (fun l -> let (a, b) = take_drop (int_of_string l) !rest in rest := b; a) segs in
      if !rest <> [] then failwith "segments do not cover the data";
      ps end in
    let c = ref (gcm_init h iv aad) in
    let ctxs = ref [hex_of_bytes (gcm_ctx_bytes !c)] in
    let outs = ref [] in
    List.iter (fun p ->
      let (c', o) = gcm_update e h defer enc !c p in
      c := c'; outs := o :: !outs;
      ctxs := hex_of_bytes (gcm_ctx_bytes c') :: !ctxs) pieces;
    let (cf, tag) = gcm_finalize e h !c tl in
    ctxs := hex_of_bytes (gcm_ctx_bytes cf) :: !ctxs;
    Printf.printf "%s spec=%s,%s out=%s tag=%s ctx=%s\n" id (hex_of_bytes so) (hex_of_bytes st)
      (hex_of_bytes (List.concat (List.rev !outs))) (hex_of_bytes tag) (String.concat "," (List.rev !ctxs))
  | "Z" :: id :: key :: enc :: iv :: aadlen :: taglen :: data :: _ ->
    (* AAD of aadlen zero bytes: GHASH over zero blocks from 0 stays 0 (lemma
       ghash_blocks_zeros), so the context after init is known without hashing *)
    let enc = (enc = "1") in
    let rks = key_expansion (bytes_of_hex key) in
    let e = cipher rks in
    let h = gcm_precomp e in
    let iv = bytes_of_hex iv and data = bytes_of_hex data in
    let tl = nat_of_int (int_of_string taglen) in
    let c0 = gcm_init h iv [] in
    let c0 = { c0 with aad_length = n_of_hex aadlen } in
    let (c1, o) = gcm_update e h defer_none enc c0 data in
    let (_, tag) = gcm_finalize e h c1 tl in
    Printf.printf "%s out=%s tag=%s\n" id (hex_of_bytes o) (hex_of_bytes tag)
  | [] -> ()
  | _ -> print_endline "?")
