(* model driver for C12: the extracted dispatch model on case lines
     X <id> <entry> <10 hex words>      what the model's dispatcher binds in that environment
     A <id> <symbol> <10 hex words>     is <symbol> executable in that environment
     W <id> <entry>                     witness environments of every path of the entry's tree
     U <id>                             entries the checker rejects, with a validated witness
     L <id>                             entries, G <id> groups
   Line parser / printer only; every decision is an extracted Coq function. *)
open Isal
open Conv

let rec cstr_of (s : Stdlib.String.t) (i : int) : Isal.string =
  if i >= String.length s then EmptyString
  else
    let c = Char.code s.[i] in
    let b k = (c lsr k) land 1 = 1 in
    String (Ascii (b 0, b 1, b 2, b 3, b 4, b 5, b 6, b 7), cstr_of s (i + 1))
let coq_of_string (s : Stdlib.String.t) : Isal.string = cstr_of s 0
let string_of_coq (s : Isal.string) : Stdlib.String.t =
  let b = Buffer.create 32 in
  let rec go = function
    | EmptyString -> ()
    | String (Ascii (b0, b1, b2, b3, b4, b5, b6, b7), r) ->
      let v x k = if x then 1 lsl k else 0 in
      Buffer.add_char b (Char.chr (v b0 0 + v b1 1 + v b2 2 + v b3 3 + v b4 4 + v b5 5 + v b6 6 + v b7 7));
      go r in
  go s; Buffer.contents b

let feat_name = function
  | F_SSE3 -> "SSE3" | F_SSSE3 -> "SSSE3" | F_SSE4_1 -> "SSE4_1" | F_SSE4_2 -> "SSE4_2" | F_POPCNT -> "POPCNT"
  | F_AESNI -> "AESNI" | F_PCLMUL -> "PCLMUL" | F_MOVBE -> "MOVBE" | F_BMI1 -> "BMI1" | F_BMI2 -> "BMI2"
  | F_LZCNT -> "LZCNT" | F_ADX -> "ADX" | F_SHA -> "SHA" | F_GFNI -> "GFNI" | F_AVX -> "AVX" | F_AVX2 -> "AVX2"
  | F_FMA -> "FMA" | F_F16C -> "F16C" | F_VAES -> "VAES" | F_VPCLMULQDQ -> "VPCLMULQDQ" | F_AVX512F -> "AVX512F"
  | F_AVX512CD -> "AVX512CD" | F_AVX512DQ -> "AVX512DQ" | F_AVX512BW -> "AVX512BW" | F_AVX512VL -> "AVX512VL"
  | F_AVX512IFMA -> "AVX512IFMA" | F_AVX512VBMI -> "AVX512VBMI" | F_AVX512VBMI2 -> "AVX512VBMI2"
  | F_AVX512VNNI -> "AVX512VNNI" | F_AVX512BITALG -> "AVX512BITALG" | F_AVX512VPOPCNTDQ -> "AVX512VPOPCNTDQ"
  | F_UNKNOWN -> "UNKNOWN"

let field_name = function
  | L1A -> "1a" | L1B -> "1b" | L1C -> "1c" | L1D -> "1d" | L7A -> "7a" | L7B -> "7b" | L7C -> "7c" | L7D -> "7d"
  | X0L -> "xl" | X0H -> "xh"

let tbl = isa_requires
let req = requires_of tbl
let find_disp (name : Stdlib.String.t) =
  let cn = coq_of_string name in
  lookup dispatchers cn
let env_of (ws : Stdlib.String.t list) : env = env_of_words (List.map n_of_hex ws)
let env_str (e : env) : Stdlib.String.t = String.concat ":" (List.map (fun w -> hex_of_n w) (words_of_env e))

let verdict (e : env) (x : Isal.string) : Stdlib.String.t =
  match first_missing req e x with
  | None -> "ok"
  | Some f -> "unavail:" ^ feat_name f

let () = iter_lines (fun line ->
  match split_ws line with
  | "X" :: id :: entry :: ws when List.length ws = 10 ->
    (match find_disp entry with
     | None -> print_endline (id ^ " NOENTRY")
     | Some d ->
       let e = env_of ws in
       let r = exec d.d_entry d.d_code e in
       let cons = if consistentb e then 1 else 0 and dm = if doc_min_okb d.d_entry e then 1 else 0 in
       (match r with
        | None -> Printf.printf "%s STUCK stuck %d %d\n" id cons dm
        | Some x -> Printf.printf "%s %s %s %d %d\n" id (string_of_coq x) (verdict e x) cons dm))
  | "A" :: id :: sym :: ws when List.length ws = 10 ->
    Printf.printf "%s %s\n" id (verdict (env_of ws) (coq_of_string sym))
  | "W" :: id :: entry :: _ ->
    (match find_disp entry with
     | None -> print_endline (id ^ " NOENTRY")
     | Some d ->
       let t = tree_of d in
       let ps = paths t in
       let envs = candidates d in
       let leaf (atoms, r) =
         (match r with None -> "STUCK" | Some x -> string_of_coq x) ^ "@" ^
         String.concat "," (List.map (fun (((pos, f), m), v) ->
           (if pos then "+" else "-") ^ field_name f ^ "&" ^ hex_of_n m ^ "=" ^ hex_of_n v) atoms) in
       Printf.printf "%s %d %s | %s\n" id (List.length ps)
         (String.concat " " (List.map env_str envs)) (String.concat " " (List.map leaf ps)))
  | "U" :: id :: _ ->
    let us = unsafe_of tbl dispatchers in
    Printf.printf "%s %s\n" id (String.concat " " (List.map (fun d ->
      string_of_coq d.d_entry ^ "=" ^ (match counterexample tbl d with Some e -> env_str e | None -> "none")) us))
  | "L" :: id :: _ ->
    Printf.printf "%s %s\n" id (String.concat " " (List.map (fun d ->
      string_of_coq d.d_entry ^ ":" ^ (if check_disp tbl d then "1" else "0") ^ (if stub_ok d then "1" else "0")) dispatchers))
  | "G" :: id :: _ ->
    Printf.printf "%s %s\n" id (String.concat " " (List.map (fun (g, names) ->
      String.concat "," (List.map string_of_coq names) ^ ":" ^ (if group_checked dispatchers (g, names) then "1" else "0"))
      group_names))
  | "F" :: id :: entry :: sym :: _ ->
    (match family (coq_of_string entry) (coq_of_string sym) with
     | None -> print_endline (id ^ " none")
     | Some l -> Printf.printf "%s %s\n" id (String.concat "_" (List.map string_of_coq l)))
  | [] -> ()
  | _ -> print_endline "?")
