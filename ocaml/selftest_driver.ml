(* C17 model driver: schedule explorer, replay and sequential conformance over the extracted
   interpreter of the regenerated self-test protocol program (Extract/Selftest.v).

   The SEARCH (breadth-first enumeration of all global states, strongly connected components)
   is hand-written here and untrusted: a result it reports is re-validated with the extracted
   st_exec / safety_violation (the R command), and a kernel-checked Example is generated from
   it by the check.  Lines:
     X id n a s maxstates          explore every schedule of n threads, oracle (a, s) (hex)
     R id n a s sched [cycle]      run a schedule (comma separated thread ids, "-" = empty);
                                   with a cycle: also run it from the reached state and say
                                   whether the state repeats and which threads moved
     Q id check pc status pub      one thread calls asm_check_self_tests_status (at index pc)
                                   with the status word preset; if it is still spinning after
                                   64 steps the word is set to pub and it continues
     Q id set pc status arg        one thread calls asm_set_self_tests_status(arg)
     Q id full pc status a s       one thread calls isal_self_tests() *)
open Isal
open Conv

let n_of_hexs s = n_of_hex s
let hex x = hex_of_n x

let key_of (s : st_sys) : string =
  let b = Buffer.create 128 in
  let addn x = Buffer.add_string b (hex x); Buffer.add_char b ',' in
  addn s.sg.status; Buffer.add_string b (string_of_int (int_of_nat s.sg.runs)); Buffer.add_char b '/';
  Buffer.add_string b (string_of_int (int_of_nat s.sg.fin));
  List.iter (fun t ->
    Buffer.add_char b '|';
    Buffer.add_string b (string_of_int (int_of_nat t.pc)); Buffer.add_char b ':';
    List.iter addn t.regs;
    Buffer.add_char b (if t.zf then 'Z' else 'z'); Buffer.add_char b (if t.cf then 'C' else 'c');
    Buffer.add_char b (if t.sf then 'S' else 's'); Buffer.add_char b (if t.ovf then 'O' else 'o');
    Buffer.add_char b (if t.own then 'W' else 'w');
    Buffer.add_char b ';'; List.iter addn t.stk;
    (match t.utmp with None -> Buffer.add_char b '-' | Some v -> Buffer.add_char b 'u'; addn v);
    (match t.ph with PRun -> Buffer.add_char b 'R' | PRet v -> Buffer.add_char b 'T'; addn v
                   | PCrypto -> Buffer.add_char b 'K' | PFault -> Buffer.add_char b 'F')) s.sths;
  Buffer.contents b

let phase_str t = match t.ph with
  | PRun -> Printf.sprintf "run@%d" (int_of_nat t.pc)
  | PRet v -> "ret:" ^ hex v | PCrypto -> "crypto" | PFault -> "fault"

let describe (s : st_sys) =
  Printf.sprintf "status=%s runs=%d fin=%d threads=%s" (hex s.sg.status) (int_of_nat s.sg.runs) (int_of_nat s.sg.fin)
    (String.concat "," (List.map phase_str s.sths))

let sched_str l = if l = [] then "-" else String.concat "," (List.map string_of_int l)
let parse_sched s = if s = "-" then [] else List.map int_of_string (String.split_on_char ',' s)

let step o (s : st_sys) (t : int) : st_sys = sstep (tstep prog o) s (nat_of_int t)

(* ---------------------------------------------------------------- exploration *)
let explore id n o maxstates =
  let tbl : (string, int) Hashtbl.t = Hashtbl.create 100003 in
  let states = ref (Array.make 1024 None) in
  let parent = ref (Array.make 1024 (-1, -1)) in
  let nst = ref 0 in
  let add s par =
    let k = key_of s in
    match Hashtbl.find_opt tbl k with
    | Some i -> (i, false)
    | None ->
      let i = !nst in
      if i >= Array.length !states then begin
        let a = Array.make (2 * i) None in Array.blit !states 0 a 0 i; states := a;
        let p = Array.make (2 * i) (-1, -1) in Array.blit !parent 0 p 0 i; parent := p end;
      !states.(i) <- Some s; !parent.(i) <- par; Hashtbl.add tbl k i; incr nst; (i, true) in
  let get i = match !states.(i) with Some s -> s | None -> assert false in
  let path_to i =
    let rec go i acc = let (p, t) = !parent.(i) in if p < 0 then acc else go p (t :: acc) in go i [] in
  let init = st_init init_status entry (nat_of_int n) in
  ignore (add init (-1, -1));
  let edges : (int * int) list array ref = ref (Array.make 1024 []) in
  let result = ref None in
  let head = ref 0 in
  (try
    while !head < !nst do
      let i = !head in incr head;
      let s = get i in
      (match safety_violation errv o s with
       | Some c -> result := Some (Printf.sprintf "%s safety clause=%d sched=%s state=[%s]" id (int_of_nat c) (sched_str (path_to i)) (describe s)); raise Exit
       | None -> ());
      if !nst > maxstates then begin result := Some (Printf.sprintf "%s exhausted states=%d" id !nst); raise Exit end;
      let es = ref [] in
      List.iteri (fun t th ->
        let s' = step o s t in
        let (j, _) = add s' (i, t) in
        (* stutter steps of finished threads are not edges *)
        if not (j = i && (retd th)) then es := (t, j) :: !es) s.sths;
      if i >= Array.length !edges then begin
        let a = Array.make (max (2 * i) (Array.length !states)) [] in Array.blit !edges 0 a 0 (Array.length !edges); edges := a end;
      !edges.(i) <- !es
    done
  with Exit -> ());
  match !result with
  | Some r -> print_endline r
  | None ->
    (* strongly connected components (iterative Tarjan) *)
    let nn = !nst in
    let edges = Array.init nn (fun i -> if i < Array.length !edges then !edges.(i) else []) in
    let index = Array.make nn (-1) and low = Array.make nn 0 and onstack = Array.make nn false in
    let comp = Array.make nn (-1) in
    let stack = ref [] and counter = ref 0 and ncomp = ref 0 in
    for root = 0 to nn - 1 do
      if index.(root) < 0 then begin
        let work = ref [(root, edges.(root))] in
        index.(root) <- !counter; low.(root) <- !counter; incr counter; stack := root :: !stack; onstack.(root) <- true;
        while !work <> [] do
          match !work with
          | (v, (_, w) :: rest) :: tl ->
            work := (v, rest) :: tl;
            if index.(w) < 0 then begin
              index.(w) <- !counter; low.(w) <- !counter; incr counter; stack := w :: !stack; onstack.(w) <- true;
              work := (w, edges.(w)) :: !work end
            else if onstack.(w) then low.(v) <- min low.(v) index.(w)
          | (v, []) :: tl ->
            work := tl;
            (match tl with (u, _) :: _ -> low.(u) <- min low.(u) low.(v) | [] -> ());
            if low.(v) = index.(v) then begin
              let rec pop () = match !stack with
                | w :: r -> stack := r; onstack.(w) <- false; comp.(w) <- !ncomp; if w <> v then pop ()
                | [] -> () in
              pop (); incr ncomp end
          | [] -> ()
        done end
    done;
    (* per component: threads that have not returned, threads that move inside it *)
    let movers = Array.make !ncomp [] and member = Array.make !ncomp (-1) in
    for i = 0 to nn - 1 do
      member.(comp.(i)) <- i;
      List.iter (fun (t, j) -> if comp.(j) = comp.(i) && not (List.mem t movers.(comp.(i))) then movers.(comp.(i)) <- t :: movers.(comp.(i))) edges.(i)
    done;
    let bad = ref None in
    for c = 0 to !ncomp - 1 do
      if !bad = None && movers.(c) <> [] then begin
        let s = get member.(c) in
        let waiting = List.filter (fun t -> t >= 0) (List.mapi (fun t th -> if retd th then -1 else t) s.sths) in
        if List.for_all (fun t -> List.mem t movers.(c)) waiting then bad := Some (c, waiting)
      end
    done;
    (match !bad with
     | None -> Printf.printf "%s ok states=%d components=%d\n" id nn !ncomp
     | Some (c, waiting) ->
       (* witness: a path to the component, then a closed walk inside it that contains a step
          of every waiting thread (shortest paths inside the component, breadth first) *)
       let start = let best = ref (-1) in
         for i = nn - 1 downto 0 do if comp.(i) = c then best := i done; !best in
       let bfs_path src pred =
         (* shortest path inside component c from src to the first state/edge accepted by pred *)
         let seen = Hashtbl.create 97 in
         let q = Queue.create () in
         Hashtbl.add seen src (-1, -1); Queue.add src q;
         let found = ref None in
         (try while not (Queue.is_empty q) do
           let v = Queue.pop q in
           List.iter (fun (t, w) ->
             if comp.(w) = c then begin
               if !found = None && pred v t w then begin found := Some (v, t, w); raise Exit end;
               if not (Hashtbl.mem seen w) then begin Hashtbl.add seen w (v, t); Queue.add w q end end) (List.rev edges.(v))
         done with Exit -> ());
         match !found with
         | None -> None
         | Some (v, t, w) ->
           let rec back v acc = let (p, pt) = Hashtbl.find seen v in if p < 0 then acc else back p (pt :: acc) in
           Some (back v [] @ [t], w) in
       let cur = ref start and walk = ref [] in
       List.iter (fun t ->
         match bfs_path !cur (fun _ t' _ -> t' = t) with
         | Some (p, w) -> walk := !walk @ p; cur := w
         | None -> ()) waiting;
       (if !cur <> start then
         match bfs_path !cur (fun _ _ w -> w = start) with
         | Some (p, _) -> walk := !walk @ p
         | None -> ());
       Printf.printf "%s live waiting=%s sched=%s cycle=%s state=[%s]\n" id (sched_str waiting)
         (sched_str (path_to start)) (sched_str !walk) (describe (get start)))

(* ---------------------------------------------------------------- replay *)
let replay id n o sched cycle =
  let s0 = st_init init_status entry (nat_of_int n) in
  let s = List.fold_left (step o) s0 sched in
  let viol = ref None in
  ignore (List.fold_left (fun (s, k) t ->
    let s' = step o s t in
    (match !viol, safety_violation errv o s' with
     | None, Some c -> viol := Some (k + 1, int_of_nat c)
     | _ -> ());
    (s', k + 1)) (s0, 0) sched);
  let base = Printf.sprintf "%s %s safety=%s" id (describe s)
      (match !viol with None -> "none" | Some (k, c) -> Printf.sprintf "clause%d@step%d" c k) in
  match cycle with
  | None -> print_endline base
  | Some cyc ->
    let s2 = List.fold_left (step o) s cyc in
    let waiting = List.filter (fun t -> t >= 0) (List.mapi (fun t th -> if retd th then -1 else t) s.sths) in
    Printf.printf "%s cycle_repeats=%b waiting=%s all_waiting_move=%b\n" base (key_of s2 = key_of s && cyc <> [])
      (sched_str waiting) (List.for_all (fun t -> List.mem t cyc) waiting)

(* ---------------------------------------------------------------- sequential conformance *)
let run_one o g t limit =
  let g = ref g and t = ref t and k = ref 0 in
  while (match !t.ph with PRun -> true | _ -> false) && !k < limit do
    let (g', t') = tstep prog o !g !t in g := g'; t := t'; incr k
  done; (!g, !t)

let seq id kind pc status rest =
  let pc = nat_of_int (int_of_string pc) in
  let g = { status = n_of_hexs status; runs = O; fin = O } in
  let th = set_pc (t0 O) pc in
  match kind, rest with
  | "check", [pub] ->
    let o = (N0, N0) in
    let (g1, t1) = run_one o g th 64 in
    let (g2, t2) = (match t1.ph with
      | PRun when pub <> "-" -> run_one o (set_status g1 (n_of_hexs pub)) t1 64
      | _ -> (g1, t1)) in
    Printf.printf "%s ret=%s status=%s\n" id (match t2.ph with PRet v -> hex v | PRun -> "spinning" | _ -> "fault") (hex g2.status)
  | "set", [arg] ->
    let th = { th with regs = upd (nat_of_int 7) (n_of_hexs arg) th.regs } in
    let (g1, t1) = run_one (N0, N0) g th 64 in
    Printf.printf "%s ret=%s status=%s\n" id (match t1.ph with PRet _ -> "-" | _ -> "fault") (hex g1.status)
  | "full", [a; s] ->
    let o = (n_of_hexs a, n_of_hexs s) in
    let (g1, t1) = run_one o g th 200 in
    Printf.printf "%s ret=%s status=%s runs=%d\n" id (match t1.ph with PRet v -> hex v | PRun -> "spinning" | _ -> "fault")
      (hex g1.status) (int_of_nat g1.runs)
  | _ -> Printf.printf "%s ?\n" id

let () = iter_lines (fun line ->
  match split_ws line with
  | ["X"; id; n; a; s; mx] -> explore id (int_of_string n) (n_of_hexs a, n_of_hexs s) (int_of_string mx)
  | ["R"; id; n; a; s; sched] -> replay id (int_of_string n) (n_of_hexs a, n_of_hexs s) (parse_sched sched) None
  | ["R"; id; n; a; s; sched; cyc] -> replay id (int_of_string n) (n_of_hexs a, n_of_hexs s) (parse_sched sched) (Some (parse_sched cyc))
  | "Q" :: id :: kind :: pc :: status :: rest -> seq id kind pc status rest
  | [] -> ()
  | t :: id :: _ -> Printf.printf "%s ?\n" id
  | _ -> ())
