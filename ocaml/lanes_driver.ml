(* Model driver of the lane-level white-box tie: runs the extracted Model.LaneMgr
   (lm_init / lm_submit / lm_flush with the algorithm's a_compress as the kernel) on the job
   sequence of a case and prints, after every call, the same tokens harness/lanes_drv.c prints
   for the real manager structure.  The configuration record comes on the input line (what
   tr/lane_cfg.py regenerated from the sources); cfg_wf of it (extracted) is reported in the
   header.  Parser / printer only; nothing here decides anything.

   input : M <id> <algo> <fam> <cfg> <op>...      cfg = k=v;k=v;...   op = S<nblocks>,<seed> | F
   output: <id> <algo> <fam> wf=<bool> | init > STATE | <op> > r=<job|-|FAULT> d=<digest|-> STATE | ... | end ok *)
open Isal
open Conv

let algo_of = function
  | "sha1" -> sha1_algo | "sha256" -> sha256_algo | "sha512" -> sha512_algo
  | "md5" -> md5_algo | "sm3" -> sm3_algo | s -> failwith ("algo " ^ s)

let parse_cfg (s : string) : family_cfg =
  let kv = List.filter_map (fun t -> match String.index_opt t '=' with
      | Some i -> Some (String.sub t 0 i, String.sub t (i + 1) (String.length t - i - 1)) | None -> None)
      (String.split_on_char ';' s) in
  let g k = try List.assoc k kv with Not_found -> failwith ("cfg key " ^ k) in
  let gi k = int_of_string (g k) in
  let gn k = n_of_int (gi k) in
  let gh k = n_of_hex (g k) in
  { f_immediate = (g "imm" = "1"); f_bsize = gn "bs"; f_nlanes = nat_of_int (gi "n");
    f_stack_bits = gn "sb"; f_ent_bits = gn "ent"; f_pop_bits = gn "pop";
    f_init_unused = gh "iu";
    f_init_lens = (if g "il" = "-" then [] else List.map n_of_hex (String.split_on_char ',' (g "il")));
    f_W = gn "W"; f_shift = gn "sh"; f_idx_bits = gn "ib"; f_clear_bits = gn "cb";
    f_pack = (if g "pk" = "H" then PackHighField else PackShiftOr);
    f_idle_len = gh "idle";
    f_run = (let r = g "run" in
             let v = String.sub r 2 (String.length r - 2) in
             if r.[0] = 'S' then RunStackEq (n_of_hex v) else RunInuseEq (n_of_int (int_of_string v)));
    f_submit_scan = nat_of_int (gi "scan");
    f_empty = (let r = g "emp" in
               if r.[0] = 'I' then EmptyInuse0 else EmptyBit (n_of_int (int_of_string (String.sub r 2 (String.length r - 2)))));
    f_sb_threshold = (if g "thr" = "-" then None else Some (gn "thr"));
    f_retire_idle = (g "ri" = "1") }

let lcg (x : int ref) : int =
  x := (!x * 1103515245 + 12345) land 0x7fffffff; !x

(* the job of an S op: (initial chain words, blocks) - same stream as harness/lanes_drv.c *)
let make_job (a : algo) (jid : int) (nb : int) (seed : int) : job =
  let x = ref seed in
  let nw = List.length a.a_iv in
  let halves = if int_of_nat a.a_bsize = 128 then 4 else 2 in
  let chain = List.init nw (fun _ ->
      let b = Buffer.create 16 in
      for _ = 1 to halves do Buffer.add_string b (Printf.sprintf "%04x" ((lcg x lsr 8) land 0xffff)) done;
      n_of_hex (Buffer.contents b)) in
  let bs = int_of_nat a.a_bsize in
  let blocks = List.init nb (fun _ -> List.init bs (fun _ -> n_of_int ((lcg x lsr 16) land 0xff))) in
  { j_ctx = nat_of_int jid; j_blocks = blocks; j_chain = chain }

let words (l : n list) : string = if l = [] then "-" else String.concat "." (List.map (fun w -> hex_of_n w) l)

let state (b : Buffer.t) (f : family_cfg) (m : mgr) : unit =
  Buffer.add_string b (" u=" ^ (if f.f_immediate then "" else hex_of_n m.m_unused));
  Buffer.add_string b (Printf.sprintf " n=%d" (int_of_n m.m_inuse));
  Buffer.add_string b (" l=" ^ String.concat "," (List.map (fun w -> hex_of_n w) m.m_lens));
  Buffer.add_string b (" j=" ^ String.concat "," (List.map (fun l -> match l.l_job with
      | Some k -> string_of_int (int_of_nat k) | None -> "-") m.m_lanes));
  Buffer.add_string b (" p=" ^ String.concat "," (List.map (fun l -> match l.l_job with
      | Some _ -> string_of_int (int_of_nat l.l_cur) | None -> "-") m.m_lanes));
  Buffer.add_string b (" c=" ^ String.concat "," (List.map (fun l -> match l.l_job with
      | Some _ -> words l.l_chain | None -> "-") m.m_lanes))

let () =
  iter_lines (fun line ->
    match split_ws line with
    | "M" :: id :: algo :: fam :: cfg :: ops ->
      (try
        let a = algo_of algo in
        let f = parse_cfg cfg in
        let b = Buffer.create 4096 in
        Buffer.add_string b (Printf.sprintf "%s %s %s wf=%b | init >" id algo fam (cfg_wf f));
        let m = ref (lm_init f) in
        state b f !m;
        let jid = ref 0 in
        let stop = ref false in
        List.iter (fun o ->
          if not !stop then begin
            Buffer.add_string b (" | " ^ o ^ " >");
            let (m', r) =
              if o.[0] = 'S' then begin
                match String.split_on_char ',' (String.sub o 1 (String.length o - 1)) with
                | [nb; seed] ->
                  let j = make_job a !jid (int_of_string nb) (int_of_string seed) in
                  incr jid;
                  lm_submit a.a_compress f !m j
                | _ -> failwith "op"
              end else lm_flush a.a_compress f !m in
            m := m';
            (match r with
             | RNull -> Buffer.add_string b " r=- d=-"
             | RJob (k, ch) -> Buffer.add_string b (Printf.sprintf " r=%d d=%s" (int_of_nat k) (words ch))
             | RFault -> Buffer.add_string b " FAULT model:retired-lane-has-no-job"; stop := true);
            if not !stop then state b f !m
          end) ops;
        Buffer.add_string b (if !stop then " | end fault" else " | end ok");
        print_endline (Buffer.contents b)
      with e -> Printf.printf "%s %s %s error:%s\n" id algo fam (Printexc.to_string e))
    | _ -> ())
