(* model/spec driver for C03 (AES-XTS): same case lines as harness/xts_drv.c.
   X <id> <ks> <k2> <k1> <tweak> <len> <seed> [exp]
     -> <id> enc <hex> dec <hex> ek2 <hex> ek1 <hex> dk1 <hex> [xenc <hex> xdec <hex>]
        enc/dec  = Spec.XTS.xts_enc / xts_dec of the data (the L0 oracle)
        ek2,ek1  = Model.KeyExp.keyexp_enc of the two keys, dk1 = keyexp_dec k1
        xenc/xdec (only with "exp") = the expanded-key entry model on those schedules
   W <id> <ks> <k2> <k1> <tweak> <len> <seed> <blk0> <nbytes> [<tweak of block blk0>]
     -> <id> enc <hex> dec <hex>: the spec on the window of nbytes bytes starting at block blk0
        of a long data unit (tweak advanced by xts_tweak_pow, theorem C03_xts_enc_chunks_app); a
        window that reaches the last full block of a data unit with a partial tail must extend
        to the end (the generator does that).
   T <id> <ks> <k2> <tweak> <step> <count> -> <id> <tweak of block 0> <of block step> ... *)
open Isal
open Conv

let gamma = 0x9E3779B97F4A7C15L
let sm_mix z =
  let open Int64 in
  let z = mul (logxor z (shift_right_logical z 30)) 0xBF58476D1CE4E5B9L in
  let z = mul (logxor z (shift_right_logical z 27)) 0x94D049BB133111EBL in
  logxor z (shift_right_logical z 31)
(* bytes [off, off+n) of the splitmix64 stream of `seed` (8 bytes per draw, little endian) *)
let sm_bytes (seed : int64) (off : int) (n : int) : n list =
  List.init n (fun i ->
    let p = off + i in
    let w = sm_mix (Int64.add seed (Int64.mul gamma (Int64.of_int (p / 8 + 1)))) in
    n_of_int (Int64.to_int (Int64.logand (Int64.shift_right_logical w (8 * (p mod 8))) 0xffL)))

let () = iter_lines (fun line ->
  match split_ws line with
  | "X" :: id :: _ks :: k2 :: k1 :: tw :: len :: seed :: opts ->
    let k2 = bytes_of_hex k2 and k1 = bytes_of_hex k1 and tw = bytes_of_hex tw in
    let data = sm_bytes (Int64.of_string ("0x" ^ seed)) 0 (int_of_string len) in
    let b = Buffer.create 4096 in
    Buffer.add_string b id;
    Buffer.add_string b (" enc " ^ hex_of_bytes (xts_enc k1 k2 tw data));
    Buffer.add_string b (" dec " ^ hex_of_bytes (xts_dec k1 k2 tw data));
    let ek2 = keyexp_enc k2 and ek1 = keyexp_enc k1 and dk1 = keyexp_dec k1 in
    Buffer.add_string b (" ek2 " ^ hex_of_bytes ek2 ^ " ek1 " ^ hex_of_bytes ek1 ^ " dk1 " ^ hex_of_bytes dk1);
    if List.mem "exp" opts then begin
      Buffer.add_string b (" xenc " ^ hex_of_bytes (xts_enc_exp ek2 ek1 tw data));
      Buffer.add_string b (" xdec " ^ hex_of_bytes (xts_dec_exp ek2 dk1 tw data))
    end;
    print_endline (Buffer.contents b)
  | "T" :: id :: _ks :: k2 :: tw :: step :: count :: _ ->
    (* the tweaks of blocks 0, step, 2*step, ...: T_0 = E(k2, tweak), then xts_tweak_pow step *)
    let k2 = bytes_of_hex k2 and tw = bytes_of_hex tw in
    let step = nat_of_int (int_of_string step) in
    let t = ref (xts_tweak0 k2 tw) in
    let b = Buffer.create 4096 in
    Buffer.add_string b id;
    for _ = 1 to int_of_string count do
      Buffer.add_string b (" " ^ hex_of_bytes !t);
      t := xts_tweak_pow step !t
    done;
    print_endline (Buffer.contents b)
  | "W" :: id :: _ks :: k2 :: k1 :: tw :: _len :: seed :: blk0 :: nbytes :: rest ->
    let k2 = bytes_of_hex k2 and k1 = bytes_of_hex k1 and tw = bytes_of_hex tw in
    let blk0 = int_of_string blk0 and nbytes = int_of_string nbytes in
    let data = sm_bytes (Int64.of_string ("0x" ^ seed)) (16 * blk0) nbytes in
    (* the tweak of block blk0: given (from a T line) or computed *)
    let t = (match rest with t0 :: _ -> bytes_of_hex t0 | [] -> xts_tweak_pow (nat_of_int blk0) (xts_tweak0 k2 tw)) in
    let rks = key_expansion k1 in
    let cs = chunks (nat_of_int 16) data in
    print_endline (id ^ " enc " ^ hex_of_bytes (xts_enc_chunks rks t cs) ^ " dec " ^ hex_of_bytes (xts_dec_chunks rks t cs))
  | [] -> ()
  | _ -> print_endline "?")
