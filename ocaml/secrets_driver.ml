(* C14 secrets-oracle cross-check, AES part: what the EXTRACTED Coq spec (Spec/AES.v, Spec/XTS.v
   through coq/Extract/Aesmodes.v) says the key-derived secrets of a call are.  checks/tramp.py
   compares these lines with lib/tramp_aesref.py (the Python oracle the register/stack scan uses).
   K <id> <key hex (16/24/32 bytes)>
     -> <id> enc <hex of key_expansion key, round keys concatenated>
             dec <hex of dec_schedule (key_expansion key)>      (equivalent inverse cipher)
   T <id> <k2 hex> <tweak hex (16 bytes)> <n>
     -> <id> <E(K2,tweak)> <.*alpha> ... (n+1 blocks: xts_tweak0, then xts_mul_alpha repeatedly) *)
open Isal
open Conv

let () = iter_lines (fun line ->
  match split_ws line with
  | "K" :: id :: key :: _ ->
    let rks = key_expansion (bytes_of_hex key) in
    print_string (id ^ " enc " ^ hex_of_bytes (List.concat rks) ^
                  " dec " ^ hex_of_bytes (List.concat (dec_schedule rks)) ^ "\n")
  | "T" :: id :: k2 :: tw :: n :: _ ->
    let t0 = xts_tweak0 (bytes_of_hex k2) (bytes_of_hex tw) in
    let b = Buffer.create 4096 in
    Buffer.add_string b id;
    let t = ref t0 in
    for _ = 0 to int_of_string n do
      Buffer.add_string b (" " ^ hex_of_bytes !t);
      t := xts_mul_alpha !t
    done;
    print_string (Buffer.contents b ^ "\n")
  | _ -> ())
