(* model/spec driver for C04 (AES key expansion, AES-CBC): same case lines as harness/cbc_drv.c.
   K <id> <ks> <key>
     -> <id> enc <hex> dec <hex>     Model.KeyExp.keyexp_enc / keyexp_dec (= FIPS-197
                                     KeyExpansion and the Equivalent Inverse Cipher schedule)
   C <id> <ks> <key> <iv> <nblocks> <seed> [model]
     -> <id> enc <hex> dec <hex> [menc <hex> mdec <hex>]
        enc/dec = Spec.CBC.cbc_enc / cbc_dec (the L0 oracle); menc/mdec = the entry-point model
        on the model's schedules (encryption schedule / aesimc-ed reversed schedule) *)
open Isal
open Conv

let gamma = 0x9E3779B97F4A7C15L
let sm_mix z =
  let open Int64 in
  let z = mul (logxor z (shift_right_logical z 30)) 0xBF58476D1CE4E5B9L in
  let z = mul (logxor z (shift_right_logical z 27)) 0x94D049BB133111EBL in
  logxor z (shift_right_logical z 31)
let sm_bytes (seed : int64) (off : int) (n : int) : n list =
  List.init n (fun i ->
    let p = off + i in
    let w = sm_mix (Int64.add seed (Int64.mul gamma (Int64.of_int (p / 8 + 1)))) in
    n_of_int (Int64.to_int (Int64.logand (Int64.shift_right_logical w (8 * (p mod 8))) 0xffL)))

let () = iter_lines (fun line ->
  match split_ws line with
  | "K" :: id :: _ks :: key :: _ ->
    let k = bytes_of_hex key in
    print_endline (id ^ " enc " ^ hex_of_bytes (keyexp_enc k) ^ " dec " ^ hex_of_bytes (keyexp_dec k))
  | "C" :: id :: _ks :: key :: iv :: nblk :: seed :: opts ->
    let k = bytes_of_hex key and iv = bytes_of_hex iv in
    let data = sm_bytes (Int64.of_string ("0x" ^ seed)) 0 (16 * int_of_string nblk) in
    let b = Buffer.create 4096 in
    Buffer.add_string b id;
    Buffer.add_string b (" enc " ^ hex_of_bytes (cbc_enc k iv data));
    Buffer.add_string b (" dec " ^ hex_of_bytes (cbc_dec k iv data));
    if List.mem "model" opts then begin
      Buffer.add_string b (" menc " ^ hex_of_bytes (cbc_enc_model (keyexp_enc k) iv data));
      Buffer.add_string b (" mdec " ^ hex_of_bytes (cbc_dec_model (keyexp_dec k) iv data))
    end;
    print_endline (Buffer.contents b)
  | [] -> ()
  | _ -> print_endline "?")
