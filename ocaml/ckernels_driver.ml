(* model driver of the ckernels vertical: the TRANSLATED C kernels (extracted interpreter over
   Gen/CKernelGen.v) and the specifications, on the case lines harness/ckernels_drv.c also reads.
   MB <id> <nblocks> <h1> <h2> <data-hex>          _murmur3_x64_128_block
   MT <id> <total_len> <h1> <h2> <tail-hex>        _murmur3_x64_128_tail
   MW <id> <seed> <msg-hex>                        both, composed (whole murmur3_x64_128)
   H <id> <alg> <digest-words-hex> <block-hex>     <alg>_single, alg = sha256 | sha1 | sha512 | md5
   Output: <id> c=<words of the translated code | none> s=<words of the specification> *)
open Isal
open Conv

let words_hex d (l : n list) = String.concat "," (List.map (fun w -> hex_of_n ~digits:d w) l)
let opt_hex d = function Some l -> words_hex d l | None -> "none"
let words_of_hex d (s : string) : n list =
  if s = "-" then [] else List.init (String.length s / d) (fun i -> n_of_hex (String.sub s (d * i) d))
let junk = List.init 32 (fun i -> n_of_int (0xa5 lxor i))
let fuel k = nat_of_int k

let () = iter_lines (fun line ->
  match split_ws line with
  | ["MB"; id; nb; h1; h2; data] ->
    let nb = int_of_string nb and data = bytes_of_hex data in
    let h = [n_of_hex h1; n_of_hex h2] in
    let c = c_murmur3_block (fuel (400 * nb + 2000)) (le_words (nat_of_int 8) data) (n_of_int nb) h in
    let (a, b) = List.fold_left mur_body (n_of_hex h1, n_of_hex h2) (chunks (nat_of_int 16) data) in
    Printf.printf "%s c=%s s=%s\n" id (opt_hex 16 c) (words_hex 16 [a; b])
  | ["MT"; id; tl; h1; h2; tail] ->
    let tail = bytes_of_hex tail in
    let c = c_murmur3_tail (fuel 20000) tail (n_of_hex tl) [n_of_hex h1; n_of_hex h2] junk in
    let (a, b) = mur_tail (n_of_hex h1, n_of_hex h2) tail (n_of_hex tl) in
    Printf.printf "%s c=%s s=%s\n" id (opt_hex 16 c) (words_hex 16 [a; b])
  | ["MW"; id; seed; msg] ->
    let msg = bytes_of_hex msg in
    let c = c_murmur3_x64_128 (fuel (40 * List.length msg + 20000)) (n_of_hex seed) msg junk in
    let (a, b) = murmur3_x64_128 (n_of_hex seed) msg in
    Printf.printf "%s c=%s s=%s\n" id (opt_hex 16 c) (words_hex 16 [a; b])
  | ["H"; id; alg; dg; blk] ->
    let blk = bytes_of_hex blk in
    let (d, c, s) = match alg with
      | "sha256" -> let h = words_of_hex 8 dg in (8, c_sha256_single (fuel 100000) (le_words (nat_of_int 4) blk) h junk, sha256_compress h blk)
      | "sha1" -> let h = words_of_hex 8 dg in (8, c_sha1_single (fuel 100000) (le_words (nat_of_int 4) blk) h junk, sha1_compress h blk)
      | "md5" -> let h = words_of_hex 8 dg in (8, c_md5_single (fuel 100000) (le_words (nat_of_int 4) blk) h, md5_compress h blk)
      | "sha512" -> let h = words_of_hex 16 dg in (16, c_sha512_single (fuel 100000) (le_words (nat_of_int 8) blk) h junk, sha512_compress h blk)
      | _ -> failwith "alg" in
    Printf.printf "%s c=%s s=%s\n" id (opt_hex d c) (words_hex d s)
  | [] -> ()
  | t :: id :: _ -> Printf.printf "%s badline\n" id
  | _ -> ())
