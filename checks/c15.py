"""C15 — hash length accounting stays exact across the 2^29- and 2^32-byte totals.

Coq: Properties/C15.v (hash-proof vertical): total_length exact, the length field of the
padding for every total < 2^61, the packed lane word fits.
Tie (DESIGN C15): (i) state-injection correspondence — the public fields of real contexts are
written to a mid-stream state at 2^29-d, 2^32-d, 2^32+2^29-d (respecting total = partial
length mod B), continued with a few segments and LAST; the extracted acceptor (over
Model.HashObs.shift_algo, i.e. the Merkle-Damgard continuation from that state) decides, the
extracted L1 model started from the same state is diffed white-box; every (algorithm,
family) pair; (ii) real long streams (one 64 MiB buffer submitted repeatedly, all lanes busy)
up to a few blocks before the threshold, the model and the acceptor continue from the
OBSERVED context state (checkpoint); the long prefix itself is compared across all families of
the algorithm (base included) and, as an independent oracle, the final digest of every
context against Python's hashlib (OpenSSL) where it has the algorithm; (iii) one submit of
2^32-B bytes through a virtual mapping of one physical page, compared across families and
with hashlib."""
import time
import vlib
from checks import hashcommon as hc

gen = hc.gen
DRIVERS = hc.DRIVERS
PID = "C15"


def check_long(rep, cases, keep, failures):
    """cross-family agreement of the long prefix, total_length = count*len, and the final
    digests against hashlib"""
    by_algo = {}
    prefix_cache = {}
    for i, c in zip(keep["ids"], cases):
        nat = hc.parse_native(keep["native"][i])
        if not nat["calls"] or nat["calls"][0]["call"][0] != "B":
            continue
        rec0 = nat["calls"][0]
        ln, count, seed = c["long"]
        recs = dict(x.split("=", 1) for x in rec0["kv"].get("w", "-").split(";") if "=" in x)
        if any(t.startswith("bad") for t in rec0["obs"]) or "0" not in recs:
            failures.append((c, {"prop": "C15", "reason": "long_prefix_failed", "call": 0, "detail": " ".join(rec0["obs"])[:200]}, nat, keep["native"][i], keep["model"][i]))
            continue
        f = recs["0"].split(":")
        total = int(f[2], 16)
        if total != ln * count:
            failures.append((c, {"prop": "C15", "reason": "total:%x!=%x" % (total, ln * count), "call": 0,
                                 "detail": "after %d submits of %d bytes" % (count, ln)}, nat, keep["native"][i], keep["model"][i]))
        by_algo.setdefault((c["algo"], c["T"]), []).append((c, recs["0"], nat, i))
        # independent oracle for the final digests
        h0 = hc.hashlib_new(c["algo"])
        if h0 is not None:
            key = (c["algo"], ln, count, seed)
            if key not in prefix_cache:
                piece = hc.big_buffer_bytes(seed, ln)
                for _ in range(count):
                    h0.update(piece)
                prefix_cache[key] = h0
            tails = {}
            for k, r in enumerate(nat["calls"]):
                cl = r["call"]
                if cl[0] == "S" and k < len(hc.parse_model(keep["model"][i])["cls"]) and hc.parse_model(keep["model"][i])["cls"][k] == "a":
                    tails.setdefault(int(cl[1]), bytearray()).extend(vlib.SplitMix64(int(cl[5], 16)).bytes(int(cl[3])))
                if r["kv"].get("st") == "4" and r["kv"].get("r", "-").isdigit():
                    cid = int(r["kv"]["r"])
                    h = prefix_cache[key].copy()
                    h.update(bytes(tails.get(cid, b"")))
                    rep.cov["hashlib_digests_compared"] = rep.cov.get("hashlib_digests_compared", 0) + 1
                    if h.digest() != hc.digest_bytes_of_words(c["algo"], r["kv"]["dg"]):
                        failures.append((c, {"prop": "C15", "reason": "digest:hashlib=" + h.hexdigest(), "call": k,
                                             "detail": "final digest of a %d-byte stream differs from hashlib" % (ln * count + len(tails.get(cid, b"")))},
                                         nat, keep["native"][i], keep["model"][i]))
    for (algo, T), lst in by_algo.items():
        ref = [x for x in lst if x[0]["fam"] == "base"] or lst
        for c, rec, nat, i in lst:
            if rec.split(":")[5] != ref[0][1].split(":")[5] or rec.split(":")[2] != ref[0][1].split(":")[2]:
                failures.append((c, {"prop": "C15", "reason": "cross_family", "call": 0,
                                     "detail": "state after the long prefix: %s/%s %s vs %s/%s %s" % (algo, c["fam"], rec[:120], algo, ref[0][0]["fam"], ref[0][1][:120])},
                                 nat, keep["native"][i], keep["model"][i]))
        rep.notes.setdefault("long_prefix_cross_family", {})["%s@%d" % (algo, T)] = sorted(x[0]["fam"] for x in lst)


def check_virtual(rep, cases, keep, failures):
    page = vlib.SplitMix64(0x5eed).bytes(4096)
    ref = {}
    by_algo = {}
    for i, c in zip(keep["ids"], cases):
        nat = hc.parse_native(keep["native"][i])
        B = hc.block(c["algo"])
        ln = (1 << 32) - B
        r = nat["calls"][0] if nat["calls"] else None
        if nat["abort"] or r is None or r["kv"].get("st") != "4":
            failures.append((c, {"prop": "C15", "reason": nat["abort"] or "status", "call": 0, "detail": keep["native"][i][:300]}, nat, keep["native"][i], ""))
            continue
        if int(r["kv"]["tl"], 16) != ln:
            failures.append((c, {"prop": "C15", "reason": "total:%s!=%x" % (r["kv"]["tl"], ln), "call": 0, "detail": "one submit of 2^32-B bytes"}, nat, keep["native"][i], ""))
        off = int(r["kv"].get("off", "0"))
        if c["algo"] not in ref:
            h = hc.hashlib_new(c["algo"])
            if h is not None:
                # the buffer starts `off` bytes into a page and is ln bytes of the repeated page
                h.update(page[off:])
                rest = ln - (4096 - off)
                mb = page * 256
                for _ in range(rest // len(mb)):
                    h.update(mb)
                h.update((page * (rest % len(mb) // 4096 + 1))[:rest % len(mb)])
                ref[c["algo"]] = (off, h.digest())
        if c["algo"] in ref and ref[c["algo"]][0] == off:
            rep.cov["hashlib_digests_compared"] = rep.cov.get("hashlib_digests_compared", 0) + 1
            if ref[c["algo"]][1] != hc.digest_bytes_of_words(c["algo"], r["kv"]["dg"]):
                failures.append((c, {"prop": "C15", "reason": "digest:hashlib=" + ref[c["algo"]][1].hex(), "call": 0,
                                     "detail": "single submit of 2^32-B bytes"}, nat, keep["native"][i], ""))
        by_algo.setdefault(c["algo"], []).append((c, r["kv"]["dg"], nat, i))
    for algo, lst in by_algo.items():
        for c, dg, nat, i in lst:
            if dg != lst[0][1]:
                failures.append((c, {"prop": "C15", "reason": "cross_family", "call": 0,
                                     "detail": "single 2^32-B submit: %s/%s %s vs %s/%s %s" % (algo, c["fam"], dg, algo, lst[0][0]["fam"], lst[0][1])}, nat, keep["native"][i], ""))


def run(tier, replay=None):
    pid = PID
    rep = vlib.Report(pid, "proof", tier, "cd coq && make Properties/C15.vo Gen/HashCfgGen.vo  (coqc 8.16.1, full .vo build)")
    rng = vlib.SplitMix64(vlib.seed() * 1000003 + 115)
    t0 = time.time()
    ok, broken = hc.coq_step(rep, pid)
    timing = {"coq_s": round(time.time() - t0, 1)}
    # lane level (checks/lanemgr.py, docs/lane-mgr.md): C06_lanes_every_configuration_wf + C15_lanes_packed_len_fits as
    # obligations of C15, and single submits at the limits of the packed lens[] word (background; joined below)
    try:
        from checks import lanemgr
        lanes = None if replay else lanemgr.c15_start(rep, tier)
    except ImportError:
        lanemgr = lanes = None
    dist = {}
    failures, wb = [], None
    all_pairs = hc.pairs()
    wok = hc.wrapper_pairs()
    rep.notes["dispatcher_binding_under_family_preset"] = {"%s/%s" % k: v for k, v in wok.items() if v != "ok"} or "every family is bound under its preset"
    bad = {"%s/%s" % (f["algo"], f["fam"]): f["why"] for f in hc.cfg()["fams"] if not f["understood"]}
    if bad:
        rep.notes["lane_configuration_not_understood"] = dict(bad, _consequence="header bound MAX_LANES used for these families; obligation gen_hfams_ok reported broken")
    if replay:
        failures, wb = hc.run_engine(rep, pid, [hc.replay_case(replay)], "01", dist, "replay", shards=1)
        if lanemgr:
            lanemgr.c15_replay(rep, replay, failures)     # a single V submit: digest against hashlib
    else:
        # (i) state injection: every pair, the three thresholds
        t1 = time.time()
        n_inj = {"quick": 6, "thorough": 80}[tier]
        cases = []
        for algo, family in all_pairs:
            for j in range(n_inj):
                for T in hc.THRESHOLDS.values():
                    cases.append(hc.gen_inject(rng, algo, family, "W" if rng.below(100) < 25 and wok.get((algo, family)) == "ok" else "D", T))
        f1, wb = hc.run_engine(rep, pid, cases, "01", dist)
        failures += f1
        timing["inject_s"] = round(time.time() - t1, 1)
        rep.notes["injection_cases"] = len(cases)
        # (ii) long streams with a checkpoint: quick = 2^29 on a rotating choice of pairs
        # (every algorithm, base always included as the cross-family reference), thorough = all
        # pairs at all three thresholds
        t2 = time.time()
        longs = []
        if tier == "quick":
            rot = vlib.seed() % 4
            for algo in hc.ALGOS:
                fams = [f for a, f in all_pairs if a == algo and f != "base"]
                pick = {"base", fams[rot % len(fams)], fams[(rot + 2) % len(fams)]}
                for f in sorted(pick):
                    longs.append(hc.gen_long(rng, algo, f, "D", 1 << 29))
        else:
            for algo, family in all_pairs:
                for T in hc.THRESHOLDS.values():
                    longs.append(hc.gen_long(rng, algo, family, "W" if rng.below(4) == 0 and wok.get((algo, family)) == "ok" else "D", T))
        keep = {}
        f2, wb2 = hc.run_engine(rep, pid, longs, "01", dist, "long", shards=min(len(longs), vlib.NCPU), keep=keep)
        failures += f2
        wb = wb or wb2
        check_long(rep, longs, keep, failures)
        timing["long_s"] = round(time.time() - t2, 1)
        rep.notes["long_stream_cases"] = ["%s/%s %s" % (c["algo"], c["fam"], c["aim"]) for c in longs]
        # (iii) one submit of 2^32-B bytes: quick = two rotating pairs, thorough = every pair
        t3 = time.time()
        if tier == "quick":
            virt = [hc.gen_virtual(*all_pairs[(vlib.seed() * 7 + j * 11) % len(all_pairs)]) for j in range(2)]
        else:
            virt = [hc.gen_virtual(a, f) for a, f in all_pairs]
        keep = {}
        f3, _ = hc.run_engine(rep, pid, virt, "", None, "virtual", shards=min(len(virt), vlib.NCPU), keep=keep)
        failures += [x for x in f3 if x[1]["prop"] == "ALL"]
        check_virtual(rep, virt, keep, failures)
        timing["virtual_s"] = round(time.time() - t3, 1)
        rep.notes["single_big_submit_cases"] = ["%s/%s" % (c["algo"], c["fam"]) for c in virt]
        if lanes:
            lanemgr.c15_finish(lanes, rep, failures, timing)
        mine = [x for x in failures if pid in x[1]["prop"] or x[1]["prop"] == "ALL"]
        if (not ok or wb) and not mine:
            more = []
            for algo, family in all_pairs:
                for j in range(n_inj * 4):
                    for T in hc.THRESHOLDS.values():
                        more.append(hc.gen_inject(rng, algo, family, "D", T))
            f4, _ = hc.run_engine(rep, pid, more, "0", dist, "search")
            failures += f4
            rep.notes["search_harder_cases"] = len(more)
    by_prop = hc.report(rep, pid, failures)
    rep.notes["failures_by_property"] = by_prop
    rep.notes["timing"] = timing
    rep.cov["traces_validated_against_impl"] = rep.cov["evaluations"]
    rep.cov["rule"] = ("(i) injection: per (algorithm, family) pair x threshold in {2^29, 2^32, 2^32+2^29}: histories over 1..lanes+2 contexts each written to "
                       "total = T - k*B + plen (k in {0,1,2,3,5}, plen from {0,1,B-1,B-8,B-9,B-16,B-17,B/2,random}) with an arbitrary chaining value, continued by "
                       "0-4 UPDATE segments and a LAST; (ii) long real streams: count x ~64 MiB on every lane up to T - k*B, then model/acceptor from the observed "
                       "state; (iii) one 2^32-B submit; distinct = distinct (pair, mode, history); non-trivial = a context handed back complete after a non-empty segment")
    rep.notes["input_distribution"] = {k2: dict(sorted(v.items(), key=lambda kv: str(kv[0]))) for k2, v in dist.items()}
    if not ok and not rep.violations:
        rep.violation("Coq obligation no longer checks: %s" % broken,
                      {"theorem_or_file": broken, "correspondence": "acceptor clean on %d histories" % rep.cov["evaluations"]}, no_input=True)
    if wb and not rep.violations:
        c, w, nline, mline = wb
        rep.violation("model/code correspondence broken (white-box) but the code still satisfies the specification on the larger search: %s/%s call #%d %s"
                      % (c["algo"], c["fam"], w["call"], w["what"][:300]),
                      {"correspondence": "L1 model started from the injected / observed state vs context fields after every call",
                       "algo": c["algo"], "fam": c["fam"], "mode": c["mode"], "nctx": c["nctx"], "ops": hc.concrete_ops(hc.parse_native(nline)),
                       "first_difference": w}, no_input=True)
    rep.assumptions = list(hc.ASSUMPTIONS) + [
        "the long prefix (up to 4 GiB + 512 MiB per context) cannot be run in the extracted model (about 1 ms per block): it is compared between all "
        "families of the algorithm including the plain C base family, and its final digests against Python hashlib (OpenSSL) as an independent oracle; "
        "the model and the Coq acceptor take over from the observed context state a few blocks before each threshold",
        "state injection writes the public struct fields digest / total_length / partial_block_buffer(_length) / status of an idle context",
    ]
    return rep.finish()
