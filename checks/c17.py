"""C17 — FIPS self-tests run exactly once under any interleaving; nobody passes early.

Coq: Properties/C17.v — for every number of threads, every schedule, both outcomes: at most one
run, a thread returns only after the run finished and with its verdict, all verdicts agree, no
crypto before a passed run, bounded-fair termination.  Proved through a certified thread-modular
checker (Model/SelfTestTM.v, Proofs/SelfTestTMFacts.v) that is evaluated on the instruction list
REGENERATED from the built objects (Gen/SelfTestGen.v, tr/selftest.py): the obligation
C17_checker_accepts_current_binary is `vm_compute`.
Tie: the translator reads the built asm_self_tests.o / self_tests.o; sequential conformance of the
real asm_check_self_tests_status / asm_set_self_tests_status / isal_self_tests with the extracted
interpreter from preset status words; stress runs of 2..128 threads released together through
different isal_* entry points with the self-test bodies interposed (run count, returns and crypto
entries ordered against the end of the run on a logical clock, both outcomes, real bodies, real
bodies made to fail).
Break: an exhaustive exploration of ALL schedules for n = 2, 3 of the regenerated program by the
extracted interpreter (ocaml/selftest_driver.ml); a violating schedule / fair cycle is the replay."""
import json, os, re, subprocess, sys
import vlib
sys.path.insert(0, os.path.join(vlib.VERIF, "tr"))
import selftest as tr_selftest

WRAPS = ["_aes_self_tests", "_sha_self_tests", "_aes_keyexp_128", "_aes_keyexp_192", "_aes_keyexp_256",
         "_aes_cbc_enc_128", "_aes_cbc_dec_128", "_aes_cbc_enc_256", "_aes_cbc_dec_256", "_aes_gcm_pre_128",
         "_aes_gcm_pre_256", "_XTS_AES_128_enc", "_XTS_AES_128_dec", "_XTS_AES_256_enc", "_XTS_AES_256_dec",
         "_sha1_ctx_mgr_init", "_sha256_ctx_mgr_init", "_sha512_ctx_mgr_init", "_sha256_ctx_mgr_submit",
         "_sha256_ctx_mgr_flush"]
DRIVERS = [("selftest", "Selftest")]
BOOL_ORACLES = [(0, 0), (0, 1), (1, 0), (1, 1)]
MAXSTATES = 3000000
_info = {}


def gen():
    d = vlib.build("fips")
    txt, info = tr_selftest.generate(os.path.join(d, "obj"), vlib.REPO)
    _info.clear()
    _info.update(info)
    return {"Gen/SelfTestGen.v": txt}


def ret_domain(info):
    """values the bodies can return according to the translated return expressions (tr/selftest.py
    mirrors Model/SelfTest.rexp_vals; used only to choose what to explore — the obligation itself
    is checked by Coq)"""
    return info.get("aes_values"), info.get("sha_values")


def coq_extra(name, body, timeout=600):
    """compile a per-run obligation outside the tree (it must not break the always-compiling
    development when the code under test is wrong); returns (ok, log)"""
    d = os.path.join(vlib.CACHE, "c17ob-%d" % os.getpid())
    os.makedirs(d, exist_ok=True)
    p = os.path.join(d, name + ".v")
    with open(p, "w") as fh:
        fh.write(body)
    try:
        rc, out = vlib.sh(["timeout", str(timeout), "coqc", "-q", "-Q", vlib.COQ, "ISAL", p], check=False, timeout=timeout + 30, cwd=d)
    except subprocess.TimeoutExpired:
        rc, out = 124, "timeout"
    for f in os.listdir(d):
        os.remove(os.path.join(d, f))
    os.rmdir(d)
    return rc == 0, out


HDR = ("From Coq Require Import NArith List.\nFrom ISAL Require Import Model.SelfTestSys Model.SelfTest Model.SelfTestTM Gen.SelfTestGen.\n"
       "Import ListNotations.\n")


def run_model(exe, lines, timeout=900):
    p = subprocess.run([exe], input="\n".join(lines) + "\n", stdout=subprocess.PIPE, stderr=subprocess.PIPE, text=True, timeout=timeout)
    out = {}
    for l in p.stdout.split("\n"):
        if l.strip():
            out[l.split()[0]] = l
    return out, p.stderr


def run_native(exe, lines, tmo=20, timeout=1800):
    p = subprocess.run([exe, str(tmo)], input="\n".join(lines) + "\n", stdout=subprocess.PIPE, stderr=subprocess.PIPE, text=True, timeout=timeout)
    out = {}
    for l in p.stdout.split("\n"):
        if l.strip():
            out.setdefault(l.split()[0], l)
    return out, p.stderr


def kv(line):
    return dict(t.split("=", 1) for t in line.split()[1:] if "=" in t)


def explore(rep, model_exe, oracles, ns, why):
    """explore all schedules; returns list of (oracle, n, line) violations (validated by replay)"""
    lines, meta = [], {}
    for (a, s) in oracles:
        for n in ns:
            cid = "x%d_%x_%x" % (n, a, s)
            lines.append("X %s %d %x %x %d" % (cid, n, a, s, MAXSTATES))
            meta[cid] = (n, a, s)
    # one process per line, in parallel
    import concurrent.futures as cf
    def one(l):
        return run_model(model_exe, [l])[0]
    res = {}
    with cf.ThreadPoolExecutor(min(vlib.NCPU, len(lines) or 1)) as ex:
        for r in ex.map(one, lines):
            res.update(r)
    viol, states = [], 0
    for cid, (n, a, s) in meta.items():
        l = res.get(cid, cid + " <no-output>")
        t = l.split()
        rep.case(("explore", cid), True)
        if len(t) > 1 and t[1] == "ok":
            states += int(kv(l).get("states", "0"))
            continue
        viol.append(((a, s), n, l))
    rep.notes.setdefault("explorer", []).append({"why": why, "oracles": ["%x,%x" % o for o in oracles], "threads": list(ns),
                                                 "global_states_enumerated": states, "violations": len(viol)})
    return viol


def schedule_replay(model_exe, n, a, s, sched, cycle=None):
    l = "R r %d %x %x %s" % (n, a, s, sched) + (" " + cycle if cycle else "")
    out, _ = run_model(model_exe, [l])
    return out.get("r", "r <no-output>")


def is_violation_line(rl, with_cycle):
    if "safety=none" not in rl and "safety=" in rl:
        return True
    if with_cycle and "cycle_repeats=true" in rl and "all_waiting_move=true" in rl:
        return True
    return False


def report_schedule(rep, model_exe, o, n, xl, info, coq_checked=None):
    """turn an explorer line into a validated replay"""
    f = kv(xl)
    a, s = o
    kind = xl.split()[1]
    sched, cycle = f.get("sched", "-"), f.get("cycle") if kind == "live" else None
    rl = schedule_replay(model_exe, n, a, s, sched, cycle)
    confirmed = is_violation_line(rl, cycle is not None)
    st = re.search(r"status=([0-9a-f]+)", rl)
    word = st.group(1) if st else "?"
    if kind == "live":
        what = "model of the current binary, %d threads, outcome (%x,%x): a fair cycle — threads %s wait forever (status=%s)" % (n, a, s, f.get("waiting"), word)
        sig = {"kind": "wait_forever", "outcome": "%x,%x" % (a, s)}
    else:
        what = "model of the current binary, %d threads, outcome (%x,%x): %s" % (n, a, s, rl)
        nonbool = (a not in (0, 1)) or (s not in (0, 1))
        sig = {"kind": "rerun_after_nonboolean_verdict" if nonbool and "runs=2" in rl else "safety", "verdict_word": word if nonbool else "", "outcome": "%x,%x" % (a, s)}
    replay = {"kind": "schedule", "n": n, "a": "%x" % a, "s": "%x" % s, "sched": sched, "cycle": cycle,
              "explorer": xl[:600], "replayed_by_extracted_interpreter": rl[:400], "confirmed": confirmed,
              "listing": info.get("listing", []), "how": "each schedule element = one machine instruction of that thread (index into listing)"}
    if coq_checked is not None:
        replay["kernel_checked_counterexample"] = coq_checked
    if not confirmed:
        rep.violation("explorer reported a violation that the extracted interpreter does not reproduce: " + xl[:200], replay, no_input=True)
        return
    rep.violation(what, replay, sig)


def eval_stress(line, out, n, mode, a, s):
    """-> (list of problems, signature)"""
    if out.split()[1:2] == ["skipped"]:
        return [], {"kind": "skipped"}
    if out.split()[1:2] in (["timeout"], ["crashed"]):
        return ["native run %s: a thread never returned" % out.split()[1]], {"kind": "wait_forever_native"}
    f = kv(out)
    try:
        g = lambda k: int(f[k])
        pass_exp = {"inject": (a | s) == 0, "real": True, "realfail-sha": False, "realfail-aes": False}[mode]
        probs = []
        if g("runs_aes") != 1 or g("runs_sha") != 1:
            probs.append("self-tests entered %d/%d times by %d simultaneous first calls" % (g("runs_aes"), g("runs_sha"), n))
        if g("early_ret"):
            probs.append("%d calls returned before the self-tests finished" % g("early_ret"))
        if g("early_crypto"):
            probs.append("%d crypto entries before the self-tests finished" % g("early_crypto"))
        if g("other") or g("later_other"):
            probs.append("unexpected return values")
        if pass_exp and g("ok") != n:
            probs.append("%d of %d calls did not return success after a passed run" % (n - g("ok"), n))
        if not pass_exp and g("err") != n:
            probs.append("%d of %d calls did not return ISAL_CRYPTO_ERR_SELF_TEST after a failed run" % (n - g("err"), n))
        if g("later_runs_aes"):
            probs.append("%d later calls ran the self-tests again" % g("later_runs_aes"))
        if (pass_exp and g("later_err")) or (not pass_exp and g("later_ok")):
            probs.append("later calls saw a different verdict")
        word = f.get("status", "?")
        sig = {"kind": "rerun_after_nonboolean_verdict" if word not in ("0", "1") and (g("runs_aes") > 1 or g("later_runs_aes")) else "stress",
               "verdict_word": word if word not in ("0", "1") else ""}
        return probs, sig
    except (KeyError, ValueError):
        return ["unparsable native output: " + out[:200]], {"kind": "harness"}


def run(tier, replay=None):
    rep = vlib.Report("C17", "proof", tier, "cd coq && make Properties/C17.vo  (coqc 8.16.1, full .vo build; obligation C17_checker_accepts_current_binary = vm_compute of the certified checker on Gen/SelfTestGen.v)")
    rng = vlib.SplitMix64(vlib.seed() * 1000003 + 17)
    g = gen()
    info = dict(_info)
    ok, broken = vlib.coq_step(rep, "C17", g, extract="Selftest", timeout=900)
    model_exe = vlib.ocaml_driver("selftest", "Selftest")
    impl_exe = vlib.cc_harness("selftest", ["selftest_drv.c", "vcpuid.S"], "fips", extra=["-Wl," + ",".join("--wrap=" + w for w in WRAPS)])
    rep.notes["program"] = {"instructions": info.get("n_instr"), "padding_dropped": info.get("dropped_padding"), "labels": info.get("labels"),
                            "init_status": info.get("init_status"), "translate_error": info.get("error"), "listing": info.get("listing")}
    labels = {n: k for k, n in info.get("labels", [])}

    if replay:
        r = json.load(open(replay))["replay"]
        if r.get("kind") == "schedule":
            rl = schedule_replay(model_exe, r["n"], int(r["a"], 16), int(r["s"], 16), r["sched"], r.get("cycle"))
            rep.case(("replay", r["sched"]), True)
            if is_violation_line(rl, r.get("cycle") is not None):
                rep.violation("replayed schedule on the current binary's model: " + rl[:300], dict(r, replayed_now=rl[:400]),
                              {"kind": "rerun_after_nonboolean_verdict" if "runs=2" in rl and (r["a"] not in ("0", "1") or r["s"] not in ("0", "1")) else "safety",
                               "verdict_word": (re.search(r"status=([0-9a-f]+)", rl) or [None, ""])[1] if (r["a"] not in ("0", "1") or r["s"] not in ("0", "1")) else ""})
        elif r.get("kind") == "stress":
            t = r["line"].split()
            out, _ = run_native(impl_exe, [r["line"]])
            o = out.get(t[1], t[1] + " <no-output>")
            probs, sig = eval_stress(r["line"], o, int(t[2]), t[3], int(t[4], 16), int(t[5], 16))
            rep.case(("replay", r["line"]), True)
            if probs:
                rep.violation("; ".join(probs), dict(r, observed_now=o), sig)
        elif r.get("kind") == "conformance":
            mo, _ = run_model(model_exe, [r["line"]])
            no, _ = run_native(impl_exe, [r["line"]])
            cid = r["line"].split()[1]
            rep.case(("replay", r["line"]), True)
            if mo.get(cid) != no.get(cid):
                rep.violation("interpreter and real code differ: %s vs %s" % (mo.get(cid), no.get(cid)), r, no_input=True)
        return rep.finish()

    # ---------------------------------------------------------------- 1. outcome domain of the bodies
    adom, sdom = ret_domain(info)
    rep.notes["body_return_values"] = {"_aes_self_tests": None if adom is None else ["%x" % v for v in adom],
                                       "_sha_self_tests": None if sdom is None else ["%x" % v for v in sdom]}
    dom_ok, dom_log = coq_extra("C17Domain", HDR + "Theorem C17_verdict_domain : boolean_verdicts aes_returns = true /\\ boolean_verdicts sha_returns = true.\n"
                                "Proof. vm_compute. split; reflexivity. Qed.\n")
    extras = []
    if adom is not None and sdom is not None:
        extras = [(a, s) for a in adom for s in sdom if (a, s) not in BOOL_ORACLES]
    nviol0 = len(rep.violations) + len(rep.known_hits)
    if dom_ok:
        rep.obligation("C17_verdict_domain (per-run, outside the tree: the translated bodies return only 0 or 1)", True)
    else:
        # the bodies can hand something else than 0/1 to the publish step: decide by exploration
        found = explore(rep, model_exe, extras, (2, 3), "self-test bodies can return values outside {0,1}") if extras else []
        if found:
            o, n, xl = found[0]
            f = kv(xl)
            sched_coq = "[" + ";".join(f.get("sched", "").split(",")) + "]" if f.get("sched", "-") != "-" else "[]"
            cx_ok, _ = coq_extra("C17Refuted", HDR + "Example C17_refuted_on_current_binary : exists k, safety_violation errv (%d, %d)%%N (st_exec prog (%d, %d)%%N (st_init init_status entry %d) %s%%list) = Some k.\n"
                                 "Proof. eexists. vm_compute. reflexivity. Qed.\n" % (o[0], o[1], o[0], o[1], n, sched_coq)) if xl.split()[1] == "safety" else (None, "")
            rep.obligation("C17_verdict_domain (per-run): bodies return %s / %s" % (rep.notes["body_return_values"]["_aes_self_tests"], rep.notes["body_return_values"]["_sha_self_tests"]), False,
                           "refuted by a schedule; kernel-checked counterexample: %s" % cx_ok)
            report_schedule(rep, model_exe, o, n, xl, info, coq_checked=cx_ok)
        elif extras:
            ex_ok, ex_log = coq_extra("C17Extra", HDR + "Theorem C17_extra_outcomes : forallb (st_check1 prog init_status entry errv) [%s]%%N = true.\nProof. vm_compute. reflexivity. Qed.\n"
                                      % "; ".join("(%d, %d)" % o for o in extras), timeout=400)
            rep.obligation("C17_extra_outcomes (per-run): the checker accepts the program also for the non-boolean body results %s" % ["%x,%x" % o for o in extras], ex_ok,
                           "" if ex_ok else "the verdict word can be outside {0,1}; no violating schedule for 2 and 3 threads")
            if not ex_ok:
                rep.violation("self-test bodies can return %s; the checker does not accept the program for these outcomes, exploration of 2 and 3 threads finds no violation" % ["%x,%x" % o for o in extras],
                              {"theorem": "C17_extra_outcomes", "outcomes": ["%x,%x" % o for o in extras]}, no_input=True)
        else:
            rep.obligation("C17_verdict_domain (per-run)", False, "return shapes of the self-test bodies not understood by the translator: %s" % info.get("shapes"))
            rep.violation("cannot determine what the self-test bodies return (translator fails closed)", {"theorem": "C17_verdict_domain", "shapes": info.get("shapes")}, no_input=True)

    # ---------------------------------------------------------------- 2. exploration of the regenerated program
    ns = (2, 3)
    if info.get("error"):
        found = []      # nothing was translated (fail closed): the dynamic half has to decide
        rep.notes.setdefault("explorer", []).append({"skipped": "translation failed: " + info["error"][:300]})
    else:
        found = explore(rep, model_exe, BOOL_ORACLES, ns, "every run" if ok else "Coq obligation broken: %s" % (broken or {}).get("error", "")[:200])
    for o, n, xl in found[:3]:
        report_schedule(rep, model_exe, o, n, xl, info)
    deferred_no_input = None
    if not ok and not found:
        deferred_no_input = ("Coq obligation no longer checks (%s) and the exhaustive exploration of 2 and 3 threads finds no violating schedule" % (broken or {}).get("error", "")[:300],
                      {"theorem_or_file": broken, "theorem": "C17_checker_accepts_current_binary", "translate_error": info.get("error"),
                       "listing": info.get("listing")})

    # ---------------------------------------------------------------- 3. sequential conformance
    q = []
    words = [0, 1, 2, 4, 5, 6, 7, 0xffffffff, 0x80000002, 0x100] + [rng.next() & 0xffffffff for _ in range(6)]
    words = [w for w in words if w != 3]
    if "asm_check_self_tests_status" in labels:
        pcc = labels["asm_check_self_tests_status"]
        for w in words:
            q.append("Q qc%x check %d %x -" % (w, pcc, w))
        for pub in (0, 1, 0xffffffff, 5):
            q.append("Q qc3_%x check %d 3 %x" % (pub, pcc, pub))
    if "asm_set_self_tests_status" in labels:
        for w in (0, 1, 2, 3, 0xffffffff):
            for arg in (0, 1, 2, 3, 0xffffffff, rng.next() & 0xffffffff):
                q.append("Q qs%x_%x set %d %x %x" % (w, arg, labels["asm_set_self_tests_status"], w, arg))
    if "isal_self_tests" in labels:
        for w in (2, 0, 1, 0xffffffff, 5, 6):
            for (a, s) in BOOL_ORACLES + [(0, 0xffffffff), (1, 0xffffffff), (0xffffffff, 0), (2, 0), (0, 3)]:
                q.append("Q qf%x_%x_%x full %d %x %x %x" % (w, a, s, labels["isal_self_tests"], w, a, s))
    mo, _ = run_model(model_exe, q)
    try:
        no, nerr = run_native(impl_exe, q, tmo=8, timeout=600)
    except subprocess.TimeoutExpired:
        no, nerr = {}, "timeout" 
    diffs = []
    for l in q:
        cid = l.split()[1]
        rep.case(("seq", l), True)
        if mo.get(cid) != no.get(cid):
            diffs.append((l, mo.get(cid), no.get(cid)))
    rep.cov["traces_validated_against_impl"] = len(q)
    for l in q[:3]:
        rep.sample({"case": l, "model": mo.get(l.split()[1]), "impl": no.get(l.split()[1])})

    # ---------------------------------------------------------------- 4. stress: simultaneous first calls
    mult = {"quick": 1, "thorough": 12}[tier]
    plan = []
    for k in range(6 * mult): plan.append((64, "inject", 0, 0, 0))
    for k in range(4 * mult): plan.append((64, "inject", 0, 0, 300))
    for k in range(3 * mult): plan.append((64, "inject", 1, 0, 200 if k % 2 else 0))
    for k in range(3 * mult): plan.append((64, "inject", 0, 1, 200 if k % 2 else 0))
    for k in range(2 * mult): plan.append((64, "inject", 1, 1, 0))
    for n in (1, 2, 3, 16, 128): plan.append((n, "inject", 0, 0, 100))
    for k in range(8 * mult): plan.append((64, "real", 0, 0, 0))
    for k in range(2 * mult): plan.append((64, "real", 0, 0, 150))
    for k in range(2 * mult): plan.append((64, "realfail-aes", 0, 0, 0))
    for k in range(2 * mult): plan.append((64, "realfail-sha", 0, 0, 0))
    slines = ["S s%d %d %s %x %x %d 8" % (k, n, mode, a, s, d) for k, (n, mode, a, s, d) in enumerate(plan)]
    # in chunks: when threads wait forever every case costs its whole timeout, so stop early
    so = {}
    for k in range(0, len(slines), 6):
        try:
            o, _ = run_native(impl_exe, slines[k:k + 6], tmo=8, timeout=120)
        except subprocess.TimeoutExpired:
            o = {l.split()[1]: l.split()[1] + " timeout" for l in slines[k:k + 6]}
        so.update(o)
        if sum(1 for v in o.values() if v.split()[1:2] == ["timeout"]) >= 2:
            for l in slines[k + 6:]:
                so[l.split()[1]] = l.split()[1] + " skipped"
            break
    dist = {}
    nrep = 0
    for l, (n, mode, a, s, d) in zip(slines, plan):
        cid = l.split()[1]
        o = so.get(cid, cid + " <no-output>")
        rep.case(("stress", l), True)
        dist["%s n=%d" % (mode, n)] = dist.get("%s n=%d" % (mode, n), 0) + 1
        probs, sig = eval_stress(l, o, n, mode, a, s)
        if probs and nrep < 4:
            if rep.violation("real library, %d threads released together (%s): %s" % (n, mode, "; ".join(probs)),
                             {"kind": "stress", "line": l, "observed": o, "mode_meaning": "realfail-sha = the real self-test bodies run, one SHA-256 digest word is corrupted inside the run"},
                             sig):
                nrep += 1
    if slines:
        rep.sample({"case": slines[0], "impl": so.get("s0")})
    rep.cov["traces_validated_against_impl"] += len(slines)

    if deferred_no_input and not rep.violations:
        rep.violation(deferred_no_input[0], deferred_no_input[1], no_input=True)
    if diffs and not rep.violations:
        l, m, i = diffs[0]
        rep.violation("the interpreter of the translated program and the real code differ on a sequential call: model `%s` impl `%s`" % (m, i),
                      {"kind": "conformance", "correspondence": "sequential conformance", "line": l, "model": m, "impl": i, "n_differences": len(diffs)}, no_input=True)

    rep.cov["rule"] = ("evaluations = global states' schedules explored exhaustively for 2 and 3 threads x 4 outcome pairs (each exploration = one case) + sequential conformance "
                       "cases (preset status word x {check, set, full call} x outcomes, model vs real code) + stress rounds (threads x mode x injected outcome x delay), each a fresh process; "
                       "distinct = distinct case lines")
    rep.notes["input_distribution"] = {"sequential_conformance_cases": len(q), "status_words": ["%x" % w for w in words] + ["3 (+publisher)"],
                                       "stress_rounds": dist}
    rep.assumptions = ["sequentially consistent memory: x86-TSO store buffering is not modelled; `lock cmpxchg` and aligned dword loads/stores are atomic",
                       "every thread starts with zeroed registers in the model; the sequential conformance runs the real code with junk in all scratch registers",
                       "the self-test bodies are one abstract step each (enter-count and result); external calls clobber the caller-saved registers with a fixed junk value",
                       "the wrapper shape `if (isal_self_tests()) return ERR; crypto` is hand-modelled (one crypto step after a 0 return); C16 checks it per wrapper",
                       "fips/self_tests_generic.c (non-x86 fallback) is not compiled on x86-64 and is out of scope",
                       "theorems quantify over body results in {0,1}; what the bodies of the current tree can return is re-derived from the clang AST on every run (per-run obligation C17_verdict_domain)"]
    return rep.finish()
