"""C13 — FIPS build fails closed.

Coq: Properties/C13.v — verified checker over the wrapper bodies regenerated with -DFIPS_MODE
(Gen/WrappersFipsGen.v, incl. the translated isal_self_tests): for every approved entry point,
every self-test status / outcome and every otherwise-valid argument valuation: failed status =>
self-test error, no write, no crypto symbol; not-run => both self-test runs precede any work
and a failure blocks the call; non-approved => invalid-algorithm error with an empty trace; XTS:
identical keys (raw / expanded) => refused before anything is called.
Tie: FIPS-mode library; status set through asm_set_self_tests_status / self-test outcomes
injected by interposing _aes_self_tests/_sha_self_tests / untouched in a fresh process; every
entry with valid arguments; return code and internal calls must equal the extracted
interpreter's prediction and satisfy the extracted acceptor judge_13; real kernels with a failed
status: outputs untouched; XTS with equal raw keys and with schedules of one key."""
import json, os, sys
import vlib
from checks import wrap_common as wc
from checks import c16
sys.path.insert(0, os.path.join(vlib.VERIF, "tr"))
import wrappers

PID = "C13"


def gen():
    return wc.gen()


DRIVERS = [("wrap", "Wrappers")]

# status value 3 (RUNNING) makes asm_check_self_tests_status wait for the running thread: C17's subject
STATUS = [(0, None, None), (1, None, None), (2, 0, 0), (2, 1, 0), (2, 0, 1), (2, 1, 1)]


class Case(c16.Case):
    __slots__ = ("status", "aes", "sha", "bufs")

    def __init__(self, cid, entry, eid, args, mode="s", status=0, aes=None, sha=None, bufs=None):
        c16.Case.__init__(self, cid, entry, eid, args, mode)
        self.status, self.aes, self.sha, self.bufs = status, aes, sha, bufs or {}


def key_material(ctx, rng):
    """XTS key scenarios: name -> {bits: (k2 bytes, k1 bytes)} for raw and expanded entries"""
    lines = []
    keys = {}
    for bits in (128, 256):
        for nm in ("a", "b"):
            keys[(bits, nm)] = rng.bytes(bits // 8)
            lines.append("K k%d%s %d %s" % (bits, nm, bits, keys[(bits, nm)].hex()))
    out = ctx.native_lines(lines, shards=1)
    sched = {}
    for bits in (128, 256):
        for nm in ("a", "b"):
            t = out["k%d%s" % (bits, nm)].split()
            sched[(bits, nm)] = (bytes.fromhex(t[1]), bytes.fromhex(t[2]))
    return keys, sched


def xts_scenarios(name, keys, sched):
    """-> list of (label, k2 bytes, k1 bytes, keys_identical?)"""
    bits = 128 if "128" in name else 256
    ka, kb = keys[(bits, "a")], keys[(bits, "b")]
    (ea, da), (eb, db) = sched[(bits, "a")], sched[(bits, "b")]
    if "expanded" not in name:
        return [("raw_different", ka, kb, False), ("raw_identical", ka, ka, True)]
    if "_enc_" in name:
        return [("exp_different", ea, eb, False), ("exp_identical", ea, ea, True)]
    # decryption with expanded keys: k2 = encryption schedule of the tweak key, k1 = decryption
    # schedule of the data key
    return [("exp_different", ea, db, False), ("exp_identical", ea, da, True), ("exp_same_bytes", ea, ea, False)]


def assignment(ctx, c, cand_keys, ptr_vals=None):
    """model assignment of a case: arguments, status, self-test outcomes, memcmp observations"""
    params = ctx.params(c.entry)
    out = []
    for i, (p, a) in enumerate(zip(params, c.args)):
        if p[1] == "CPtr":
            v = 0 if a == "n" else (int(ptr_vals[i], 16) if ptr_vals else 1)
        else:
            v = a
        out.append("A%d=%x" % (i, v))
    out.append("S=%x" % c.status)
    if c.aes is not None:
        out.append("X%d.0=%x" % (ctx.names["_aes_self_tests"], c.aes))
        out.append("X%d.0=%x" % (ctx.names["_sha_self_tests"], c.sha))
    for k in sorted(set(cand_keys) | set(ctx.samekeys.get(c.eid, []))):
        mk = wc.key_memcmp(k)
        if mk:
            a, oa, b, ob, n = mk
            ba, bb = c.bufs.get(a, b""), c.bufs.get(b, b"")
            eq = ba[oa:oa + n] == bb[ob:ob + n] and len(ba) >= oa + n
            out.append("%s=%x" % (k, 0 if eq else 1))
    return " ".join(out)


def build_cases(ctx, tier, rng):
    cand_lines = ["cands k%d 13 %d" % (e, e) for e in ctx.entry_ids]
    cands = {int(k[1:]): wc.parse_cands(v) for k, v in ctx.model_lines(cand_lines, shards=1).items()}
    keys, sched = key_material(ctx, rng)
    cases = []
    dist = {}
    for eid in ctx.entry_ids:
        name = ctx.byid[eid]
        cls = ctx.cls[eid]
        if cls == 2:
            continue
        params = ctx.params(name)
        pidx = [i for i, p in enumerate(params) if p[1] == "CPtr"]
        sidx = [i for i, p in enumerate(params) if p[1] != "CPtr"]
        # scalar tuples: the region candidates (the in-domain ones are selected by the model below)
        import itertools
        pool = list(itertools.islice(itertools.product(*[sorted(set(cands[eid].get("A%d" % i, [0]) + [16, 64])) for i in sidx]), 600))
        if cls == 1:
            pool = pool[:3]
        scen = xts_scenarios(name, keys, sched) if "_xts_" in name else [("-", None, None, False)]
        n = 0
        for tup in pool:
            for label, k2, k1, ident in scen:
                for st, aes, sha in STATUS:
                    for nullmask in ([0] if cls == 0 else [0, (1 << len(pidx)) - 1]):
                        args = [None] * len(params)
                        for b, i in enumerate(pidx):
                            args[i] = "n" if (nullmask >> b) & 1 else "g"
                        for i, v in zip(sidx, tup):
                            args[i] = v
                        bufs = {}
                        if k2 is not None:
                            bufs = {0: k2, 1: k1}
                        c = Case("%d.%d" % (eid, n), name, eid, args, "s", st, aes, sha, bufs)
                        c.why = label
                        cases.append(c)
                        n += 1
        dist[name] = n
    return cases, dist, cands


def predict(ctx, cases, cands):
    lines = ["run %s 1 %d %s" % (c.cid, c.eid, assignment(ctx, c, cands[c.eid].keys())) for c in cases]
    out = ctx.model_lines(lines)
    vout = ctx.model_lines(["view %s %d %s" % (c.cid, c.eid, assignment(ctx, c, cands[c.eid].keys())) for c in cases])
    for c in cases:
        c.pred = wc.parse_model_run(out[c.cid])
        c.spec = wc.parse_model_run(vout[c.cid]).get("spec", "")


def native_line(ctx, c):
    toks, local_call = c16.native_args(ctx, c)
    # key material: exactly the documented bytes, ending flush against a PROT_NONE page, so that
    # a comparison reading past the documented key size faults
    for i, b in c.bufs.items():
        if toks[i] != "n" and len(b):
            toks[i] = "e:" + b.hex()
    if c.mode == "r":
        toks = [("v" if t == "g" else t) for t in toks]
    sp = ctx.spec[c.eid]
    c.stubret = 0 if (sp["store"] is not None or sp["ret"] == "mapped") else 7
    return "N %s %s %s %s %s %s %x %s" % (c.cid, c.entry, c.mode, "-" if c.status is None else c.status,
                                          "-" if c.aes is None else c.aes, "-" if c.sha is None else c.sha,
                                          c.stubret, " ".join(toks))


def describe(c):
    d = c16.describe(c)
    d.update({"status": {0: "passed", 1: "failed", 2: "not run", None: "untouched"}.get(c.status, "not run (value %s)" % c.status),
              "status_value": c.status, "aes_self_tests_returns": c.aes, "sha_self_tests_returns": c.sha, "keys": c.why,
              "key_bytes": {str(i): b.hex() for i, b in c.bufs.items()}, "mode_code": c.mode})
    return d


def solve_memcmp(atoms, rng):
    """bytes for pointer arguments such that every memcmp observation M(Ai,oi,Aj,oj,n) has the
    value the counterexample assigns (0: the slices are equal, else: they differ).
    atoms: {(i, oi, j, oj, n): value}.  -> {arg: bytes} or None when not realisable this way."""
    size = {}
    for (i, oi, j, oj, n), v in atoms.items():
        size[i] = max(size.get(i, 0), oi + n)
        size[j] = max(size.get(j, 0), oj + n)
    if not size or max(size.values()) > 4096:
        return None
    buf = {a: bytearray(rng.bytes(sz)) for a, sz in size.items()}
    # start from buffers that differ at every position of every compared pair
    for (i, oi, j, oj, n), v in atoms.items():
        for t in range(n):
            if buf[i][oi + t] == buf[j][oj + t]:
                buf[j][oj + t] ^= 0x5a
    pinned = {a: set() for a in size}
    for _ in range(3):
        for (i, oi, j, oj, n), v in atoms.items():
            if v == 0:
                buf[j][oj:oj + n] = buf[i][oi:oi + n]
                pinned[j].update(range(oj, oj + n))
                pinned[i].update(range(oi, oi + n))
    for (i, oi, j, oj, n), v in atoms.items():
        if v != 0 and buf[i][oi:oi + n] == buf[j][oj:oj + n]:
            free = [t for t in range(n) if (oj + t) not in pinned[j]] or [t for t in range(n) if (oi + t) not in pinned[i]]
            if not free:
                return None
            t = free[-1]
            if (oj + t) not in pinned[j]:
                buf[j][oj + t] ^= 0xff
            else:
                buf[i][oi + t] ^= 0xff
    for (i, oi, j, oj, n), v in atoms.items():
        if (buf[i][oi:oi + n] == buf[j][oj:oj + n]) != (v == 0):
            return None
    return {a: bytes(b) for a, b in buf.items()}


def cex_case(ctx, eid, line, rng):
    """the counterexample world of a failing check13 obligation as a native case: arguments, status,
    self-test outcomes and key bytes realising every memcmp observation of the assignment"""
    name = ctx.byid[eid]
    params = ctx.params(name)
    asg = dict(t.split("=", 1) for t in line.split() if "=" in t and not t.startswith("unsupported"))
    args = []
    for i, p in enumerate(params):
        v = int(asg.get("A%d" % i, "0"), 16)
        args.append(("n" if v == 0 else "g") if p[1] == "CPtr" else v)
    st = int(asg.get("S", "0"), 16)
    aes = int(asg.get("X%d.0" % ctx.names["_aes_self_tests"], "0"), 16)
    sha = int(asg.get("X%d.0" % ctx.names["_sha_self_tests"], "0"), 16)
    atoms = {}
    for k, v in asg.items():
        mk = wc.key_memcmp(k)
        if mk:
            atoms[mk] = int(v, 16)
    bufs = solve_memcmp(atoms, rng) if atoms else {}
    if bufs is None:
        return None
    if st == 3:
        return None          # RUNNING: asm_check_self_tests_status would wait for another thread (C17)
    c = Case("%d.cex" % eid, name, eid, args, "s", st, aes if st not in (0, 1) else None, sha if st not in (0, 1) else None, bufs)
    c.why = "counterexample of check13"
    return c


def case_from_replay(ctx, r):
    eid = ctx.names[r["entry"]]
    args = [("n" if a == "NULL" else ("g" if a == "ptr" else int(a, 16))) for a in r["args"]]
    bufs = {int(i): bytes.fromhex(h) for i, h in r.get("key_bytes", {}).items()}
    c = Case("%d.replay" % eid, r["entry"], eid, args, r.get("mode_code", "s"), r.get("status_value"),
             r.get("aes_self_tests_returns"), r.get("sha_self_tests_returns"), bufs)
    c.why = r.get("keys", "replay")
    return c


def run(tier, replay=None):
    rep = vlib.Report(PID, "proof", tier, "cd coq && make Properties/C13.vo  (coqc 8.16.1, full .vo build)")
    rng = vlib.SplitMix64(vlib.seed() * 1000003 + 13)
    try:
        files = gen()
    except wrappers.Unsupported as e:
        rep.obligation("translator: every construct of the wrapper bodies is in the mini-C subset", False, str(e))
        rep.violation("translator failed closed: %s" % e, {"correspondence": "tr/wrappers.py", "detail": str(e)}, no_input=True)
        return rep.finish()
    rep.obligation("translator: every construct of the wrapper bodies is in the mini-C subset", True)
    ok, broken = vlib.coq_step(rep, PID, files, extract="Wrappers")
    ctx = wc.Ctx("fips")
    rep.obligation("every exported isal_ entry point has exactly one specification row", ctx.covers)
    if not ctx.covers:
        rep.violation("specification table does not cover the exported entry points", {"correspondence": "Spec/WrapperSpec.specs vs nm"}, no_input=True)
    verd = ctx.model_lines(["verdict b%d 13 %d" % (e, e) for e in ctx.entry_ids])
    failing = {}
    for e in ctx.entry_ids:
        v = verd["b%d" % e]
        rep.obligation("check13 %s" % ctx.byid[e], " ok" in v, v if " ok" not in v else "")
        if " ok" not in v:
            failing[e] = v

    cases, dist, cands = build_cases(ctx, tier, rng)
    if replay and "args" not in json.load(open(replay))["replay"]:
        replay = None          # a replay that names a theorem / correspondence: run everything
    if replay:
        cases = [case_from_replay(ctx, json.load(open(replay))["replay"])]
    else:
        # the counterexample world of every failing obligation is run natively as it stands
        for e, line in failing.items():
            cc = cex_case(ctx, e, line, rng)
            if cc is not None:
                cases.append(cc)
    predict(ctx, cases, cands)
    # real kernels behind a failed gate: outputs must stay untouched
    extra = []
    seen = set()
    for c in cases:
        if c.status == 1 and ctx.cls[c.eid] == 0 and "n" not in c.args and (c.entry, c.why) not in seen and \
                all((not isinstance(a, int)) or a <= 4096 for a in c.args) and "1" not in (c.spec or "1")[1:-1]:
            seen.add((c.entry, c.why))
            r = Case(c.cid + "r", c.entry, c.eid, list(c.args), "r", 1, None, None, c.bufs)
            r.why, r.pred, r.spec = c.why, c.pred, c.spec
            extra.append(r)
    cases += extra
    lines = [native_line(ctx, c) for c in cases]
    out = ctx.native_lines(lines)
    for c in cases:
        c.nat = wc.parse_native(out[c.cid])
    jl = []
    for c in cases:
        if "ptrs" not in c.nat:
            continue
        actual = c.nat["ptrs"].split(",") if c.nat["ptrs"] != "-" else []
        sp = ctx.spec[c.eid]
        stores = set() if sp["store"] is None else {sp["store"]}
        jl.append(wc.judge_line(c.cid, "13", c.eid, c.nat, c.stubret, None, assignment(ctx, c, cands[c.eid].keys(), actual), real=(c.mode == "r"), stores=stores))
    jout = ctx.model_lines(jl)
    verdicts = {k: (v.split()[1] if len(v.split()) > 1 else "?") for k, v in jout.items()}
    wb = None
    sigs_seen = set()
    kinds = {}
    for c in cases:
        rep.case((c.entry, tuple(c.args), c.mode, c.status, c.aes, c.sha, c.why), True)
        kinds[describe(c)["status"]] = kinds.get(describe(c)["status"], 0) + 1
        v = verdicts.get(c.cid, "?")
        if v != "accept":
            ret = c.nat.get("ret", "?")
            if c.nat.get("fault") == "1":
                kind = "fault"
            elif "identical" in c.why or (c.spec or "0")[-1:] == "1":
                kind = "identical_keys_not_refused"
            elif c.status == 1:
                kind = "failed_status_not_blocking"
            elif ctx.cls[c.eid] == 1:
                kind = "non_approved_not_refused"
            else:
                kind = "gate_order_or_result"
            sig = {"entry": c.entry, "kind": kind}
            if (c.entry, kind) not in sigs_seen:
                sigs_seen.add((c.entry, kind))
                d = describe(c)
                rep.violation("%s(%s) status=%s keys=%s [%s]: returned 0x%s, fault=%s, internal calls %s, buffers changed %s — rejected by the property's acceptor (%s)" % (
                    c.entry, ", ".join(d["args"]), d["status"], c.why, d["mode"], ret, c.nat.get("fault"),
                    [ctx.byid.get(int(x.split("(")[0]), x) for x in c.nat.get("calls", [])], c.nat.get("chg"), kind),
                    dict(d, native=c.nat["raw"][:400], model=c.pred["raw"][:400]), sig)
        if c.mode == "s":
            dd = wc.compare_run(ctx, c.entry, c.pred, c.nat, c.stubret, "i")
            if dd and wb is None:
                wb = (c, dd)
    rep.cov["traces_validated_against_impl"] = len(cases)
    # untouched status in a fresh process, real self-tests, real kernels (differential vs legacy)
    pairs = [ctx.byid[e] for e in ctx.entry_ids if ctx.cls[e] == 0]
    nd = {"quick": 2, "thorough": 30}[tier]
    dl = ["L %s.%d %s %d %d" % (p, k, p, rng.next() >> 1, [64, 16, 1000, 4096][k % 4] if k < 4 else rng.below(5000))
          for p in pairs for k in range(nd)] if not replay else []
    dout = ctx.native_lines(dl, shards=min(16, max(1, len(dl) // 4))) if dl else {}
    for l in dl:
        cid = l.split()[1]
        rep.case(("fresh-process differential", l), True)
        if " same" not in dout[cid]:
            t = l.split()
            rep.violation("FIPS library, self-tests run on first use, %s vs its legacy counterpart: %s" % (t[2], dout[cid]),
                          {"pair": t[2], "seed": t[3], "len": t[4], "result": dout[cid]}, {"entry": t[2], "kind": "passed_gate_blocks_or_differs"})
    for e, line in (failing.items() if not replay else []):
        name = ctx.byid[e]
        if not any(c.entry == name and verdicts.get(c.cid) != "accept" for c in cases):
            rep.violation("verified checker check13 rejects %s (witness %s) but no failing input was found on the real wrapper" % (name, line),
                          {"theorem": "C13 checker obligation", "entry": name, "witness": line}, {"entry": name, "kind": "obligation"}, no_input=True)
    if not ok and not rep.violations:
        rep.violation("Coq obligation no longer checks: %s" % broken, {"theorem_or_file": broken}, no_input=True)
    if wb and not rep.violations:
        c, dd = wb
        rep.violation("interpreter prediction differs from the real wrapper (no property failure found): %s: %s" % (c.entry, dd),
                      dict(describe(c), correspondence="mini-C interpreter vs native FIPS wrapper", detail=dd), no_input=True)
    for c in cases[:3]:
        rep.sample({"case": describe(c), "model": c.pred["raw"][:300], "native": c.nat["raw"][:300]})
    rep.cov["rule"] = ("cases = (entry, argument tuple from the region cut points of the verified checker, status in {passed, failed, not-run x "
                       "(aes,sha self-test outcome in {0,1}^2)}, XTS key scenario in {different, identical raw, identical expanded, "
                       "same bytes}); approved entries with valid pointers (PROT_NONE unless legitimately accessed), non-approved entries also with all-NULL; "
                       "failed status re-run against the real kernels with valid buffers (outputs must stay untouched); fresh-process "
                       "differential vs the legacy entry points with the real self-tests; distinct = distinct case tuples, all non-trivial")
    rep.notes["input_distribution"] = {"per_entry_cases": dist, "by_status": kinds, "fresh_process_differential": len(dl)}
    rep.assumptions = ["status 3 (RUNNING, another thread) is C17's subject: a single thread only ever sees 0, 1 or 2 from asm_check_self_tests_status (the theorems cover every returned value)",
                       "self-test outcomes are injected by interposing _aes_self_tests/_sha_self_tests; the real ones run in the fresh-process differential cases",
                       "the clang AST -> mini-C translator is trusted to emit what the source says; cross-checked on every case against the real FIPS-mode wrappers"]
    return rep.finish()
