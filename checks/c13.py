"""C13 — FIPS build fails closed.

Coq: Properties/C13.v — verified checker over the wrapper bodies regenerated with -DFIPS_MODE
(Gen/WrappersFipsGen.v, incl. the translated isal_self_tests): for every approved entry point,
every self-test status / outcome and every otherwise-valid argument valuation: failed status =>
self-test error, no write, no crypto symbol; not-run => both self-test runs precede any work
and a failure blocks the call; non-approved => invalid-algorithm error with an empty trace; XTS:
identical keys (raw / expanded) => refused before anything is called.
Tie: FIPS-mode library; status set through asm_set_self_tests_status / self-test outcomes
injected by interposing _aes_self_tests/_sha_self_tests / untouched in a fresh process; every
entry with valid arguments; return code and internal calls must equal the extracted
interpreter's prediction and satisfy the extracted acceptor judge_13; real kernels with a failed
status: outputs untouched; XTS with equal raw keys and with schedules of one key."""
import json, os, sys
import vlib
from checks import wrap_common as wc
from checks import c16
sys.path.insert(0, os.path.join(vlib.VERIF, "tr"))
import wrappers

PID = "C13"


def gen():
    return wc.gen()


DRIVERS = [("wrap", "Wrappers")]

# status value 3 (RUNNING) makes asm_check_self_tests_status wait for the running thread: C17's subject
STATUS = [(0, None, None), (1, None, None), (2, 0, 0), (2, 1, 0), (2, 0, 1), (2, 1, 1)]


class Case(c16.Case):
    __slots__ = ("status", "aes", "sha", "bufs")

    def __init__(self, cid, entry, eid, args, mode="s", status=0, aes=None, sha=None, bufs=None):
        c16.Case.__init__(self, cid, entry, eid, args, mode)
        self.status, self.aes, self.sha, self.bufs = status, aes, sha, bufs or {}


def key_material(ctx, rng):
    """XTS key scenarios: name -> {bits: (k2 bytes, k1 bytes)} for raw and expanded entries"""
    lines = []
    keys = {}
    for bits in (128, 256):
        for nm in ("a", "b"):
            keys[(bits, nm)] = rng.bytes(bits // 8)
            lines.append("K k%d%s %d %s" % (bits, nm, bits, keys[(bits, nm)].hex()))
    out = ctx.native_lines(lines, shards=1)
    sched = {}
    for bits in (128, 256):
        for nm in ("a", "b"):
            t = out["k%d%s" % (bits, nm)].split()
            sched[(bits, nm)] = (bytes.fromhex(t[1]), bytes.fromhex(t[2]))
    return keys, sched


def xts_scenarios(name, keys, sched):
    """-> list of (label, k2 bytes, k1 bytes, keys_identical?)"""
    bits = 128 if "128" in name else 256
    ka, kb = keys[(bits, "a")], keys[(bits, "b")]
    (ea, da), (eb, db) = sched[(bits, "a")], sched[(bits, "b")]
    if "expanded" not in name:
        return [("raw_different", ka, kb, False), ("raw_identical", ka, ka, True)]
    if "_enc_" in name:
        return [("exp_different", ea, eb, False), ("exp_identical", ea, ea, True)]
    # decryption with expanded keys: k2 = encryption schedule of the tweak key, k1 = decryption
    # schedule of the data key
    return [("exp_different", ea, db, False), ("exp_identical", ea, da, True), ("exp_same_bytes", ea, ea, False)]


def assignment(ctx, c, cand_keys, ptr_vals=None):
    """model assignment of a case: arguments, status, self-test outcomes, memcmp observations"""
    params = ctx.params(c.entry)
    out = []
    for i, (p, a) in enumerate(zip(params, c.args)):
        if p[1] == "CPtr":
            v = 0 if a == "n" else (int(ptr_vals[i], 16) if ptr_vals else 1)
        else:
            v = a
        out.append("A%d=%x" % (i, v))
    out.append("S=%x" % c.status)
    if c.aes is not None:
        out.append("X%d.0=%x" % (ctx.names["_aes_self_tests"], c.aes))
        out.append("X%d.0=%x" % (ctx.names["_sha_self_tests"], c.sha))
    for k in cand_keys:
        mk = wc.key_memcmp(k)
        if mk:
            a, oa, b, ob, n = mk
            ba, bb = c.bufs.get(a, b""), c.bufs.get(b, b"")
            eq = ba[oa:oa + n] == bb[ob:ob + n] and len(ba) >= oa + n
            out.append("%s=%x" % (k, 0 if eq else 1))
    return " ".join(out)


def build_cases(ctx, tier, rng):
    cand_lines = ["cands k%d 13 %d" % (e, e) for e in ctx.entry_ids]
    cands = {int(k[1:]): wc.parse_cands(v) for k, v in ctx.model_lines(cand_lines, shards=1).items()}
    keys, sched = key_material(ctx, rng)
    cases = []
    dist = {}
    for eid in ctx.entry_ids:
        name = ctx.byid[eid]
        cls = ctx.cls[eid]
        if cls == 2:
            continue
        params = ctx.params(name)
        pidx = [i for i, p in enumerate(params) if p[1] == "CPtr"]
        sidx = [i for i, p in enumerate(params) if p[1] != "CPtr"]
        # scalar tuples: the region candidates (the in-domain ones are selected by the model below)
        import itertools
        pool = list(itertools.islice(itertools.product(*[sorted(set(cands[eid].get("A%d" % i, [0]) + [16, 64])) for i in sidx]), 600))
        if cls == 1:
            pool = pool[:3]
        scen = xts_scenarios(name, keys, sched) if "_xts_" in name else [("-", None, None, False)]
        n = 0
        for tup in pool:
            for label, k2, k1, ident in scen:
                for st, aes, sha in STATUS:
                    for nullmask in ([0] if cls == 0 else [0, (1 << len(pidx)) - 1]):
                        args = [None] * len(params)
                        for b, i in enumerate(pidx):
                            args[i] = "n" if (nullmask >> b) & 1 else "g"
                        for i, v in zip(sidx, tup):
                            args[i] = v
                        bufs = {}
                        if k2 is not None:
                            bufs = {0: k2, 1: k1}
                        c = Case("%d.%d" % (eid, n), name, eid, args, "s", st, aes, sha, bufs)
                        c.why = label
                        cases.append(c)
                        n += 1
        dist[name] = n
    return cases, dist, cands


def predict(ctx, cases, cands):
    lines = ["run %s 1 %d %s" % (c.cid, c.eid, assignment(ctx, c, cands[c.eid].keys())) for c in cases]
    out = ctx.model_lines(lines)
    for c in cases:
        c.pred = wc.parse_model_run(out[c.cid])


def native_line(ctx, c):
    toks, local_call = c16.native_args(ctx, c)
    for i, b in c.bufs.items():
        if toks[i] != "n":
            toks[i] = "b:" + b.hex()
    if c.mode == "r":
        toks = [("v" if t == "g" else t) for t in toks]
    c.stubret = 0 if any(e.startswith("W:") for e in c.pred.get("events", [])) or c.entry.endswith(("_submit", "_flush")) else 7
    return "N %s %s %s %s %s %s %x %s" % (c.cid, c.entry, c.mode, "-" if c.status is None else c.status,
                                          "-" if c.aes is None else c.aes, "-" if c.sha is None else c.sha,
                                          c.stubret, " ".join(toks))


def describe(c):
    d = c16.describe(c)
    d.update({"status": {0: "passed", 1: "failed", 2: "not run", 3: "not run (value 3)", None: "untouched"}[c.status],
              "aes_self_tests_returns": c.aes, "sha_self_tests_returns": c.sha, "keys": c.why})
    return d


def run(tier, replay=None):
    rep = vlib.Report(PID, "proof", tier, "cd coq && make Properties/C13.vo  (coqc 8.16.1, full .vo build)")
    rng = vlib.SplitMix64(vlib.seed() * 1000003 + 13)
    try:
        files = gen()
    except wrappers.Unsupported as e:
        rep.obligation("translator: every construct of the wrapper bodies is in the mini-C subset", False, str(e))
        rep.violation("translator failed closed: %s" % e, {"correspondence": "tr/wrappers.py", "detail": str(e)}, no_input=True)
        return rep.finish()
    rep.obligation("translator: every construct of the wrapper bodies is in the mini-C subset", True)
    ok, broken = vlib.coq_step(rep, PID, files, extract="Wrappers")
    ctx = wc.Ctx("fips")
    rep.obligation("every exported isal_ entry point has exactly one specification row", ctx.covers)
    if not ctx.covers:
        rep.violation("specification table does not cover the exported entry points", {"correspondence": "Spec/WrapperSpec.specs vs nm"}, no_input=True)
    verd = ctx.model_lines(["verdict b%d 13 %d" % (e, e) for e in ctx.entry_ids])
    failing = {}
    for e in ctx.entry_ids:
        v = verd["b%d" % e]
        rep.obligation("check13 %s" % ctx.byid[e], " ok" in v, v if " ok" not in v else "")
        if " ok" not in v:
            failing[e] = v

    cases, dist, cands = build_cases(ctx, tier, rng)
    if replay and "args" not in json.load(open(replay))["replay"]:
        replay = None          # a replay that names a theorem / correspondence: run everything
    if replay:
        r = json.load(open(replay))["replay"]
        keep = [c for c in cases if c.entry == r["entry"] and describe(c)["status"] == r["status"] and
                describe(c)["args"] == r["args"] and c.why == r.get("keys", c.why) and
                c.aes == r.get("aes_self_tests_returns") and c.sha == r.get("sha_self_tests_returns")]
        cases = keep[:1] if keep else [c for c in cases if c.entry == r["entry"]][:50]
    predict(ctx, cases, cands)
    # real kernels behind a failed gate: outputs must stay untouched
    extra = []
    seen = set()
    for c in cases:
        if c.status == 1 and ctx.cls[c.eid] == 0 and "n" not in c.args and (c.entry, c.why) not in seen and \
                all((not isinstance(a, int)) or a <= 4096 for a in c.args) and "1" not in c.pred.get("spec", "1")[1:-1]:
            seen.add((c.entry, c.why))
            r = Case(c.cid + "r", c.entry, c.eid, list(c.args), "r", 1, None, None, c.bufs)
            r.why, r.pred = c.why, c.pred
            extra.append(r)
    cases += extra
    lines = [native_line(ctx, c) for c in cases]
    out = ctx.native_lines(lines)
    for c in cases:
        c.nat = wc.parse_native(out[c.cid])
    jl = []
    for c in cases:
        if "ptrs" not in c.nat:
            continue
        actual = c.nat["ptrs"].split(",") if c.nat["ptrs"] != "-" else []
        stores = {int(e.split(":")[1][1:]) for e in c.pred.get("events", []) if e.startswith("W:A")}
        jl.append(wc.judge_line(c.cid, "13", c.eid, c.nat, c.stubret, None, assignment(ctx, c, cands[c.eid].keys(), actual), real=(c.mode == "r"), stores=stores))
    jout = ctx.model_lines(jl)
    verdicts = {k: (v.split()[1] if len(v.split()) > 1 else "?") for k, v in jout.items()}
    wb = None
    sigs_seen = set()
    kinds = {}
    for c in cases:
        rep.case((c.entry, tuple(c.args), c.mode, c.status, c.aes, c.sha, c.why), True)
        kinds[describe(c)["status"]] = kinds.get(describe(c)["status"], 0) + 1
        v = verdicts.get(c.cid, "?")
        if v != "accept":
            ret = c.nat.get("ret", "?")
            if c.nat.get("fault") == "1":
                kind = "fault"
            elif "identical" in c.why:
                kind = "identical_keys_not_refused"
            elif c.status == 1:
                kind = "failed_status_not_blocking"
            elif ctx.cls[c.eid] == 1:
                kind = "non_approved_not_refused"
            else:
                kind = "gate_order_or_result"
            sig = {"entry": c.entry, "kind": kind}
            if (c.entry, kind) not in sigs_seen:
                sigs_seen.add((c.entry, kind))
                d = describe(c)
                rep.violation("%s(%s) status=%s keys=%s [%s]: returned 0x%s, fault=%s, internal calls %s, buffers changed %s — rejected by the property's acceptor (%s)" % (
                    c.entry, ", ".join(d["args"]), d["status"], c.why, d["mode"], ret, c.nat.get("fault"),
                    [ctx.byid.get(int(x.split("(")[0]), x) for x in c.nat.get("calls", [])], c.nat.get("chg"), kind),
                    dict(d, native=c.nat["raw"][:400], model=c.pred["raw"][:400]), sig)
        if c.mode == "s":
            dd = wc.compare_run(ctx, c.entry, c.pred, c.nat, c.stubret, "i")
            if dd and wb is None:
                wb = (c, dd)
    rep.cov["traces_validated_against_impl"] = len(cases)
    # untouched status in a fresh process, real self-tests, real kernels (differential vs legacy)
    pairs = [ctx.byid[e] for e in ctx.entry_ids if ctx.cls[e] == 0]
    nd = {"quick": 2, "thorough": 30}[tier]
    dl = ["L %s.%d %s %d %d" % (p, k, p, rng.next() >> 1, [64, 16, 1000, 4096][k % 4] if k < 4 else rng.below(5000))
          for p in pairs for k in range(nd)] if not replay else []
    dout = ctx.native_lines(dl, shards=min(16, max(1, len(dl) // 4))) if dl else {}
    for l in dl:
        cid = l.split()[1]
        rep.case(("fresh-process differential", l), True)
        if " same" not in dout[cid]:
            t = l.split()
            rep.violation("FIPS library, self-tests run on first use, %s vs its legacy counterpart: %s" % (t[2], dout[cid]),
                          {"pair": t[2], "seed": t[3], "len": t[4], "result": dout[cid]}, {"entry": t[2], "kind": "passed_gate_blocks_or_differs"})
    for e, line in (failing.items() if not replay else []):
        name = ctx.byid[e]
        if not any(c.entry == name and verdicts.get(c.cid) != "accept" for c in cases):
            rep.violation("verified checker check13 rejects %s (witness %s) but no failing input was found on the real wrapper" % (name, line),
                          {"theorem": "C13 checker obligation", "entry": name, "witness": line}, {"entry": name, "kind": "obligation"}, no_input=True)
    if not ok and not rep.violations:
        rep.violation("Coq obligation no longer checks: %s" % broken, {"theorem_or_file": broken}, no_input=True)
    if wb and not rep.violations:
        c, dd = wb
        rep.violation("interpreter prediction differs from the real wrapper (no property failure found): %s: %s" % (c.entry, dd),
                      dict(describe(c), correspondence="mini-C interpreter vs native FIPS wrapper", detail=dd), no_input=True)
    for c in cases[:3]:
        rep.sample({"case": describe(c), "model": c.pred["raw"][:300], "native": c.nat["raw"][:300]})
    rep.cov["rule"] = ("cases = (entry, argument tuple from the region cut points of the verified checker, status in {passed, failed, not-run x "
                       "(aes,sha self-test outcome in {0,1}^2)}, XTS key scenario in {different, identical raw, identical expanded, "
                       "same bytes}); approved entries with valid pointers (PROT_NONE unless legitimately accessed), non-approved entries also with all-NULL; "
                       "failed status re-run against the real kernels with valid buffers (outputs must stay untouched); fresh-process "
                       "differential vs the legacy entry points with the real self-tests; distinct = distinct case tuples, all non-trivial")
    rep.notes["input_distribution"] = {"per_entry_cases": dist, "by_status": kinds, "fresh_process_differential": len(dl)}
    rep.assumptions = ["status 3 (RUNNING, another thread) is C17's subject: a single thread only ever sees 0, 1 or 2 from asm_check_self_tests_status (the theorems cover every returned value)",
                       "self-test outcomes are injected by interposing _aes_self_tests/_sha_self_tests; the real ones run in the fresh-process differential cases",
                       "the clang AST -> mini-C translator is trusted to emit what the source says; cross-checked on every case against the real FIPS-mode wrappers"]
    return rep.finish()
