"""C03 — AES-XTS equals IEEE 1619 incl. ciphertext stealing; decrypt inverts; expanded-key forms
agree with the raw-key ones; len < 16 touches nothing; every family, in place / out of place,
any alignment.

Coq: Properties/C03.v (InvCipher o Cipher = id, Equivalent Inverse Cipher = InvCipher, XTS
round trip for every length >= 16 with stealing, expanded-key model = raw-key model, short
input = no output, length preservation).
Tie: the L0 spec Spec.XTS.xts_enc / xts_dec, extracted, is evaluated once per input and
compared with all 24 family symbols + the isal_ entries through the real dispatcher under three
virtual CPUIDs + the legacy names; expanded-key entries are fed with schedules from the real
isal_aes_keyexp_* and from the model."""
import json, os, sys, zlib
import vlib, aesmlib
from aesmlib import kv, unhex

KNOWN_FAMILIES = ["sse", "avx", "vaes"]
EXPECT_BOUND = {"sse": {"sse"}, "avx": {"avx"}, "avx512g2": {"vaes"}}
SCHED = {128: 176, 256: 240}


def mk_case(rng, ks, ln, tag):
    pin, ain = aesmlib.placement(rng)
    pout, aout = aesmlib.placement(rng)
    pk = "I" if rng.below(4) else "E"
    return {"ks": ks, "k2": rng.bytes(ks // 8), "k1": rng.bytes(ks // 8), "tw": rng.bytes(16), "len": ln,
            "seed": rng.next(), "inplace": rng.below(2), "pin": pin, "ain": ain, "pout": pout, "aout": aout,
            "pk": pk, "ak2": rng.below(64), "ak1": rng.below(64), "atw": rng.below(64), "tag": tag,
            "exp": ln <= 512 and rng.below(8) == 0}


def gen_cases(rng, tier, scale=1):
    cases, shorts = [], []
    thorough = tier == "thorough"
    for ks in (128, 256):
        # (a) every length 16 .. 16*17+15: each unrolled tail 1..7 (len < 128) and each
        #     initial-block count 0..7 in front of the last eight (128 <= len < 256), with every
        #     stealing residue
        #     Repeated with fresh keys/tweaks: the chain of GF(2^128) doublings carries or not at each
        #     step depending on the encrypted tweak, and a tail that mishandles one carry pattern
        #     (probability 1/4 .. 1/8 per random tweak; seed C03-e) must meet it at its own length.
        for rep in range((8 if thorough else 4) * scale):
            for ln in range(16, 16 * 17 + 16):
                cases.append(mk_case(rng, ks, ln, "sweep"))
        # (b) k*128 + m*16 + r: main loop taken 0..k-1 times (sse/avx), by-16 / by-8 loops (vaes)
        ks_small = list(range(1, 41)) if thorough else [1, 2, 3, 4]
        for m in range(8):
            for r in ([0] + [1 + rng.below(15) for _ in range(3 if thorough else 1)]) * scale:
                kl = list(ks_small)
                if not thorough:
                    kl += [5 + rng.below(5), rng.choice([15, 16, 17, 31, 32, 33])]
                for k in kl:
                    cases.append(mk_case(rng, ks, k * 128 + m * 16 + r, "k128+m16+r"))
        # (c) uniform lengths
        for _ in range((400 if thorough else 40) * scale):
            cases.append(mk_case(rng, ks, 16 + rng.below((65536 if thorough and rng.below(10) == 0 else 2048) - 16), "uniform"))
        # (d) len 0..15: nothing may be touched
        for ln in range(16):
            for _ in range((4 if thorough else 1) * scale):
                shorts.append({"ks": ks, "k2": rng.bytes(ks // 8), "k1": rng.bytes(ks // 8), "tw": rng.bytes(16),
                               "len": ln, "seed": rng.next(), "tag": "short"})
    return cases, shorts


def model_line(cid, c):
    return "X %s %d %s %s %s %d %x%s" % (cid, c["ks"], c["k2"].hex(), c["k1"].hex(), c["tw"].hex(), c["len"], c["seed"],
                                          " exp" if c.get("exp") else "")


def native_line(cid, c, md):
    l = "X %s %d %s %s %s %d %x %d %s %d %s %d %s %d %d %d" % (
        cid, c["ks"], c["k2"].hex(), c["k1"].hex(), c["tw"].hex(), c["len"], c["seed"], c["inplace"],
        c["pin"], c["ain"], c["pout"], c["aout"], c["pk"], c["ak2"], c["ak1"], c["atw"])
    if md is not None:
        l += " ms %s %s %s" % (md["ek2"], md["ek1"], md["dk1"])
    return l


def short_line(cid, c):
    return "S %s %d %s %s %s %d %x" % (cid, c["ks"], c["k2"].hex(), c["k1"].hex(), c["tw"].hex(), c["len"], c["seed"])


def run_batch(cases, impl_exe, model_exe):
    """-> list of (model kv, native kv, native calls) per case"""
    ml = [model_line("c%d" % i, c) for i, c in enumerate(cases)]
    mout, _ = vlib.run_driver(model_exe, "\n".join(aesmlib.balanced(ml, lambda l: int(l.split()[6]))))
    mds = [kv(mout["c%d" % i])[0] for i in range(len(cases))]
    nl = [native_line("c%d" % i, c, md if "ek2" in md else None) for i, (c, md) in enumerate(zip(cases, mds))]
    nout, nerr = vlib.run_driver(impl_exe, "\n".join(aesmlib.balanced(nl, lambda l: int(l.split()[6]))))
    res = []
    for i in range(len(cases)):
        nd, calls = kv(nout["c%d" % i])
        res.append((mds[i], nd, calls, nout["c%d" % i] if "enc" not in nd else ""))
    return res


def judge(c, md, nd, calls, raw):
    """-> list of (entry, kind, detail, impl_hex, spec_hex); kind in observable / model"""
    bad = []
    if "enc" not in md or "dec" not in md:
        return [("model", "model", "model driver produced no result: %s" % str(md)[:200], "", "")]
    if "enc" not in nd or "dec" not in nd:
        return [("driver", "observable", "native driver produced no result: %s" % raw[:200], "", "")]
    if c.get("exp") and (md.get("xenc") != md["enc"] or md.get("xdec") != md["dec"]):
        bad.append(("model", "model", "expanded-key model on the model schedules differs from the spec", md.get("xenc", ""), md["enc"]))
    ref = {0: nd["enc"], 1: nd["dec"]}
    spec = {0: md["enc"], 1: md["dec"]}
    for name, bound, res, flags in calls:
        isdec = 1 if name.startswith("dec") else 0
        out = ref[isdec] if res == "=" else res[1:]
        if out != spec[isdec]:
            o, s = unhex(out), unhex(spec[isdec])
            bad.append((name, "observable", "output differs from IEEE 1619 at byte %d of %d" % (aesmlib.first_diff(o, s), c["len"]), out, spec[isdec]))
        elif flags:
            bad.append((name, "observable", "output correct but %s" % flags, out, spec[isdec]))
        if ".isal." in name:
            preset = name.split(".isal.")[1].split(".")[0]
            if bound not in EXPECT_BOUND[preset]:
                bad.append((name, "dispatch", "virtual CPUID preset %s bound family %s" % (preset, bound), "", ""))
    for a, b in (("rek2", "ek2"), ("rek1", "ek1"), ("rdk1", "dk1")):
        if nd.get(a) != md.get(b):
            bad.append(("isal_aes_keyexp_%d:%s" % (c["ks"], b), "schedule", "schedule written by the real key expansion differs from FIPS-197", nd.get(a, ""), md.get(b, "")))
    return bad


def minimise(c, entry, impl_exe, model_exe):
    """smallest length of the same residue (and simplest placement) on which `entry` still fails"""
    def fails(cands):
        res = run_batch(cands, impl_exe, model_exe)
        out = []
        for cc, (md, nd, calls, raw) in zip(cands, res):
            out.append(any(b[0] == entry and b[1] == "observable" for b in judge(cc, md, nd, calls, raw)))
        return out
    r = c["len"] % 16
    nb = c["len"] // 16
    lens = sorted({r + 16 * j for j in list(range(1, min(nb, 40) + 1)) + [nb // 2, nb - 8, nb - 1] if 1 <= j < nb})
    cur = c
    if lens:
        cands = [dict(c, len=l, exp=False) for l in lens]
        f = fails(cands)
        for cc, bad in zip(cands, f):
            if bad:
                cur = cc
                break
    simple = [dict(cur, inplace=0, pin="I", ain=0, pout="I", aout=0, pk="I", ak2=0, ak1=0, atw=0, exp=False),
              dict(cur, pin="I", ain=0, pout="I", aout=0, pk="I", ak2=0, ak1=0, atw=0, exp=False),
              dict(cur, pk="I", ak2=0, ak1=0, atw=0, exp=False)]
    for cc, bad in zip(simple, fails(simple)):
        if bad:
            return cc
    return cur


def replay_dict(c, entry, detail, impl, spec):
    return {"entry": entry, "family": entry.split(".")[1] if "." in entry else "", "key_bits": c["ks"], "len": c["len"],
            "data_seed": "%x" % c["seed"], "k2": c["k2"].hex(), "k1": c["k1"].hex(), "tweak": c["tw"].hex(),
            "inplace": c["inplace"], "in": [c["pin"], c["ain"]], "out": [c["pout"], c["aout"]],
            "keys": [c["pk"], c["ak2"], c["ak1"], c["atw"]], "detail": detail,
            "impl": impl[:512], "spec": spec[:512], "oracle": "Spec.XTS.xts_enc/xts_dec (extracted)"}


def case_from_replay(r):
    return {"ks": r["key_bits"], "k2": bytes.fromhex(r["k2"]), "k1": bytes.fromhex(r["k1"]), "tw": bytes.fromhex(r["tweak"]),
            "len": r["len"], "seed": int(r["data_seed"], 16), "inplace": r["inplace"], "pin": r["in"][0], "ain": r["in"][1],
            "pout": r["out"][0], "aout": r["out"][1], "pk": r["keys"][0], "ak2": r["keys"][1], "ak1": r["keys"][2],
            "atw": r["keys"][3], "tag": "replay", "exp": False}


def big_cases(rep, rng, impl_exe, model_exe, sizes=(((1 << 24) - 1, 128), (1 << 24, 256))):
    """thorough: data units of 2^24 and 2^24-1 bytes.  The spec is evaluated in 64 KiB windows
    (tweak advanced by xts_tweak_pow, justified by C03_xts_enc_chunks_app); the native driver
    prints the CRC-32 of every 64 KiB of every output."""
    W = 65536
    for ln, ks in sizes:
        if True:
            c = mk_case(rng, ks, ln, "big")
            c["inplace"] = rng.below(2)
            nw = (ln + W - 1) // W
            tout, _ = vlib.run_driver(model_exe, "T t %d %s %s %d %d" % (ks, c["k2"].hex(), c["tw"].hex(), W // 16, nw), shards=1, timeout=1200)
            tws = tout["t"].split()[1:]
            if len(tws) != nw:
                rep.violation("model did not produce the window tweaks of the %d-byte data unit" % ln, {"correspondence": "big data unit", "len": ln}, no_input=True)
                continue
            wl = []
            for w in range(nw):
                nbytes = min(W, ln - w * W)
                if w == nw - 2 and ln % 16 and ln - (nw - 1) * W < 16:
                    nbytes = ln - w * W       # the window that holds the last full block extends to the end
                elif w == nw - 1 and ln % 16 and ln - (nw - 1) * W < 16:
                    continue
                wl.append("W w%d %d %s %s %s %d %x %d %d %s" % (w, ks, c["k2"].hex(), c["k1"].hex(), c["tw"].hex(), ln, c["seed"], w * W // 16, nbytes, tws[w]))
            mout, _ = vlib.run_driver(model_exe, "\n".join(wl), timeout=3000)
            enc, dec = bytearray(), bytearray()
            okm = True
            for l in wl:
                d, _ = kv(mout[l.split()[1]])
                if "enc" not in d:
                    okm = False
                    break
                enc += unhex(d["enc"])
                dec += unhex(d["dec"])
            if not okm or len(enc) != ln:
                rep.violation("model did not evaluate the %d-byte data unit" % ln, {"correspondence": "big data unit", "len": ln}, no_input=True)
                continue
            exp = {0: ".".join("%08x" % zlib.crc32(bytes(enc[o:o + W])) for o in range(0, ln, W)),
                   1: ".".join("%08x" % zlib.crc32(bytes(dec[o:o + W])) for o in range(0, ln, W))}
            line = "B b %d %s %s %s %d %x %d" % (ks, c["k2"].hex(), c["k1"].hex(), c["tw"].hex(), ln, c["seed"], c["inplace"])
            nout, _ = vlib.run_driver(impl_exe, line, shards=1, timeout=1200)
            _, calls = kv(nout["b"])
            if not calls:
                rep.violation("native driver produced no result on the %d-byte data unit: %s" % (ln, nout["b"][:200]), {"len": ln}, no_input=True)
            for name, bound, res, flags in calls:
                isdec = 1 if name.startswith("dec") else 0
                rep.case(("big", ks, ln, name), True)
                if res != exp[isdec] or flags:
                    chunks = [i for i, (a, b) in enumerate(zip(res.split("."), exp[isdec].split("."))) if a != b]
                    rep.violation("%s, XTS-%d, len %d: output differs from IEEE 1619 in 64 KiB chunk(s) %s %s" % (name, ks, ln, chunks[:4], flags),
                                  replay_dict(c, name, "64 KiB chunks %s differ %s" % (chunks[:8], flags), "", ""),
                                  {"entry": name, "kind": "big"})


DRIVERS = [("xts", "Aesmodes")]


def gen():
    sys.path.insert(0, os.path.join(vlib.VERIF, "tr"))
    import aes_cfg
    return {"Gen/AesCfgGen.v": aes_cfg.generate(vlib.REPO)}


def run(tier, replay=None):
    return aesmlib.with_retry(lambda: _run(tier, replay))


def _run(tier, replay=None):
    rep = vlib.Report("C03", "proof", tier, "cd coq && make Properties/C03.vo  (coqc 8.16.1, full .vo build)")
    rng = vlib.SplitMix64(vlib.seed() * 1000003 + 3)
    ok, broken = vlib.coq_step(rep, "C03", gen(), extract="Aesmodes")
    impl_exe = vlib.cc_harness("xts", ["xts_drv.c", "vcpuid.S", "poison.S"], "hook")
    model_exe = vlib.ocaml_driver("xts", "Aesmodes")
    # every family symbol of the archive must be one the driver calls
    fam, unknown = aesmlib.families(aesmlib.archive_symbols("hook"), r"_XTS_AES_(128|256)_(enc|dec)(_expanded_key)?_([a-z0-9]+)", KNOWN_FAMILIES)
    rep.notes["family_symbols"] = {k: len(v) for k, v in fam.items()}
    rep.obligation("every _XTS_AES_* family symbol of the archive is exercised", not unknown and all(len(fam.get(f, [])) == 8 for f in KNOWN_FAMILIES),
                   "unknown families %s" % unknown if unknown else "")
    if unknown or any(len(fam.get(f, [])) != 8 for f in KNOWN_FAMILIES):
        rep.violation("archive has XTS family symbols the driver does not call: %s" % (unknown or fam), {"correspondence": "family table", "families": {k: v for k, v in fam.items()}}, no_input=True)
    if replay:
        r = json.load(open(replay))["replay"]
        cases, shorts = ([case_from_replay(r)], []) if r.get("len", 0) >= 16 else ([], [dict(case_from_replay(r), tag="short")])
    else:
        cases, shorts = gen_cases(rng, tier, 1 if ok else 3)
    res = run_batch(cases, impl_exe, model_exe)
    dist = {"len_mod_16": {}, "blocks_mod_8": {}, "size_class": {}, "inplace": {}, "placement_in": {}, "placement_out": {}, "align_in": {},
            "align_out": {}, "key_placement": {}, "tag": {}, "key_bits": {}}
    def bump(k, v):
        dist[k][v] = dist[k].get(v, 0) + 1
    soft = None
    modelled = 0
    failures = {}          # entry -> list of (case, detail, impl, spec)
    for c, (md, nd, calls, raw) in zip(cases, res):
        ln = c["len"]
        modelled += ln
        bump("len_mod_16", ln % 16); bump("blocks_mod_8", (ln // 16) % 8); bump("inplace", c["inplace"])
        bump("size_class", "<128" if ln < 128 else "<256" if ln < 256 else "<512" if ln < 512 else ">=512")
        bump("placement_in", c["pin"]); bump("placement_out", c["pout"]); bump("key_placement", c["pk"])
        bump("align_in", c["ain"] % 16 if c["pin"] == "I" else "n/a"); bump("align_out", c["aout"] % 16 if c["pout"] == "I" else "n/a")
        bump("tag", c["tag"]); bump("key_bits", c["ks"])
        for name, bound, r_, flags in calls:
            rep.case((c["ks"], ln, c["seed"], name), True)
        for entry, kind, detail, impl, spec in judge(c, md, nd, calls, raw):
            if kind == "observable":
                failures.setdefault((entry, c["ks"]), []).append((c, detail, impl, spec))
            elif soft is None:
                soft = (entry, kind, detail, c)
        if len(rep.cov["samples"]) < 3 and "enc" in md:
            rep.sample({"case": native_line("c", c, None), "spec_enc": md["enc"][:96], "impl_calls": len(calls)})
    # one violation per failing (entry, key size): the shortest failing input, minimised
    rep.notes["failing_cases_per_entry"] = {"%s/%d" % k: len(v) for k, v in failures.items()}
    for n, ((entry, ks), fl) in enumerate(sorted(failures.items(), key=lambda kv_: (min(f[0]["len"] for f in kv_[1]), kv_[0]))):
        c, detail, impl, spec = min(fl, key=lambda f: f[0]["len"])
        if n < 4 and entry != "driver" and not replay:
            cm = minimise(c, entry, impl_exe, model_exe)
            (md2, nd2, calls2, raw2), = run_batch([cm], impl_exe, model_exe)
            b2 = [b for b in judge(cm, md2, nd2, calls2, raw2) if b[0] == entry and b[1] == "observable"]
            if b2:
                c, (_, _, detail, impl, spec) = cm, b2[0]
        lens = sorted({f[0]["len"] for f in fl})
        rep.violation("%s, XTS-%d, len %d (%d blocks + %d): %s  [%d failing cases, lengths %s%s]" % (
                          entry, ks, c["len"], c["len"] // 16, c["len"] % 16, detail, len(fl), lens[:12], "..." if len(lens) > 12 else ""),
                      replay_dict(c, entry, detail, impl, spec), {"entry": entry, "kind": "output"})
    # len < 16
    if shorts:
        sl = [short_line("s%d" % i, c) for i, c in enumerate(shorts)]
        sout, _ = vlib.run_driver(impl_exe, "\n".join(sl))
        for i, c in enumerate(shorts):
            _, calls = kv(sout["s%d" % i])
            if not calls:
                rep.violation("native driver produced no result for len %d: %s" % (c["len"], sout["s%d" % i][:200]), {"len": c["len"]}, no_input=True)
            for name, bound, r_, flags in calls:
                rep.case((c["ks"], c["len"], c["seed"], name, "short"), c["len"] > 0)
                if r_ != "ok" or flags:
                    rep.violation("%s, XTS-%d, len %d < 16: buffers touched: %s" % (name, c["ks"], c["len"], r_ + flags),
                                  dict(replay_dict(dict(c, inplace=0, pin="I", ain=0, pout="I", aout=0, pk="I", ak2=0, ak1=0, atw=0), name, r_ + flags, "", ""),
                                       oracle="len < 16: neither buffer may be read or written (C03_short_noop)"),
                                  {"entry": name, "kind": "short"})
        bump("tag", "short(len<16) x3 placements")
    if tier == "thorough" and not replay:
        big_cases(rep, rng, impl_exe, model_exe)
    rep.cov["traces_validated_against_impl"] = rep.cov["evaluations"]
    rep.cov["rule"] = ("case = (key size, k2, k1, tweak, len, data seed, in place?, placement/alignment of in, out, keys, tweak) x 50 calls "
                       "(24 family symbols, expanded-key ones with the real and with the model's schedules; isal_ entries under 3 virtual CPUIDs; legacy names); "
                       "lengths: every 16..287, k*128+m*16+r for every m=0..7 with and without stealing, uniform up to 2 KiB (thorough: 64 KiB, 2^24, 2^24-1), "
                       "0..15 with canaries / in place / PROT_NONE pointers; distinct = distinct (key size, len, data seed, call)")
    rep.notes["input_distribution"] = {k: dict(sorted(v.items(), key=lambda kv_: str(kv_[0]))) for k, v in dist.items()}
    rep.notes["modelled_bytes"] = modelled
    if not ok and not rep.violations:
        rep.violation("Coq obligation no longer checks: %s" % broken, {"theorem_or_file": broken, "correspondence": "clean on %d cases" % len(cases)}, no_input=True)
    if soft and not rep.violations:
        entry, kind, detail, c = soft
        rep.violation("correspondence broken without an XTS output failure (%s): %s: %s" % (kind, entry, detail),
                      {"correspondence": kind, "entry": entry, "detail": detail, "case": native_line("c", c, None)}, no_input=True)
    rep.assumptions = ["the by-8/by-16 loops and unrolled tails of the 24 assembly files are modelled by one recursion over blocks; they are tied to it only on the generated cases",
                       "buffers are placed flush against / right after inaccessible pages or at interior offsets 0..63 with canaries; a fault, a touched canary or a modified input is a violation",
                       "len 2^24 and 2^24-1 are exercised in the thorough tier only; lengths above 2^24 (refused by the isal_ wrappers) are not exercised"]
    return rep.finish()
