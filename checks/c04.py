"""C04 — AES key expansion equals FIPS-197 (encryption round keys + the matching decryption
schedule: reversed, InvMixColumns on the inner rounds); AES-CBC equals SP 800-38A for every
N >= 1 blocks, decryption inverts it; in place / out of place; all families.

Coq: Properties/C04.v (CBC round trip for every N, the parallel-decrypt identity
P_j = D(C_j) xor C_(j-1), layout of the decryption schedule and EqInvCipher = InvCipher on it,
chaining across calls, schedule sizes = the header's constants, KATs).
Tie: the extracted Spec.AES.key_expansion / dec_schedule and Spec.CBC.cbc_enc / cbc_dec are
evaluated once per input and compared with _aes_keyexp_*_{sse,avx}, _aes_cbc_enc_*_{x4,x8},
_aes_cbc_dec_*_{sse,avx,vaes_avx512}, the isal_ entries through the real dispatcher under three
virtual CPUIDs, the legacy names and aes_cbc_precomp.  len = 0 is outside C04 (C08/C16, F6)
and is never generated."""
import json, os, sys
import vlib, aesmlib
from aesmlib import kv, unhex

SCHED = {128: 176, 192: 208, 256: 240}
EXPECT_BOUND = {"keyexp": {"sse": {"sse"}, "avx": {"avx"}, "avx512g2": {"avx"}},
                "enc": {"sse": {"x4"}, "avx": {"x8"}, "avx512g2": {"x8"}},
                "dec": {"sse": {"sse"}, "avx": {"avx"}, "avx512g2": {"vaes_avx512"}}}
KAT_KEYS = {128: ["2b7e151628aed2a6abf7158809cf4f3c", "000102030405060708090a0b0c0d0e0f"],
            192: ["8e73b0f7da0e6452c810f32b809079e562f8ead2522c6b7b", "000102030405060708090a0b0c0d0e0f1011121314151617"],
            256: ["603deb1015ca71be2b73aef0857d77811f352c073b6108d72d9810a30914dff4",
                  "000102030405060708090a0b0c0d0e0f101112131415161718191a1b1c1d1e1f"]}


def gen_cases(rng, tier, scale=1):
    thorough = tier == "thorough"
    kcases, ccases = [], []
    for ks in (128, 192, 256):
        keys = [bytes.fromhex(k) for k in KAT_KEYS[ks]] + [bytes(ks // 8), b"\xff" * (ks // 8)]
        keys += [rng.bytes(ks // 8) for _ in range((400 if thorough else 40) * scale)]
        for k in keys:
            kcases.append({"ks": ks, "key": k, "pk": "I" if rng.below(4) else "E", "akey": rng.below(64), "aenc": rng.below(64), "adec": rng.below(64)})
        ns = []
        for n in range(1, 41):
            ns += [(n, 0), (n, 1)]                                   # every N = 1..40, out of place and in place
        kmax = 12 if thorough else 4
        for k in range(1, kmax + 1):
            for r in (range(8) if thorough else [rng.below(8) for _ in range(3)]):
                ns += [(k * 8 + r, rng.below(2)), (k * 16 + r, rng.below(2))]   # by-8 (sse/avx) and by-16 (vaes) loops + tails
        if thorough:
            ns += [(1 + rng.below(4096), rng.below(2)) for _ in range(40)]
        ns = ns * scale
        for n, inplace in ns:
            pin, ain = aesmlib.placement(rng)
            pout, aout = aesmlib.placement(rng)
            ccases.append({"ks": ks, "key": rng.bytes(ks // 8), "iv": rng.bytes(16), "n": n, "seed": rng.next(), "inplace": inplace,
                           "pin": pin, "ain": ain, "pout": pout, "aout": aout, "model": n <= 16 and rng.below(6) == 0})
    return kcases, ccases


def k_line(cid, c, native):
    l = "K %s %d %s" % (cid, c["ks"], c["key"].hex())
    return l + (" %s %d %d %d" % (c["pk"], c["akey"], c["aenc"], c["adec"]) if native else "")


def c_model_line(cid, c):
    return "C %s %d %s %s %d %x%s" % (cid, c["ks"], c["key"].hex(), c["iv"].hex(), c["n"], c["seed"], " model" if c.get("model") else "")


def c_native_line(cid, c, ms):
    l = "C %s %d %s %s %d %x %d %s %d %s %d" % (cid, c["ks"], c["key"].hex(), c["iv"].hex(), c["n"], c["seed"], c["inplace"],
                                                c["pin"], c["ain"], c["pout"], c["aout"])
    if ms:
        l += " ms %s %s" % ms
    return l


def run_k(kcases, impl_exe, model_exe):
    mout, _ = vlib.run_driver(model_exe, "\n".join(k_line("k%d" % i, c, False) for i, c in enumerate(kcases)))
    nout, _ = vlib.run_driver(impl_exe, "\n".join(k_line("k%d" % i, c, True) for i, c in enumerate(kcases)))
    return [(kv(mout["k%d" % i])[0],) + kv(nout["k%d" % i]) + (nout["k%d" % i],) for i in range(len(kcases))]


def run_c(ccases, impl_exe, model_exe):
    ml = [c_model_line("c%d" % i, c) for i, c in enumerate(ccases)]
    # the model's schedules for the key of each case (fed to the real CBC entries as ".msched")
    kl = [k_line("s%d" % i, c, False) for i, c in enumerate(ccases)]
    mout, _ = vlib.run_driver(model_exe, "\n".join(aesmlib.balanced(ml, lambda l: int(l.split()[5])) + kl))
    scheds = []
    for i in range(len(ccases)):
        d = kv(mout["s%d" % i])[0]
        scheds.append((d["enc"], d["dec"]) if "enc" in d and "dec" in d else None)
    nl = [c_native_line("c%d" % i, c, scheds[i]) for i, c in enumerate(ccases)]
    nout, _ = vlib.run_driver(impl_exe, "\n".join(aesmlib.balanced(nl, lambda l: int(l.split()[5]))))
    return [(kv(mout["c%d" % i])[0], scheds[i]) + kv(nout["c%d" % i]) + (nout["c%d" % i],) for i in range(len(ccases))]


def strip_info_flags(flags):
    # the IV buffer is an input the property says nothing about; record, do not judge
    return flags.replace("+ivmod", "")


def judge_k(c, md, nd, calls, raw):
    bad = []
    if "enc" not in md or "dec" not in md:
        return [("model", "model", "model driver produced no result: %s" % str(md)[:200], "", "")]
    if "enc" not in nd or "dec" not in nd or not calls:
        return [("driver", "observable", "native driver produced no result: %s" % raw[:200], "", "")]
    for name, bound, res, flags in calls:
        if res == "=":
            enc, dec = nd["enc"], nd["dec"]
        else:
            m = dict(p.split("=") for p in res[1:].split(","))
            enc, dec = m.get("enc", ""), m.get("dec", "")
        enc_only = name.startswith("keyexp_enc")
        if enc != md["enc"]:
            i = aesmlib.first_diff(unhex(enc), unhex(md["enc"]))
            bad.append((name, "observable", "encryption schedule differs from FIPS-197 KeyExpansion at byte %d (round key %d)" % (i, i // 16), enc, md["enc"]))
        elif not enc_only and dec != md["dec"]:
            i = aesmlib.first_diff(unhex(dec), unhex(md["dec"]))
            bad.append((name, "observable", "decryption schedule differs from the reversed / InvMixColumns-ed schedule at byte %d (Key[%d])" % (i, i // 16), dec, md["dec"]))
        elif flags:
            bad.append((name, "observable", "schedules correct but %s" % flags, enc, md["enc"]))
        if ".isal." in name:
            preset = name.split(".isal.")[1]
            if bound not in EXPECT_BOUND["keyexp"][preset]:
                bad.append((name, "dispatch", "virtual CPUID preset %s bound family %s" % (preset, bound), "", ""))
    return bad


def judge_c(c, md, ms, nd, calls, raw):
    bad = []
    if "enc" not in md or "dec" not in md or ms is None:
        return [("model", "model", "model driver produced no result: %s" % str(md)[:200], "", "")]
    if "enc" not in nd or "dec" not in nd or not calls:
        return [("driver", "observable", "native driver produced no result: %s" % raw[:200], "", "")]
    if c.get("model") and (md.get("menc") != md["enc"] or md.get("mdec") != md["dec"]):
        bad.append(("model", "model", "entry-point model on the model schedules differs from the spec", md.get("menc", ""), md["enc"]))
    ref = {0: nd["enc"], 1: nd["dec"]}
    spec = {0: md["enc"], 1: md["dec"]}
    for name, bound, res, flags in calls:
        isdec = 1 if name.startswith("dec") else 0
        flags = strip_info_flags(flags)
        out = ref[isdec] if res == "=" else res[1:]
        if out != spec[isdec]:
            i = aesmlib.first_diff(unhex(out), unhex(spec[isdec]))
            bad.append((name, "observable", "output differs from SP 800-38A CBC at byte %d (block %d of %d)" % (i, i // 16, c["n"]), out, spec[isdec]))
        elif flags:
            bad.append((name, "observable", "output correct but %s" % flags, out, spec[isdec]))
        if ".isal." in name:
            preset = name.split(".isal.")[1].split(".")[0]
            if bound not in EXPECT_BOUND["dec" if isdec else "enc"][preset]:
                bad.append((name, "dispatch", "virtual CPUID preset %s bound family %s" % (preset, bound), "", ""))
    if nd.get("rks") != ms:
        bad.append(("aes_cbc_precomp", "schedule", "schedules written by aes_cbc_precomp differ from FIPS-197", str(nd.get("rks"))[:200], str(ms)[:200]))
    return bad


def minimise_c(c, entry, impl_exe, model_exe):
    def fails(cands):
        out = []
        for cc, r in zip(cands, run_c(cands, impl_exe, model_exe)):
            out.append(any(b[0] == entry and b[1] == "observable" for b in judge_c(cc, *r)))
        return out
    cur = c
    cands = [dict(c, n=n, model=False) for n in range(1, min(c["n"], 48))]
    for cc, bad in zip(cands, fails(cands)):
        if bad:
            cur = cc
            break
    simple = [dict(cur, inplace=0, pin="I", ain=0, pout="I", aout=0, model=False), dict(cur, pin="I", ain=0, pout="I", aout=0, model=False)]
    for cc, bad in zip(simple, fails(simple)):
        if bad:
            return cc
    return cur


def c_replay(c, entry, detail, impl, spec):
    return {"op": "cbc", "entry": entry, "family": entry.split(".")[1] if "." in entry else "", "key_bits": c["ks"], "blocks": c["n"], "len": 16 * c["n"],
            "data_seed": "%x" % c["seed"], "key": c["key"].hex(), "iv": c["iv"].hex(), "inplace": c["inplace"],
            "in": [c["pin"], c["ain"]], "out": [c["pout"], c["aout"]], "detail": detail, "impl": impl[:512], "spec": spec[:512],
            "oracle": "Spec.CBC.cbc_enc/cbc_dec (extracted)"}


def k_replay(c, entry, detail, impl, spec):
    return {"op": "keyexp", "entry": entry, "family": entry.split(".")[1] if "." in entry else "", "key_bits": c["ks"], "key": c["key"].hex(),
            "placement": [c["pk"], c["akey"], c["aenc"], c["adec"]], "detail": detail, "impl": impl, "spec": spec,
            "oracle": "Spec.AES.key_expansion / dec_schedule (extracted)"}


DRIVERS = [("cbc", "Aesmodes")]


def gen():
    sys.path.insert(0, os.path.join(vlib.VERIF, "tr"))
    import aes_cfg
    return {"Gen/AesCfgGen.v": aes_cfg.generate(vlib.REPO)}


def run(tier, replay=None):
    return aesmlib.with_retry(lambda: _run(tier, replay))


def _run(tier, replay=None):
    rep = vlib.Report("C04", "proof", tier, "cd coq && make Properties/C04.vo  (coqc 8.16.1, full .vo build)")
    rng = vlib.SplitMix64(vlib.seed() * 1000003 + 4)
    ok, broken = vlib.coq_step(rep, "C04", gen(), extract="Aesmodes")
    impl_exe = vlib.cc_harness("cbc", ["cbc_drv.c", "vcpuid.S", "poison.S"], "hook")
    model_exe = vlib.ocaml_driver("cbc", "Aesmodes")
    syms = aesmlib.archive_symbols("hook")
    famtab = {}
    okfam = True
    for what, rx, known, per in (("keyexp", r"_aes_keyexp_(128|192|256)(_enc)?_([a-z0-9]+)", ["sse", "avx"], 4),
                                 ("cbc_enc", r"_aes_cbc_enc_(128|192|256)_([a-z0-9_]+)", ["x4", "x8"], 3),
                                 ("cbc_dec", r"_aes_cbc_dec_(128|192|256)_([a-z0-9_]+)", ["sse", "avx", "vaes_avx512"], 3)):
        fam, unknown = aesmlib.families(syms, rx, known, exclude=r"_aes_keyexp_128_enc")   # (the dispatched interface itself)
        famtab[what] = {k: len(v) for k, v in fam.items()}
        if unknown or any(len(fam.get(f, [])) != per for f in known):
            okfam = False
    rep.notes["family_symbols"] = famtab
    rep.obligation("every keyexp / cbc family symbol of the archive is exercised", okfam, "" if okfam else str(famtab))
    if not okfam:
        rep.violation("archive has key-expansion / CBC family symbols the driver does not call: %s" % famtab, {"correspondence": "family table", "families": famtab}, no_input=True)
    if replay:
        r = json.load(open(replay))["replay"]
        if r.get("op") == "keyexp":
            kcases = [{"ks": r["key_bits"], "key": bytes.fromhex(r["key"]), "pk": r["placement"][0], "akey": r["placement"][1],
                       "aenc": r["placement"][2], "adec": r["placement"][3]}]
            ccases = []
        else:
            kcases = []
            ccases = [{"ks": r["key_bits"], "key": bytes.fromhex(r["key"]), "iv": bytes.fromhex(r["iv"]), "n": max(1, r["blocks"]), "seed": int(r["data_seed"], 16),
                       "inplace": r["inplace"], "pin": r["in"][0], "ain": r["in"][1], "pout": r["out"][0], "aout": r["out"][1], "model": False}]
    else:
        kcases, ccases = gen_cases(rng, tier, 1 if ok else 3)
    dist = {"keyexp_key_bits": {}, "keyexp_placement": {}, "cbc_key_bits": {}, "cbc_blocks_mod_8": {}, "cbc_blocks_mod_16": {}, "cbc_blocks_class": {},
            "cbc_inplace": {}, "cbc_placement_in": {}, "cbc_placement_out": {}, "cbc_align_in_mod16": {}, "cbc_align_out_mod16": {}}
    def bump(k, v):
        dist[k][v] = dist[k].get(v, 0) + 1
    soft = None
    kfail, cfail = {}, {}
    for c, (md, nd, calls, raw) in zip(kcases, run_k(kcases, impl_exe, model_exe) if kcases else []):
        bump("keyexp_key_bits", c["ks"]); bump("keyexp_placement", c["pk"])
        for name, bound, r_, flags in calls:
            rep.case(("K", c["ks"], c["key"], name), True)
        for entry, kind, detail, impl, spec in judge_k(c, md, nd, calls, raw):
            if kind == "observable":
                kfail.setdefault((entry, c["ks"]), []).append((c, detail, impl, spec))
            elif soft is None:
                soft = (entry, kind, detail, k_line("k", c, True))
        if len(rep.cov["samples"]) < 2 and "enc" in md:
            rep.sample({"case": k_line("k", c, True), "spec_enc_schedule": md["enc"][:96], "impl_calls": len(calls)})
    for (entry, ks), fl in sorted(kfail.items()):
        c, detail, impl, spec = fl[0]
        rep.violation("%s, AES-%d key expansion: %s  [%d failing keys]" % (entry, ks, detail, len(fl)), k_replay(c, entry, detail, impl, spec),
                      {"entry": entry, "kind": "schedule"})
    modelled = 0
    ivmod = 0
    for c, (md, ms, nd, calls, raw) in zip(ccases, run_c(ccases, impl_exe, model_exe) if ccases else []):
        n = c["n"]
        modelled += 16 * n
        bump("cbc_key_bits", c["ks"]); bump("cbc_blocks_mod_8", n % 8); bump("cbc_blocks_mod_16", n % 16); bump("cbc_inplace", c["inplace"])
        bump("cbc_blocks_class", "1..7" if n < 8 else "8..15" if n < 16 else "16..31" if n < 32 else ">=32")
        bump("cbc_placement_in", c["pin"]); bump("cbc_placement_out", c["pout"])
        bump("cbc_align_in_mod16", c["ain"] % 16 if c["pin"] == "I" else "n/a"); bump("cbc_align_out_mod16", c["aout"] % 16 if c["pout"] == "I" else "n/a")
        for name, bound, r_, flags in calls:
            rep.case(("C", c["ks"], n, c["seed"], name), True)
            ivmod += "+ivmod" in flags
        for entry, kind, detail, impl, spec in judge_c(c, md, ms, nd, calls, raw):
            if kind == "observable":
                cfail.setdefault((entry, c["ks"]), []).append((c, detail, impl, spec))
            elif soft is None:
                soft = (entry, kind, detail, c_native_line("c", c, None))
        if len(rep.cov["samples"]) < 4 and "enc" in md:
            rep.sample({"case": c_native_line("c", c, None), "spec_enc": md["enc"][:96], "impl_calls": len(calls)})
    rep.notes["failing_cases_per_entry"] = {"%s/%d" % k: len(v) for k, v in list(kfail.items()) + list(cfail.items())}
    for i, ((entry, ks), fl) in enumerate(sorted(cfail.items(), key=lambda kv_: (min(f[0]["n"] for f in kv_[1]), kv_[0]))):
        c, detail, impl, spec = min(fl, key=lambda f: f[0]["n"])
        if i < 4 and entry != "driver" and not replay:
            cm = minimise_c(c, entry, impl_exe, model_exe)
            (r2,) = run_c([cm], impl_exe, model_exe)
            b2 = [b for b in judge_c(cm, *r2) if b[0] == entry and b[1] == "observable"]
            if b2:
                c, (_, _, detail, impl, spec) = cm, b2[0]
        ns = sorted({f[0]["n"] for f in fl})
        rep.violation("%s, CBC-AES-%d, %d blocks: %s  [%d failing cases, N = %s%s]" % (entry, ks, c["n"], detail, len(fl), ns[:12], "..." if len(ns) > 12 else ""),
                      c_replay(c, entry, detail, impl, spec), {"entry": entry, "kind": "output"})
    rep.cov["traces_validated_against_impl"] = rep.cov["evaluations"]
    rep.cov["rule"] = ("key expansion: (key size, key, placement/alignment of key and both output arrays) x 7 calls (+2 enc-only for 128): FIPS-197 KAT keys, all-zero, all-ones, random; "
                       "CBC: (key size, key, IV, N blocks, data seed, in place?, placement/alignment of in/out) x 26 calls (x4, x8, sse, avx, vaes_avx512 family symbols, isal_ entries under 3 "
                       "virtual CPUIDs, legacy names; each with the schedules of aes_cbc_precomp and with the model's); N = every 1..40 in place and out of place, k*8+r, k*16+r; "
                       "len 0 never generated (outside C04); distinct = distinct (key size, key / N + data seed, call)")
    rep.notes["input_distribution"] = {k: dict(sorted(v.items(), key=lambda kv_: str(kv_[0]))) for k, v in dist.items()}
    rep.notes["modelled_bytes"] = modelled
    rep.notes["calls_that_modified_the_iv_buffer(not judged)"] = ivmod
    if not ok and not rep.violations:
        rep.violation("Coq obligation no longer checks: %s" % broken, {"theorem_or_file": broken, "correspondence": "clean on %d + %d cases" % (len(kcases), len(ccases))}, no_input=True)
    if soft and not rep.violations:
        entry, kind, detail, line = soft
        rep.violation("correspondence broken without a schedule / CBC output failure (%s): %s: %s" % (kind, entry, detail),
                      {"correspondence": kind, "entry": entry, "detail": detail, "case": line}, no_input=True)
    rep.assumptions = ["the aeskeygenassist pipelines and the by-8 / by-16 CBC loops are modelled by FIPS-197 KeyExpansion and one recursion over blocks; they are tied to them only on the generated cases",
                       "IV and struct isal_cbc_key_data are 16-byte aligned as the header requires; data buffers take every placement (flush against / after inaccessible pages, interior offsets 0..63)",
                       "a zero-length CBC call is not part of C04 (isal_aes_cbc_enc_* with len 0 faults: finding F6, properties C08/C16)"]
    return rep.finish()
