"""C19 — every entry point preserves the callee-saved machine state of the SysV ABI.

Static half (this file + checks/abistatic.py): CFGs of abstract instructions regenerated from the built
objects of the plain library (tr/abicfg.py -> coq/Gen/AbiGen*.v), decided by the Coq checker check_c19
(Model/AbiCfg.v) whose soundness is Properties/C19.v: on EVERY path to every ret / tail jump rsp, rbx, rbp,
r12-r15 hold their entry values, DF is clear, MXCSR/x87 CW were not written, nothing was stored at or above the
entry rsp.  Dynamic half: checks/tramp.py `dynamic_c19(rep, tier)` (trampoline capture), if present."""
from checks import abistatic


def gen():
    return abistatic.gen()


DRIVERS = []


def run(tier, replay=None):
    return abistatic.run_check("C19", tier, replay)
