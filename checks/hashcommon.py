"""Shared machinery of the four hash checks C01 C06 C11 C15: configuration translator glue,
native/model driver builds, history generators aimed at the case splits, trace parsing,
verdict logic (L0 acceptor on the real trace decides; L1 white-box diff = search harder),
minimisation, corpus of minimised failures."""
import hashlib, json, os, re, sys
import vlib
sys.path.insert(0, os.path.join(vlib.VERIF, "tr"))
import hash_cfg

ALGOS = hash_cfg.ALGOS
DRIVERS = [("hash", "Hash")]
CORPUS = os.path.join(vlib.VERIF, "corpus", "hash_corpus.json")

_cfg = None


def cfg():
    """configuration regenerated from vlib.REPO's current tree (cached per process)"""
    global _cfg
    if _cfg is None:
        _cfg = hash_cfg.config(vlib.REPO, vlib.build("hook"))
    return _cfg


def gen():
    return {"Gen/HashCfgGen.v": hash_cfg.generate(vlib.REPO, vlib.build("hook"), cfg())}


def pairs():
    return [(f["algo"], f["fam"]) for f in cfg()["fams"]]


def fam(algo, family):
    for f in cfg()["fams"]:
        if f["algo"] == algo and f["fam"] == family:
            return f
    raise KeyError((algo, family))


def block(algo):
    return cfg()["algos"][algo]["bsize"]


# ----------------------------------------------------------------------------- builds

def native_driver():
    """harness/hash_drv.c with the family table and the manager interposers generated from
    nm of the freshly built archive"""
    d = vlib.build("hook")
    c = cfg()
    lines, wraps = [], []
    for f in c["fams"]:
        lines.append("HF(%s, %s)" % (f["algo"], f["fam"]))
    syms = sorted({s for f in c["fams"] for s in f["mgr"]})
    for s in syms:
        kind = "s" if "_mgr_submit_" in s else "f"
        lines.append("HM(%s, %s)" % (s, kind))
        wraps.append("-Wl,--wrap=" + s)
    txt = "\n".join(lines) + "\n"
    inc = os.path.join(d, "hash_fams-%s.inc" % hashlib.sha256(txt.encode()).hexdigest()[:12])
    vlib.write_if_changed(inc, txt)
    return vlib.cc_harness("hash", ["hash_drv.c", "vcpuid.S"], "hook",
                           extra=['-DHASH_FAMS_INC="%s"' % inc] + wraps)


def model_driver():
    return vlib.ocaml_driver("hash", "Hash")


# ----------------------------------------------------------------------------- cases and generators
#
# A case is a dict {algo, fam, mode: "D"|"W", nctx, tmo, ops: [str], aim: str}.  Ops are the
# native driver's (harness/hash_drv.c): A = queued segment (submitted as soon as its context
# is not being processed, so message structure stays valid whatever the scheduler does),
# S = unconditional submit (the malformed stream), F flush, I re-init, P pump, D drain.

BAD_FLAGS = [4, 8, 7, 0x10, 0x80, 0x100, 0x10000, 0x7fffffff, 0x80000000, 0xffffffff, 0xfffffffc, 5, 6]


def seg_len(rng, B, cap=None):
    """segment length aimed at the case splits of the context layer: {0,1,B-1,B,B+1,2B-1,kB+r}
    mixed 70/30 with uniform lengths"""
    if rng.below(10) < 7:
        k = 1 + rng.below(4)
        pool = [0, 1, B - 1, B, B + 1, 2 * B - 1, 2 * B, k * B + rng.below(B), k * B, B // 2, B - 9, B - 8, B - 7, B - 17, B - 16, B - 15]
        n = rng.choice(pool)
    else:
        n = rng.below(3 * B + 2)
    if cap is not None:
        n = min(n, cap)
    return max(0, n)


def place(rng):
    return "e" if rng.below(2) else "b%d" % rng.below(64)


def message(rng, B, cid, first_whole=False, big=False):
    """one message on context cid as a list of A ops: ENTIRE, or FIRST UPDATE* LAST; the FIRST
    segment is mostly NOT a whole number of blocks (the baseline suite never does that)"""
    r = rng.below(10)
    segs = []
    if r < 2:
        ln = seg_len(rng, B) if not big else (4 + rng.below(12)) * B + rng.below(B)
        segs.append((3, ln))
    else:
        n_upd = rng.below(4) if r < 8 else 4 + rng.below(4)
        l0 = seg_len(rng, B)
        if first_whole:
            l0 = (1 + rng.below(3)) * B
        elif l0 % B == 0 and rng.below(4):
            l0 += 1 + rng.below(B - 1)
        segs.append((1, l0))
        for _ in range(n_upd):
            segs.append((0, seg_len(rng, B)))
        # LAST: empty in a third of the cases
        segs.append((2, 0 if rng.below(3) == 0 else seg_len(rng, B)))
    return ["A%d,%x,%d,%s,%x" % (cid, fl, ln, place(rng), rng.next() & 0xffffffffffff) for fl, ln in segs]


def interleave(rng, streams):
    """merge per-context op lists keeping each list's order; random interleaving with bursts"""
    streams = [list(s) for s in streams if s]
    out = []
    while streams:
        i = rng.below(len(streams))
        burst = 1 if rng.below(3) else 1 + rng.below(3)
        for _ in range(burst):
            if streams[i]:
                out.append(streams[i].pop(0))
        if not streams[i]:
            streams.pop(i)
    return out


def sprinkle_flush(rng, ops, density):
    """flush anywhere: single flushes with probability density/100 after each op, flush storms
    (more flushes than anything can be held) now and then, flush on the empty manager first"""
    out = []
    if rng.below(4) == 0:
        out += ["F"] * (1 + rng.below(3))
    for o in ops:
        out.append(o)
        r = rng.below(100)
        if r < density:
            out.append("F")
        elif r < density + 2:
            out += ["F"] * (3 + rng.below(6))
    return out


def gen_mix(rng, algo, family, mode):
    """the general history: 1..3*lanes contexts, 1-3 messages each (context reuse after
    completion), random interleaving, flushes anywhere, occasional re-init of a context"""
    f = fam(algo, family)
    B = block(algo)
    lanes = f["lanes"]
    maxc = max(2, min(3 * lanes, 96)) if lanes else 4
    r = rng.below(10)
    nctx = 1 + rng.below(3) if r < 2 else (1 + rng.below(maxc))
    streams = []
    for c in range(nctx):
        s = []
        for m in range(1 + (rng.below(3) if nctx <= 2 * max(lanes, 1) else rng.below(2))):
            s += message(rng, B, c)
            if rng.below(12) == 0:
                s.append("I%d" % c)
        streams.append(s)
    ops = sprinkle_flush(rng, interleave(rng, streams), [0, 3, 10, 30][rng.below(4)])
    return {"algo": algo, "fam": family, "mode": mode, "nctx": nctx, "tmo": 20, "ops": ops + ["D"], "aim": "mix"}


def gen_occupancy(rng, algo, family, mode, target=None):
    """drive lane occupancy to a chosen value v in 0..lanes with jobs of distinct lengths, then
    do the operation whose behaviour depends on occupancy: flush (each side of the
    single-buffer threshold), a zero-length LAST / a short ENTIRE / a long job on the
    almost-full manager, one more submit than there are lanes"""
    f = fam(algo, family)
    B = block(algo)
    lanes = max(f["lanes"], 1)
    v = rng.below(lanes + 1) if target is None else target
    nctx = lanes + 3
    ops = []
    # v jobs in flight: whole-block FIRST segments of different lengths (so that every lane holds
    # a different remaining count and min-search ties are broken both ways)
    lens = [(1 + rng.below(6)) * B + (rng.below(B) if rng.below(2) else 0) for _ in range(v)]
    if rng.below(3) == 0 and v > 1:
        lens[rng.below(v)] = lens[0]       # an exact tie
    for c in range(v):
        ops.append("A%d,1,%d,%s,%x" % (c, lens[c], place(rng), rng.next() & 0xffffffffffff))
    kind = rng.below(6)
    c = v
    sd = lambda: rng.next() & 0xffffffffffff
    if kind == 0:
        ops += ["F"] * (1 + rng.below(lanes + 2))
    elif kind == 1:        # zero-length LAST / ENTIRE of nothing on this occupancy
        ops.append("A%d,3,0,%s,%x" % (c, place(rng), sd()))
        ops.append("A%d,1,%d,%s,%x" % (c + 1, rng.below(B), place(rng), sd()))
        ops.append("A%d,2,0,%s,%x" % (c + 1, place(rng), sd()))
    elif kind == 2:        # short ENTIRE
        ops.append("A%d,3,%d,%s,%x" % (c, seg_len(rng, B), place(rng), sd()))
    elif kind == 3:        # a job longer / shorter than everything in flight
        ops.append("A%d,1,%d,%s,%x" % (c, (rng.choice([1, 8]) * B), place(rng), sd()))
        ops.append("F")
    elif kind == 4:        # LAST on contexts in flight order reversed, then flush one by one
        for k in reversed(range(v)):
            ops.append("A%d,2,%d,%s,%x" % (k, seg_len(rng, B), place(rng), sd()))
            if rng.below(2):
                ops.append("F")
    else:                  # fill up to and beyond the lanes
        for k in range(v, lanes + 2):
            ops.append("A%d,3,%d,%s,%x" % (k, seg_len(rng, B) + (B if rng.below(2) else 0), place(rng), sd()))
    for k in range(v):
        if kind != 4:
            ops.append("A%d,2,%d,%s,%x" % (k, 0 if rng.below(2) else seg_len(rng, B), place(rng), sd()))
    return {"algo": algo, "fam": family, "mode": mode, "nctx": nctx, "tmo": 20, "ops": ops + ["D"],
            "aim": "occ%d/%d.k%d" % (v, lanes, kind)}


def gen_inflight(rng, algo, family, mode):
    """submits on contexts that ARE in flight, in each stage a context can be in flight in:
    body blocks of a FIRST/UPDATE (status PROCESSING), body blocks of a LAST (PROCESSING|LAST),
    padding blocks (PROCESSING|COMPLETE: a short ENTIRE, or a short LAST) x every flags value
    FIRST/UPDATE/LAST/ENTIRE and a bad one.  The specification rejects all of them
    (ALREADY_PROCESSING) and nothing may change; accepting one would put a context into two
    lanes.  Fewer jobs than lanes are in flight, so nothing retires before the probes."""
    f = fam(algo, family)
    B = block(algo)
    lanes = max(f["lanes"], 1)
    room = max(1, lanes - 1)
    n = 1 + rng.below(min(room, 4))
    sd = lambda: rng.next() & 0xffffffffffff
    ops, stages = [], []
    for c in range(n):
        st = rng.below(3)
        if st == 0:
            ops.append("A%d,1,%d,%s,%x" % (c, (1 + rng.below(4)) * B + rng.below(B), place(rng), sd()))
        elif st == 1:
            if rng.below(2):
                ops.append("A%d,3,%d,%s,%x" % (c, (1 + rng.below(3)) * B + rng.below(B), place(rng), sd()))
            else:
                ops.append("A%d,1,%d,%s,%x" % (c, rng.below(B), place(rng), sd()))      # handed straight back idle
                ops.append("A%d,2,%d,%s,%x" % (c, 2 * B + rng.below(B), place(rng), sd()))
        else:
            if rng.below(2):
                ops.append("A%d,3,%d,%s,%x" % (c, rng.below(B), place(rng), sd()))      # padding only
            else:
                ops.append("A%d,1,%d,%s,%x" % (c, rng.below(B // 2), place(rng), sd()))
                ops.append("A%d,2,%d,%s,%x" % (c, rng.below(B // 2), place(rng), sd()))
        stages.append(st)
    probes = []
    for c in range(n):
        for _ in range(1 + rng.below(3)):
            fl = rng.choice([0, 1, 2, 3, 1, 3, rng.choice(BAD_FLAGS)])
            probes.append("S%d,%x,%d,%s,%x" % (c, fl, rng.choice([0, 1, B, seg_len(rng, B)]), place(rng), sd()))
    # shuffle the probes a little, interleave a flush now and then
    for i in range(len(probes) - 1, 0, -1):
        j = rng.below(i + 1)
        probes[i], probes[j] = probes[j], probes[i]
    for p in probes:
        ops.append(p)
        if rng.below(5) == 0:
            ops.append("F")
    # the history goes on: more messages on the same and on other contexts
    tail = []
    for c in range(n + 1 + rng.below(3)):
        if rng.below(2):
            tail += message(rng, B, c)
    ops += ["D"] + tail + ["D"]
    return {"algo": algo, "fam": family, "mode": mode, "nctx": n + 3, "tmo": 20, "ops": ops, "aim": "inflight-resubmit"}


def gen_padcases(rng, algo, family, mode):
    """deterministic coverage of the padding case split: one context per residue of the TOTAL
    length modulo the block size in {B-F-2, B-F-1, B-F, B-F+1, B-1, 0, 1} (F = size of the length
    field: the padding fits the last block up to B-F-1 and spills into a second block from B-F),
    total = residue + k*B, each total cut into 1-4 segments at random (empty segments allowed)"""
    B = block(algo)
    F = cfg()["algos"][algo]["lenfld"]
    residues = [B - F - 2, B - F - 1, B - F, B - F + 1, B - 1, 0, 1]
    streams = []
    for c, r in enumerate(residues):
        total = r + rng.below(3) * B
        nseg = 1 + rng.below(4)
        cuts = sorted(rng.below(total + 1) for _ in range(nseg - 1))
        lens = [b - a for a, b in zip([0] + cuts, cuts + [total])]
        if nseg == 1:
            fl = [3]
        else:
            fl = [1] + [0] * (nseg - 2) + [2]
        streams.append(["A%d,%x,%d,%s,%x" % (c, f, l, place(rng), rng.next() & 0xffffffffffff) for f, l in zip(fl, lens)])
    ops = sprinkle_flush(rng, interleave(rng, streams), [0, 5][rng.below(2)])
    return {"algo": algo, "fam": family, "mode": mode, "nctx": len(residues), "tmo": 20, "ops": ops + ["D"], "aim": "pad-residues"}


def gen_reject(rng, algo, family, mode):
    """the malformed stream: a valid history with rejected submits injected at random points:
    bad flags (any value with a bit outside FIRST|LAST), a submit on a context that is in
    flight, UPDATE/LAST on a completed or never-started context; the history then continues
    and every later return code is observed"""
    base = gen_mix(rng, algo, family, mode) if rng.below(3) else gen_occupancy(rng, algo, family, mode)
    B = block(algo)
    ops = list(base["ops"])
    nctx = base["nctx"] + 1           # one context that the valid history never starts
    fresh = nctx - 1
    n_inj = 1 + rng.below(4)
    sd = lambda: rng.next() & 0xffffffffffff
    for _ in range(n_inj):
        pos = rng.below(len(ops))     # before the final D
        kind = rng.below(12)
        if kind >= 10:
            # a submit on a context that was JUST queued, for each stage it can be in flight in:
            # body blocks (status PROCESSING), body blocks of a LAST segment (PROCESSING|LAST),
            # padding blocks (PROCESSING|COMPLETE: a short LAST/ENTIRE) x every flags value
            cand = [i for i, o in enumerate(ops) if re.match(r"A\d+,[0-3],", o)]
            if cand:
                i = rng.choice(cand)
                c0 = int(re.match(r"A(\d+),", ops[i]).group(1))
                ops[i + 1:i + 1] = ["S%d,%x,%d,%s,%x" % (c0, rng.choice([0, 1, 2, 3, 1, 3]), seg_len(rng, B), place(rng), sd())]
                continue
            kind = 5
        # a context the preceding op just touched is the likeliest to be in flight / idle
        recent = [int(re.match(r"[AS](\d+),", o).group(1)) for o in ops[max(0, pos - 6):pos] if re.match(r"[AS](\d+),", o)]
        tgt = rng.choice(recent) if recent and rng.below(4) else rng.below(nctx)
        if kind < 4:
            fl = rng.choice(BAD_FLAGS) if rng.below(4) else (rng.next() & 0xffffffff) | 4
            inj = ["S%d,%x,%d,%s,%x" % (tgt, fl, seg_len(rng, B), place(rng), sd())]
        elif kind < 7:
            inj = ["S%d,%x,%d,%s,%x" % (tgt, rng.choice([0, 1, 2, 3]), seg_len(rng, B), place(rng), sd())]
        elif kind < 9:
            inj = ["S%d,%x,%d,%s,%x" % (fresh if rng.below(2) else tgt, rng.choice([0, 2]), seg_len(rng, B), place(rng), sd())]
        else:                          # several rejections in a row on different contexts
            inj = ["S%d,%x,%d,%s,%x" % (rng.below(nctx), rng.choice(BAD_FLAGS + [0, 2]), rng.below(B), place(rng), sd())
                   for _ in range(2 + rng.below(3))]
        ops[pos:pos] = inj
    if rng.below(3) == 0:
        # after everything has drained: continue / restart the rejected contexts and drain again
        tail = []
        for c in range(nctx):
            if rng.below(3) == 0:
                tail += message(rng, B, c)
        ops += tail + ["D"]
    return dict(base, nctx=nctx, ops=ops, aim="reject+" + base["aim"])


_wrapper_ok = None


def wrapper_pairs():
    """the pairs the real dispatcher binds under the virtual CPUID preset named after the
    family (probed on the current build).  A family the dispatcher of this build never selects
    (sm3/avx512 in the Makefile.unx build: HAVE_AS_KNOWS_AVX512 is not defined there, the
    3-level dispatcher is assembled) is driven through its entry points only; which families
    a CPUID assignment may bind is C12's subject, not this vertical's."""
    global _wrapper_ok
    if _wrapper_ok is None:
        ps = pairs()
        cases = [{"algo": a, "fam": f, "mode": "W", "nctx": 1, "tmo": 10, "ops": ["A0,3,3,e,1", "F", "D"]} for a, f in ps]
        nexe = native_driver()
        out, _ = vlib.run_driver(nexe, "\n".join(case_line("p%d" % i, c) for i, c in enumerate(cases)), timeout=120)
        _wrapper_ok = {}
        for i, (a, f) in enumerate(ps):
            end = parse_native(out["p%d" % i])["end"]
            _wrapper_ok[(a, f)] = end.get("wbound", "?")
    return _wrapper_ok


def gen_cases(rng, n_per_pair, profile, wrapper_share=35, only=None):
    """n_per_pair histories for every (algo, family); profile = {"mix": w, "occ": w, "reject": w}"""
    out = []
    kinds = [k for k, w in profile.items() if k != "pad_fixed" for _ in range(w)]
    for algo, family in pairs():
        if only and (algo, family) not in only:
            continue
        f = fam(algo, family)
        occ_cycle = 0
        # the padding residues are covered in every run for every pair, not by chance
        for i in range(max(2, n_per_pair // 8) if profile.get("pad_fixed") else 0):
            mode = "W" if i % 3 == 2 and wrapper_pairs().get((algo, family)) == "ok" else "D"
            out.append(gen_padcases(rng, algo, family, mode))
        for i in range(n_per_pair):
            mode = "W" if rng.below(100) < wrapper_share else "D"
            if mode == "W" and wrapper_pairs().get((algo, family)) != "ok":
                mode = "D"
            k = rng.choice(kinds)
            if k == "mix":
                c = gen_mix(rng, algo, family, mode)
            elif k == "inflight":
                c = gen_inflight(rng, algo, family, mode)
            elif k == "pad":
                c = gen_padcases(rng, algo, family, mode)
            elif k == "occ":
                # every occupancy value 0..lanes is visited in turn
                c = gen_occupancy(rng, algo, family, mode, target=occ_cycle % (f["lanes"] + 1))
                occ_cycle += 1
            else:
                c = gen_reject(rng, algo, family, mode)
            out.append(c)
    return out


def case_line(cid, c):
    return "H %s %s %s %s %d %d %s" % (cid, c["algo"], c["fam"], c["mode"], c["nctx"], c.get("tmo", 20), " ".join(c["ops"]))


# ----------------------------------------------------------------------------- running and parsing

def run_cases(cases, what="01", prefix="c", shards=None):
    """run the native driver over the cases and the model driver over the observed traces;
    -> (native lines, model lines) keyed by case id"""
    nexe, mexe = native_driver(), model_driver()
    ids = ["%s%d" % (prefix, k) for k in range(len(cases))]
    ntxt = "\n".join(case_line(i, c) for i, c in zip(ids, cases))
    nout, nerr = vlib.run_driver(nexe, ntxt, timeout=3000, shards=shards)
    mtxt = "\n".join("T %s %s %d %s %d %s" % (i, c["algo"], fam(c["algo"], c["fam"])["lanes"] + 1, what, c["nctx"], nout[i])
                     for i, c in zip(ids, cases))
    mout, merr = vlib.run_driver(mexe, mtxt, timeout=3000, shards=shards)
    return ids, nout, mout


def parse_native(line):
    """-> {"head": [...], "calls": [{"call": [tokens], "obs": [tokens], "kv": {}}], "end": {}, "abort": str|None}"""
    segs = line.split(" | ")
    res = {"head": segs[0].split(), "calls": [], "end": {}, "abort": None}
    for s in segs[1:]:
        t = s.split()
        if not t:
            continue
        if t[0] == "end":
            res["end"] = dict(x.split("=", 1) for x in t[1:] if "=" in x)
            if len(t) > 1 and "=" not in t[1]:
                res["end"]["abnormal"] = t[1]
            continue
        if t[0] in ("nodrain", "stranded", "badop"):
            res["abort"] = t[0]
            continue
        if ">" in t:
            i = t.index(">")
            call, obs = t[:i], t[i + 1:]
        else:
            call, obs = t, []
        kvs = dict(x.split("=", 1) for x in obs if "=" in x)
        rec = {"call": call, "obs": obs, "kv": kvs}
        if "TIMEOUT" in obs:
            res["abort"] = "timeout"
        if "FAULT" in obs:
            res["abort"] = "fault " + " ".join(x for x in obs if x.startswith(("sig=", "addr=")))
        res["calls"].append(rec)
    if "<no-output" in line:
        res["abort"] = "driver died: " + line[-60:]
    elif not res["end"] and not res["abort"]:
        res["abort"] = "truncated output"
    return res


def parse_model(line):
    segs = line.split(" | ")
    head = segs[0].split()
    kvs = dict(x.split("=", 1) for x in head[1:] if "=" in x)
    calls = []
    for s in segs[1:]:
        t = s.split()
        i = t.index(">") if ">" in t else len(t)
        calls.append({"call": t[:i], "obs": t[i + 1:], "kv": dict(x.split("=", 1) for x in t[i + 1:] if "=" in x)})
    fails = [] if kvs.get("L0") in ("ok", "na", None) else kvs["L0"].split(";")
    return {"L0": kvs.get("L0", "?"), "fails": fails, "cls": kvs.get("cls", "").split(","),
            "nf": kvs.get("nf", "-").split(","), "calls": calls}


def concrete_ops(nat):
    """the executed calls of a native trace as unconditional ops (a replayable history)"""
    ops = []
    for r in nat["calls"]:
        c = r["call"]
        if c[0] == "S":
            ops.append("S%s,%s,%s,%s,%s" % (c[1], c[2], c[3], c[4], c[5]))
        elif c[0] == "F":
            ops.append("F")
        elif c[0] == "I":
            ops.append("I%s" % c[1])
        elif c[0] == "J":
            ops.append("J%s,%s,%s,%s" % (c[1], c[2], c[3], c[4]))
        elif c[0] == "B":
            ops.append("B%s,%s,%s,%s" % (c[1], c[2], c[3], c[4]))
        elif c[0] == "V":
            ops.append("V%s,%s,%s" % (c[1], c[2], c[3]))
    return ops


# which property a failure belongs to.  An L0 refusal is a refusal of the conjunction
# C01 & C06 & C11 & C15; the diagnosis says which conjunct.
def attribute(reason, case, nat, k):
    r = reason.split(":")[0]
    if r == "rej_ret":
        # a submit the specification rejects was not handed straight back: the rejection did
        # not happen (C11); when the context was in flight the job is now held twice (C06)
        return "C06+C11"
    if r in ("rej_err", "rej_rc", "rej_status", "rc", "own_err", "frame"):
        return "C11"
    if r == "total":
        return "C15"
    if r == "digest":
        # a wrong digest is a C01 failure whatever the length; past 2^29 it is also C15's
        big = any(o[0] in "JBV" for o in case["ops"])
        return "C01+C15" if big else "C01"
    if r in ("status", "notheld", "overfull", "nullheld", "stranded", "nodrain", "userdata", "userbuf", "foreign"):
        return "C06"
    return "ALL"           # fault, timeout, truncated output: no property holds on such a run


def examine(case, nline, mline):
    """-> (failures, whitebox) for one case.
    failures: [{"prop": "C01".., "reason", "call": k, "detail"}] — observable, decided by the L0
    acceptor (or by the harness: fault, timeout, stranded, caller data modified, rejected call
    that changed memory); whitebox: first L1-vs-code difference or None."""
    nat, mod = parse_native(nline), parse_model(mline)
    fails = []
    sync = fam(case["algo"], case["fam"])["sync"]
    def add(reason, k, detail=""):
        fails.append({"prop": attribute(reason, case, nat, k), "reason": reason, "call": k, "detail": detail})
    if nat["abort"]:
        add(nat["abort"].split()[0], len(nat["calls"]) - 1, nat["abort"])
    for f in mod["fails"]:
        m = re.match(r"fail@(\d+):(.*)", f)
        if m:
            add(m.group(2), int(m.group(1)))
    if nat["end"]:
        if nat["end"].get("ub", "0") != "0":
            add("userbuf", len(nat["calls"]), "%s caller buffers modified" % nat["end"]["ub"])
        if nat["end"].get("ud", "0") != "0":
            add("userdata", len(nat["calls"]), "user_data of %s contexts modified" % nat["end"]["ud"])
    for k, r in enumerate(nat["calls"]):
        if r["kv"].get("r") == "?":
            add("foreign", k, "a pointer that is no context of the caller was handed back")
        # C11 frame: a call the specification rejects may change only the error field of its own context
        if k < len(mod["cls"]) and mod["cls"][k].startswith("r") and "d" in r["kv"]:
            mg, others, own = r["kv"]["d"].split(".")
            if mg != "0" or others != "0" or int(own, 16) & ~4:
                add("frame", k, "rejected submit changed memory: manager=%s other contexts=%s own field mask=%s "
                    "(1 digest 2 status 4 error 8 total 16 incoming 32 partial buffer 64 partial length 128 user_data 256 job)" % (mg, others, own))
    wb = None
    if nat["end"].get("wbound", "ok") != "ok":
        wb = {"call": 0, "what": "the virtual CPUID preset for family %s made the dispatcher bind %s: the isal_ wrappers of this family were not exercised"
              % (case["fam"], nat["end"]["wbound"])}
    # white-box: manager occupancy against the acceptor's count of contexts in flight
    if not sync and not fails and wb is None:
        for k, r in enumerate(nat["calls"]):
            if "u" in r["kv"] and k < len(mod["nf"]) and mod["nf"][k].isdigit() and r["kv"]["u"] != mod["nf"][k]:
                wb = {"call": k, "what": "num_lanes_inuse=%s but %s contexts are in flight" % (r["kv"]["u"], mod["nf"][k])}
                break
    # white-box: the L1 model replayed with the observed schedule against every observed field
    if mod["calls"] and wb is None:
        mc = mod["calls"]
        for k, r in enumerate(nat["calls"]):
            if k >= len(mc):
                break
            m = mc[k]
            if r["call"][0] == "B":
                continue
            for key in ("r", "rc", "st", "er", "tl", "dg", "w"):
                a, b = r["kv"].get(key), m["kv"].get(key)
                if key == "w" and a is not None and b is not None and sync and case["fam"] == "base":
                    # the base family never touches incoming_buffer_length: not compared
                    a = re.sub(r"(=[0-9a-f]+:\d+:[0-9a-f]+:\d+:)[^:]*:", r"\1-:", a)
                    b = re.sub(r"(=[0-9a-f]+:\d+:[0-9a-f]+:\d+:)[^:]*:", r"\1-:", b)
                if a != b:
                    wb = {"call": k, "what": "field %s: code %s model %s" % (key, a, b), "op": " ".join(r["call"])}
                    break
            if wb:
                break
    return fails, wb, nat, mod


# ----------------------------------------------------------------------------- minimisation

def _renumber(case):
    """drop contexts that no op mentions"""
    used = sorted({int(m.group(1)) for o in case["ops"] for m in [re.match(r"[SAIPJV](\d+)", o)] if m})
    if any(o[0] == "B" for o in case["ops"]):
        return case
    mp = {c: i for i, c in enumerate(used)}
    ops = [re.sub(r"^([SAIPJV])(\d+)", lambda m: m.group(1) + str(mp[int(m.group(2))]), o) for o in case["ops"]]
    return dict(case, ops=ops, nctx=max(1, len(used)))


def minimise(case, pred, budget=120):
    """greedy delta debugging of a concrete history: drop calls (chunks, then single), drop
    contexts, shrink lengths.  pred(case) -> True when the failure of interest still shows."""
    cur = case
    def attempt(c):
        nonlocal budget
        if budget <= 0:
            return False
        budget -= 1
        try:
            return pred(c)
        except Exception:
            return False
    changed = True
    while changed and budget > 0:
        changed = False
        n = len(cur["ops"])
        chunk = max(1, n // 2)
        while chunk >= 1 and budget > 0:
            i = 0
            while i < len(cur["ops"]) and budget > 0:
                cand = dict(cur, ops=cur["ops"][:i] + cur["ops"][i + chunk:])
                if cand["ops"] and attempt(cand):
                    cur = cand
                    changed = True
                else:
                    i += chunk
            chunk //= 2
        r = _renumber(cur)
        if r["nctx"] < cur["nctx"] and attempt(r):
            cur = r
            changed = True
        for i, o in enumerate(cur["ops"]):
            m = re.match(r"S(\d+),([0-9a-f]+),(\d+),(.*)$", o)
            if not m or budget <= 0:
                continue
            ln = int(m.group(3))
            B = block(cur["algo"])
            for nl in sorted({0, 1, ln // 2, ln - ln % B, B, ln - 1} - {ln}):
                if 0 <= nl < ln:
                    cand = dict(cur, ops=cur["ops"][:i] + ["S%s,%s,%d,%s" % (m.group(1), m.group(2), nl, m.group(4))] + cur["ops"][i + 1:])
                    if attempt(cand):
                        cur = cand
                        changed = True
                        break
    return cur


def signature(case, fail, nat=None):
    """what known_findings.json entries match on"""
    r = fail["reason"].split(":")[0]
    sig = {"kind": r, "family": case["fam"], "algo": case["algo"], "mode": case["mode"],
           "family_class": "base" if case["fam"] == "base" else "mb"}
    if r == "own_err":
        sig["kind"] = "sticky_error"
    if r == "rc" and nat is not None and fail["call"] < len(nat["calls"]):
        rec = nat["calls"][fail["call"]]
        own = rec["call"][0] == "S" and rec["kv"].get("r") == rec["call"][1]
        # a valid call reported as failed: because of the error left on ANOTHER context that it
        # hands back (stale), or because of the error left on its own context (sticky)
        sig["kind"] = "sticky_error" if own else "stale_rc"
    return sig


# ----------------------------------------------------------------------------- the engine shared by the four checks

def coq_step(rep, pid):
    """regenerate Gen/HashCfgGen.v, build the extraction and this property's obligations.
    Properties/<pid>.v is written by the proof vertical; while it does not exist only what
    exists is built and the obligations are the configuration lemmas of Gen/HashCfgGen.v."""
    g = gen()
    vfile = os.path.join(vlib.COQ, "Properties", pid + ".v")
    if os.path.exists(vfile):
        ok, broken = vlib.coq_step(rep, pid, g, extract="Hash", extra_targets=["Gen/HashCfgGen.vo"])
    else:
        for path, content in g.items():
            vlib.write_if_changed(os.path.join(vlib.COQ, path), content)
        os.makedirs(os.path.join(vlib.COQ, "Extract", "out"), exist_ok=True)
        okx, logx = vlib.coq_make(["Extract/Hash.vo"])
        if not okx:
            raise RuntimeError("model/extraction build failed: %s" % vlib.first_coq_error(logx))
        ok, log = vlib.coq_make(["Gen/HashCfgGen.vo"])
        broken = None if ok else vlib.first_coq_error(log)
        rep.cov["trusted_base"] = list(vlib.TRUSTED_BASE)
        rep.notes["coq_note"] = "Properties/%s.v not present in this tree: only the regenerated configuration obligations were checked" % pid
    # the configuration obligations, by name (they are lemmas of the regenerated file)
    cfg_ok = os.path.exists(os.path.join(vlib.COQ, "Gen", "HashCfgGen.vo")) and (ok or (broken or {}).get("file", "").find("HashCfgGen") < 0)
    for n in ("gen_hconsts_ok", "gen_halgos_ok", "gen_hfams_ok", "gen_hfams_expected"):
        rep.obligation("Gen/HashCfgGen.v:" + n, cfg_ok, "" if cfg_ok else "regenerated configuration no longer satisfies Model/HashCfg.v")
    return ok, broken


def distribution(dist, case, nat, mod):
    B = block(case["algo"])
    def bump(d, k):
        dist.setdefault(d, {})
        dist[d][k] = dist[d].get(k, 0) + 1
    bump("pair", case["algo"] + "/" + case["fam"])
    bump("mode", case["mode"])
    bump("aim", re.sub(r"\d+/\d+", "", case.get("aim", "?")))
    bump("nctx", min(case["nctx"], 99) // 8 * 8)
    for k, r in enumerate(nat["calls"]):
        c = r["call"]
        if c[0] == "S":
            ln = int(c[3])
            fl = int(c[2], 16)
            bump("seglen", "0" if ln == 0 else "<B" if ln < B else "=B" if ln == B else "kB" if ln % B == 0 else ">B")
            bump("flags", ["UPDATE", "FIRST", "LAST", "ENTIRE"][fl] if fl < 4 else "invalid")
            al = (-ln) % 64 if c[4] == "e" else int(c[4][1:])
            bump("align", "buffer start %% 64 in %s" % ("{0}" if al == 0 else "1..15" if al < 16 else "16..31" if al < 32 else "32..63"))
            bump("placement", "end flush against PROT_NONE page" if c[4] == "e" else "start after PROT_NONE page + 0..63")
        elif c[0] == "F":
            bump("flush", "returned NULL" if r["kv"].get("r") == "-" else "returned a context")
        if k < len(mod["cls"]):
            bump("spec_class", {"a": "accepted", "r1": "rejected INVALID_FLAGS", "r2": "rejected ALREADY_PROCESSING",
                                "r3": "rejected ALREADY_COMPLETED", "f": "flush", "i": "re-init"}.get(mod["cls"][k], mod["cls"][k]))
        if k < len(mod["nf"]) and mod["nf"][k].isdigit():
            bump("in_flight_after_call", int(mod["nf"][k]))


def nontrivial(nat):
    """at least one context handed back COMPLETE after at least one non-empty accepted segment"""
    data = any(r["call"][0] == "S" and int(r["call"][3]) > 0 for r in nat["calls"])
    done = any(r["kv"].get("st") == "4" and r["kv"].get("er") == "0" for r in nat["calls"])
    return data and done


def run_engine(rep, pid, cases, what="01", dist=None, label="gen", shards=None, keep=None):
    """run cases; returns (failures, first white-box break).  failures = [(case, fail, nat, nline, mline)]"""
    if not cases:
        return [], None
    ids, nout, mout = run_cases(cases, what, shards=shards)
    failures, wb_first = [], None
    if keep is not None:
        keep.update({"ids": ids, "native": nout, "model": mout})
    for i, c in zip(ids, cases):
        fails, wb, nat, mod = examine(c, nout[i], mout[i])
        rep.case(hashlib.sha256(case_line("x", c).encode()).hexdigest(), nontrivial(nat))
        rep.cov["calls_observed"] = rep.cov.get("calls_observed", 0) + len(nat["calls"])
        if dist is not None:
            distribution(dist, c, nat, mod)
        for f in fails:
            failures.append((c, f, nat, nout[i], mout[i]))
        if wb and wb_first is None and not fails:
            wb_first = (c, wb, nout[i], mout[i])
        if len(rep.cov["samples"]) < 3 and label == "gen":
            rep.sample({"case": case_line(i, c)[:300], "observed": nout[i][:400], "acceptor": mout[i].split(" | ")[0][:200]})
    return failures, wb_first


def report(rep, pid, failures, max_min=4):
    """turn the failures attributed to this property into violations (minimised replay each,
    one per signature); returns counts per property for the evidence"""
    by_prop = {}
    seen = {}
    for c, f, nat, nline, mline in failures:
        by_prop[f["prop"]] = by_prop.get(f["prop"], 0) + 1
        if pid not in f["prop"] and f["prop"] != "ALL":
            continue
        sig = signature(c, f, nat)
        key = (sig["kind"], sig["family_class"], c["algo"] if sig["kind"] not in ("stale_rc", "sticky_error") else "")
        seen.setdefault(key, []).append((c, f, nat, nline, mline, sig))
    for key, items in seen.items():
        items.sort(key=lambda it: len(it[2]["calls"]))
        c, f, nat, nline, mline, sig = items[0]
        conc = dict(c, ops=concrete_ops(nat), aim="replay") if nat["calls"] and not nat["abort"] else c
        kind0 = f["reason"].split(":")[0]
        if len(seen) <= max_min and rep.match_known(sig) is None:
            def pred(cc):
                ids, no, mo = run_cases([cc], "0", prefix="m")
                fl, _, _, _ = examine(cc, no[ids[0]], mo[ids[0]])
                return any(x["prop"] == f["prop"] and x["reason"].split(":")[0] == kind0 for x in fl)
            if any(o[0] in "BV" for o in conc["ops"]):
                pred = None          # long streams are not minimised (each run costs seconds)
            try:
                if pred is not None and pred(conc):
                    conc = minimise(conc, pred)
            except Exception:
                pass
        if any(o[0] in "BV" for o in conc["ops"]):
            detail = f.get("detail", "")
            rep.violation("%s/%s: %s %s" % (c["algo"], c["fam"], explain(f["reason"]), detail),
                          {"algo": c["algo"], "fam": c["fam"], "mode": c["mode"], "nctx": c["nctx"], "ops": c["ops"],
                           "failure": f["reason"], "failing_call": f["call"], "observed": nline[:4000], "detail": detail}, sig)
            continue
        ids, no, mo = run_cases([conc], "01", prefix="r")
        fl, wb, nat2, mod2 = examine(conc, no[ids[0]], mo[ids[0]])
        same = [x for x in fl if x["prop"] == f["prop"] and x["reason"].split(":")[0] == kind0]
        ff = same[0] if same else f
        if not same:
            conc, no, mo = c, {ids[0]: nline}, {ids[0]: mline}
        what = "%s/%s (%s): call #%d %s — %s %s [%d such cases]" % (
            conc["algo"], conc["fam"], "isal_ wrapper via dispatcher" if conc["mode"] == "W" else "family entry points",
            ff["call"], describe_call(nat2 if same else nat, ff["call"]), explain(ff["reason"]), ff.get("detail", ""), len(items))
        rep.violation(what, {"algo": conc["algo"], "fam": conc["fam"], "mode": conc["mode"], "nctx": conc["nctx"],
                             "ops": conc["ops"], "failure": ff["reason"], "failing_call": ff["call"],
                             "observed": no[ids[0]], "acceptor": mo[ids[0]].split(" | ")[0],
                             "oracle": "Spec.HashApiSpec.spec_check (extracted) over the observed trace"}, sig)
    return by_prop


def describe_call(nat, k):
    if k < len(nat["calls"]):
        r = nat["calls"][k]
        return "`%s` -> %s" % (" ".join(r["call"]), " ".join(x for x in r["obs"] if not x.startswith(("w=", "dg=", "m="))))
    return "(end of history)"


def explain(reason):
    r = reason.split(":")[0]
    return {"rc": "a valid call returned a non-zero code",
            "own_err": "an accepted submit handed its own context back with error set",
            "rej_rc": "a rejected submit returned the wrong code",
            "rej_err": "a rejected submit set the wrong error",
            "rej_ret": "a rejected submit did not hand its context straight back",
            "rej_status": "a rejected submit changed the status/digest the caller sees",
            "frame": "a rejected submit changed more than its own error field",
            "digest": "a context was handed back complete with a digest that is not the standard hash of its stream",
            "total": "total_length is not the sum of the accepted segment lengths",
            "status": "a context was handed back with the wrong status",
            "notheld": "a context that was not in flight was handed back (duplicated / never submitted)",
            "overfull": "the manager holds more contexts than it has lanes",
            "nullheld": "flush returned no context while contexts are in flight",
            "stranded": "contexts stay marked as processing although flush reports an empty manager",
            "nodrain": "repeated flushing does not drain the manager",
            "timeout": "the call did not return (hang)", "fault": "the call crashed",
            "userbuf": "a caller buffer was modified", "userdata": "user_data was modified",
            "foreign": "a pointer that is not one of the caller's contexts was handed back"}.get(r, r) + " [" + reason[:160] + "]"


def load_corpus():
    try:
        with open(CORPUS) as fh:
            return json.load(fh)
    except FileNotFoundError:
        return []


def corpus_cases(only_pairs=None):
    """minimised failing histories found earlier (by mutation runs and on the original tree);
    each is run for every family of its algorithm class it applies to"""
    out = []
    have = set(pairs())
    for e in load_corpus():
        targets = [(a, f) for (a, f) in have if (e.get("algo") in (None, "*", a)) and (e.get("fam") in (None, "*", f) or
                   (e.get("fam") == "mb" and f != "base"))]
        for a, f in targets:
            if only_pairs and (a, f) not in only_pairs:
                continue
            B = block(a)
            ops = [o.replace("{B}", str(B)).replace("{B-1}", str(B - 1)).replace("{B+1}", str(B + 1)).replace("{2B}", str(2 * B)) for o in e["ops"]]
            for mode in e.get("modes", ["D", "W"]):
                if mode == "W" and wrapper_pairs().get((a, f)) != "ok":
                    continue
                out.append({"algo": a, "fam": f, "mode": mode, "nctx": e["nctx"], "tmo": 20, "ops": ops, "aim": "corpus:" + e["name"]})
    return out


def replay_case(path):
    r = json.load(open(path))["replay"]
    big = any(o[0] in "BV" for o in r["ops"])
    c = {"algo": r["algo"], "fam": r["fam"], "mode": r["mode"], "nctx": r["nctx"], "tmo": 1500 if big else 60, "ops": r["ops"], "aim": "replay"}
    for o in r["ops"]:
        if o[0] == "B":
            a = o[1:].split(",")
            c["long"] = (int(a[1]), int(a[2]), int(a[3], 16))
            c["T"] = 0
    return c


ASSUMPTIONS = [
    "the SIMD/SHA-NI kernels and the lane schedulers are modelled (abstract manager with an arbitrary scheduling oracle), not verified; "
    "they are tied to the model only on the generated histories, through every family's entry points",
    "caller buffers are immutable from submit until the context is handed back (API contract); the harness checks the library does not modify them",
    "single submits of 2^31 bytes and more are exercised only by C15's thorough tier",
    "the L0 acceptor's bound K is lanes+1 (\"never holds more contexts than it has lanes\"), lanes decoded from the family's manager init function",
]


# ----------------------------------------------------------------------------- C15: totals across 2^29 / 2^32

THRESHOLDS = {"2^29": 1 << 29, "2^32": 1 << 32, "2^32+2^29": (1 << 32) + (1 << 29)}


def gen_inject(rng, algo, family, mode, T):
    """state-injection correspondence: every context of the case is put IDLE in a mid-stream
    state with an arbitrary chaining value, total_length = pre + plen where pre = T - k*B and
    plen = total mod B bytes waiting in the partial block buffer, then continued with a few
    UPDATE segments that cross T and a LAST.  One chain and one pre per case (so that the L0
    acceptor runs over Model.HashObs.shift_algo); d = T - total and the residue vary per context."""
    f = fam(algo, family)
    B = block(algo)
    lanes = f["lanes"]
    nctx = 1 + rng.below(max(1, lanes) + 2)
    k = rng.choice([0, 1, 1, 2, 3, 5])
    pre = T - k * B
    cseed = rng.next() & 0xffffffffffff
    ops, streams = [], []
    for c in range(nctx):
        F = cfg()["algos"][algo]["lenfld"]
        plen = rng.choice([0, 1, B - 1, B - F - 1, B - F, B - F + 1, B - F - 2, B // 2, rng.below(B)]) % B
        ops.append("J%d,%x,%d,%x" % (c, pre + plen, plen, cseed))
        segs = [(0, seg_len(rng, B)) for _ in range(rng.below(4))]
        # make sure the running total passes T (k blocks away) in most cases
        if rng.below(4):
            segs.insert(rng.below(len(segs) + 1), (0, k * B + rng.choice([0, 1, B - 1, B, rng.below(2 * B)])))
        segs.append((2, 0 if rng.below(3) == 0 else seg_len(rng, B)))
        streams.append(["A%d,%x,%d,%s,%x" % (c, fl, ln, place(rng), rng.next() & 0xffffffffffff) for fl, ln in segs])
    ops += sprinkle_flush(rng, interleave(rng, streams), [0, 5, 20][rng.below(3)])
    return {"algo": algo, "fam": family, "mode": mode, "nctx": nctx, "tmo": 30, "ops": ops + ["D"],
            "aim": "inject@%s-%dB" % ([n for n, v in THRESHOLDS.items() if v == T][0], k), "T": T}


def long_params(algo, T):
    """(len, count) of the shared-buffer submits whose sum is a few blocks short of T"""
    B = block(algo)
    count = T >> 26                     # 64 MiB pieces: 8, 64, 72
    k = 72 * 64 // B if count == 72 else (2 if B == 64 else 1) * 8
    # k*B must be divisible by count: T=2^29: 8 | k*B; 2^32: 64 | k*B; 2^32+2^29: 72 | k*B
    while (k * B) % count:
        k += 1
    return (T - k * B) // count, count, k


def gen_long(rng, algo, family, mode, T, seed=0xB16):
    """real long streams with a model checkpoint: all lanes busy with the same 64 MiB buffer
    submitted count times (total = T - k*B, not a multiple of the block size per submit), the
    context fields are read there (the B record) and the model / acceptor continue from that
    observed state over the segments that cross T, the padding and the final digest"""
    f = fam(algo, family)
    B = block(algo)
    nc = max(1, f["lanes"])
    ln, count, k = long_params(algo, T)
    ops = ["B%d,%d,%d,%x" % (nc, ln, count, seed)]
    streams = []
    for c in range(nc):
        segs = [(0, rng.choice([1, B - 1, B, k * B - 1, k * B, k * B + 1, rng.below(k * B + 2 * B)]))]
        if rng.below(2):
            segs.append((0, seg_len(rng, B)))
        segs.append((2, rng.choice([0, 1, seg_len(rng, B), 2 * k * B + rng.below(B)])))
        streams.append(["A%d,%x,%d,%s,%x" % (c, fl, l, place(rng), rng.next() & 0xffffffffffff) for fl, l in segs])
    ops += interleave(rng, streams)
    return {"algo": algo, "fam": family, "mode": mode, "nctx": nc, "tmo": 1500, "ops": ops + ["D"],
            "aim": "long@%s" % [n for n, v in THRESHOLDS.items() if v == T][0], "T": T, "long": (ln, count, seed)}


def gen_virtual(algo, family, mode="D"):
    """one submit of 2^32 - B bytes (the largest whole-block length a uint32 can carry) read
    through a 4 GiB virtual mapping of one physical page"""
    B = block(algo)
    return {"algo": algo, "fam": family, "mode": mode, "nctx": 1, "tmo": 1500, "ops": ["V0,%d,3" % ((1 << 32) - B)],
            "aim": "single 2^32-B submit"}


def big_buffer_bytes(seed, n):
    """first n bytes of the native driver's shared 64 MiB buffer"""
    mb = bytearray(vlib.SplitMix64(seed).bytes(1 << 20))
    out = bytearray()
    i = 0
    while len(out) < n:
        m = bytearray(mb)
        m[0] ^= i & 0xff
        out += m
        i += 1
    return bytes(out[:n])


def digest_bytes_of_words(algo, words_str):
    """library digest words (as printed) -> the standard's digest bytes"""
    ws = [int(w, 16) for w in words_str.split(".")]
    wb = cfg()["algos"][algo]["wordbits"] // 8
    order = "little" if algo in ("md5", "sm3") else "big"
    return b"".join(w.to_bytes(wb, order) for w in ws)


def hashlib_new(algo):
    import hashlib as H
    try:
        return H.new(algo)
    except Exception:
        return None


# ----------------------------------------------------------------------------- systematic (not sampled) histories

def systematic_cases(rng):
    """Deterministic short histories run in EVERY quick and thorough run of C01/C06/C11 for EVERY
    (algorithm, family) pair and both entry layers where reachable (family entry points; isal_
    wrappers through the dispatcher).  Only the data seeds come from the PRNG.
    1. in-flight resubmission: a context is put into each stage it can be in flight in —
       PROCESSING (FIRST data, 2 blocks + tail), PROCESSING|LAST (LAST data, 2 blocks + tail),
       PROCESSING|COMPLETE (padding stage: ENTIRE shorter than a block) — with and without a
       bystander context in flight, then THE SAME context is resubmitted with each flags value
       FIRST, UPDATE, LAST, ENTIRE and an invalid one; drain; restart the context; drain.
       3 stages x 5 flags x 2 = 30 histories per pair and layer.
    2. one history each: zero-length LAST that fills the manager; the submit that hands a job back
       (lanes full) followed IMMEDIATELY by flush; flush with exactly one live lane; flush on the
       empty manager (before anything, and after draining); context reuse after completion."""
    out = []
    wok = wrapper_pairs()
    sd = lambda: rng.next() & 0xffffffffffff
    for algo, family in pairs():
        f = fam(algo, family)
        B = block(algo)
        lanes = f["lanes"]
        modes = ["D"] + (["W"] if wok.get((algo, family)) == "ok" else [])
        for mode in modes:
            def case(ops, nctx, aim):
                out.append({"algo": algo, "fam": family, "mode": mode, "nctx": nctx, "tmo": 20, "ops": ops, "aim": aim})
            for stage in ("P", "PL", "PC"):
                for fl in (1, 0, 2, 3, 4):
                    for bystander in (0, 1):
                        ops = []
                        if bystander:
                            ops.append("S1,1,%d,b9,%x" % (3 * B + 2, sd()))
                        if stage == "P":
                            ops.append("S0,1,%d,e,%x" % (2 * B + 5, sd()))
                        elif stage == "PL":
                            ops.append("S0,1,5,b3,%x" % sd())
                            ops.append("S0,2,%d,e,%x" % (2 * B + 3, sd()))
                        else:
                            ops.append("S0,3,29,b7,%x" % sd())
                        ops.append("S0,%x,%d,b21,%x" % (fl, B + 1, sd()))
                        ops += ["D", "A0,3,10,e,%x" % sd()]
                        if bystander:
                            ops.append("A1,2,0,e,%x" % sd())
                        ops.append("D")
                        case(ops, 3, "sys:resubmit-%s-fl%x-%s" % (stage, fl, "bystander" if bystander else "alone"))
            L = max(lanes, 1)
            # zero-length LAST that takes the last free lane
            ops = ["S%d,1,%d,b%d,%x" % (c, (c + 2) * B, c % 64, sd()) for c in range(L - 1)]
            ops += ["S%d,1,7,e,%x" % (L - 1, sd()), "S%d,2,0,e,%x" % (L - 1, sd()), "D"]
            ops += ["A%d,2,0,e,%x" % (c, sd()) for c in range(L - 1)] + ["D"]
            case(ops, L + 1, "sys:zero-length-LAST-fills-manager")
            # the submit that hands a job back, immediately followed by flush
            ops = ["S%d,1,%d,e,%x" % (c, (1 + (c * 5) % 7) * B + c, sd()) for c in range(L)] + ["F"]
            ops += ["A%d,2,%d,b5,%x" % (c, c, sd()) for c in range(L)] + ["D"]
            case(ops, L + 1, "sys:full-submit-then-flush")
            # flush with exactly one live lane
            case(["S0,1,%d,e,%x" % (3 * B, sd()), "F", "A0,2,1,e,%x" % sd(), "F", "D"], 2, "sys:flush-one-live-lane")
            # flush on the empty manager, before anything and after draining
            case(["F", "F", "A0,3,%d,b1,%x" % (B + 9, sd()), "D", "F", "F"], 1, "sys:flush-empty")
            # context reuse after completion
            case(["A0,3,70,e,%x" % sd(), "D", "A0,1,%d,e,%x" % (B - 1, sd()), "A0,0,%d,b2,%x" % (B + 1, sd()), "A0,2,0,e,%x" % sd(), "D",
                  "A0,3,0,e,%x" % sd(), "D", "A0,1,0,e,%x" % sd(), "A0,2,%d,e,%x" % (2 * B, sd()), "D"], 1, "sys:context-reuse")
    return out
