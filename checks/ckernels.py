"""ckernels vertical - C compute kernels translated from the current source and PROVED equal to
the specifications for all inputs (docs/ckernels.md).

  kernels_c10(rep, tier)  murmur3 kernels (_murmur3_x64_128_block/_tail)   Properties/C10_kernels.v
  kernels_c01(rep, tier)  hash base block functions (<alg>_single)         Properties/C01_kernels.v

Each: regenerate Gen/CKernelGen.v from vlib.REPO (tr/ckernel.py), build the extraction (models
only) and the obligations, count them into `rep`; cross-check the TRANSLATOR + semantics by
running the extracted translated functions (ocaml/ckernels_driver.ml) against the real compiled
C functions (harness/ckernels_drv.c) on random and edge inputs; run the real C functions against
the extracted SPECIFICATION on the same inputs.
Verdicts: real C != specification on an input -> VIOLATION with that input as replay.  A broken
obligation, a kernel the translator refuses (fail closed), or translated != real C without a
specification failure -> a larger differential search of the real C against the specification,
then `no-failing-input-found` naming the theorem / kernel.

`./check ckernels` runs both with the scratch report ids C10kern / C01kern (evidence/C10.json
and C01.json are not touched)."""
import hashlib, json, os, sys, time
sys.path.insert(0, os.path.join(os.path.dirname(os.path.dirname(os.path.abspath(__file__))), "tr"))
import vlib
import ckernel

DRIVERS = [("ckernels", "CKernels")]
GROUPS = {
    "c10": {"prop": "C10_kernels", "kernels": ["murmur3_block", "murmur3_tail"]},
    "c01": {"prop": "C01_kernels", "kernels": ["sha256_single", "sha1_single", "sha512_single", "md5_single"]},
}
ALG = {"sha256_single": ("sha256", 8, 8, 64), "sha1_single": ("sha1", 5, 8, 64),
       "sha512_single": ("sha512", 8, 16, 128), "md5_single": ("md5", 4, 8, 64)}
# which theorems of a Properties file are about which kernel (for the no-failing-input replay)
_GEN = {}


def generate():
    key = (vlib.REPO, vlib.tree_id())
    if key not in _GEN:
        _GEN.clear()
        _GEN[key] = ckernel.generate(vlib.REPO)
    return _GEN[key]


def gen():
    return {"Gen/CKernelGen.v": generate()[0]}


# ----------------------------------------------------------------------------- cases

def _hex(b):
    return b.hex() if b else "-"


def cases_c10(rng, n):
    """MB: 0..12 blocks (edge: 0 blocks, all-ones data/state); MT: every residue x total lengths
    around 2^8, 2^16, 2^31, 2^32-1 (the C takes a 32-bit total); MW: whole messages"""
    out = []
    edge_h = [0, 1, 2 ** 64 - 1, 2 ** 63, 0x9747b28c]
    for k in range(n):
        nb = [0, 1, 2, 3, 12][k % 5] if k < 10 else rng.below(9)
        data = bytes([0xff]) * (16 * nb) if k % 11 == 3 else rng.bytes(16 * nb)
        h1 = rng.choice(edge_h) if k % 4 == 0 else rng.next()
        h2 = rng.choice(edge_h) if k % 6 == 0 else rng.next()
        out.append(("murmur3_block", "MB mb%d %d %016x %016x %s" % (k, nb, h1, h2, _hex(data))))
    bases = [0, 16, 256, 65536, 2 ** 31 - 16, 2 ** 31, 2 ** 32 - 16]
    k = 0
    for rnd in range(max(1, n // 16)):
        for r in range(16):
            base = bases[(rnd + r) % len(bases)] if rnd < len(bases) else (rng.below(2 ** 28) * 16)
            tl = base + r
            tail = bytes([0xff]) * r if (rnd + r) % 7 == 0 else rng.bytes(r)
            h1 = rng.choice(edge_h) if (k % 5 == 0) else rng.next()
            out.append(("murmur3_tail", "MT mt%d %x %016x %016x %s" % (k, tl, h1, rng.next(), _hex(tail))))
            k += 1
    for k in range(n // 2):
        ln = k if k < 40 else rng.below(300)
        seed = rng.choice(edge_h) if k % 3 == 0 else rng.next()
        out.append(("murmur3_block+murmur3_tail", "MW mw%d %x %s" % (k, seed, _hex(rng.bytes(ln)))))
    return out


def cases_c01(rng, n, kernels):
    out = []
    for kern in kernels:
        alg, nw, wd, bs = ALG[kern]
        for k in range(n):
            if k == 0:
                blk, dg = bytes(bs), bytes(nw * wd // 2)
            elif k == 1:
                blk, dg = bytes([0xff]) * bs, bytes([0xff]) * (nw * wd // 2)
            elif k == 2:
                blk, dg = bytes([0x80]) + bytes(bs - 1), rng.bytes(nw * wd // 2)
            else:
                blk, dg = rng.bytes(bs), rng.bytes(nw * wd // 2)
            out.append((kern, "H %s%d %s %s %s" % (alg, k, alg, dg.hex(), blk.hex())))
    return out


# ----------------------------------------------------------------------------- running

def drivers():
    return vlib.ocaml_driver("ckernels", "CKernels"), vlib.cc_harness("ckernels", ["ckernels_drv.c"], "hook")


def run_cases(cases):
    """-> list of (kernel, line, translated words | 'none', spec words, native words)"""
    mexe, nexe = drivers()
    text = "\n".join(l for _, l in cases)
    mout, _ = vlib.run_driver(mexe, text, timeout=900)
    nout, _ = vlib.run_driver(nexe, text, timeout=900)
    res = []
    for kern, line in cases:
        cid = line.split()[1]
        m = dict(t.split("=", 1) for t in mout[cid].split()[1:] if "=" in t)
        nn = dict(t.split("=", 1) for t in nout[cid].split()[1:] if "=" in t)
        res.append((kern, line, m.get("c", "?" + mout[cid]), m.get("s", "?"), nn.get("n", "?" + nout[cid])))
    return res


def _assumptions(vfile, prop):
    vo = os.path.join(vlib.COQ, vfile + "o")
    with open(vo, "rb") as fh:
        key = hashlib.sha256(fh.read()).hexdigest()[:20]
    cache = os.path.join(vlib.CACHE, "pa_cache_%s_%s.json" % (prop, key))
    try:
        with open(cache) as fh:
            return json.load(fh)
    except (FileNotFoundError, ValueError):
        pass
    ass = vlib.coq_assumptions(vfile)
    if "<error>" not in ass:
        with open(cache + ".%d" % os.getpid(), "w") as fh:
            json.dump(ass, fh)
        os.replace(cache + ".%d" % os.getpid(), cache)
    return ass


def coq_part(rep, group):
    """Gen + extraction (must build) + obligations of the group's Properties file.
    -> (ok, broken-info, translation status of the group's kernels)"""
    text, status, _ = generate()
    vlib.write_if_changed(os.path.join(vlib.COQ, "Gen/CKernelGen.v"), text)
    os.makedirs(os.path.join(vlib.COQ, "Extract", "out"), exist_ok=True)
    okx, logx = vlib.coq_make(["Extract/CKernels.vo"])
    if not okx:
        raise RuntimeError("ckernels extraction build failed: %s" % vlib.first_coq_error(logx))
    g = GROUPS[group]
    st = {k: status.get(k) for k in g["kernels"]}
    for k, why in st.items():
        rep.obligation("%s:translated:%s" % (g["prop"], k), why is None, why or "")
    vfile = "Properties/%s.v" % g["prop"]
    if not os.path.exists(os.path.join(vlib.COQ, vfile)):
        return True, None, st
    ok, log = vlib.coq_make([vfile + "o"])
    names = vlib.coq_obligations(vfile)
    broken = None
    if ok:
        ass = _assumptions(vfile, g["prop"])
        for n in names:
            a = ass.get(n, "?")
            closed = "Closed under the global context" in a
            rep.obligation(g["prop"] + ":" + n, closed or a != "?", a if not closed else "closed under the global context")
        rep.cov["axioms"] = sorted(set(rep.cov.get("axioms", [])) | {a for a in ass.values() if "Closed under the global context" not in a})
    else:
        broken = vlib.first_coq_error(log)
        for n in names:
            rep.obligation(g["prop"] + ":" + n, False, "not checked: %s:%d %s" % (broken["file"], broken["line"], broken["error"][:200]))
    if not rep.cov.get("trusted_base"):
        rep.cov["trusted_base"] = list(vlib.TRUSTED_BASE)
    return ok, broken, st


def kernels(rep, tier, group):
    t0 = time.time()
    g = GROUPS[group]
    ok, broken, st = coq_part(rep, group)
    rng = vlib.SplitMix64(vlib.seed() * 1000003 + (7310 if group == "c10" else 7301))
    nq = 64 if tier == "quick" else 2000
    mk = (lambda r, n: cases_c10(r, n)) if group == "c10" else (lambda r, n: cases_c01(r, n, g["kernels"]))
    cases = mk(rng, nq)
    res = run_cases(cases)
    spec_fail, tie_fail = [], []
    cmp_tr = 0
    for kern, line, c, s, n in res:
        rep.case(hashlib.sha256(("ck " + line).encode()).hexdigest(), True)
        if n != s:
            spec_fail.append((kern, line, c, s, n))
        translated = all(st.get(k, "x") is None for k in kern.split("+"))
        if translated:
            # a translated kernel must answer (None = out of fuel / an error of the C semantics) and agree
            cmp_tr += 1
            if c != n:
                tie_fail.append((kern, line, c, s, n))
    untranslated = {k: w for k, w in st.items() if w is not None}
    searched = 0
    if (not ok or untranslated or tie_fail) and not spec_fail:
        more = mk(vlib.SplitMix64(vlib.seed() * 7919 + 977), nq * (40 if tier == "quick" else 20))
        res2 = run_cases(more)
        searched = len(res2)
        for kern, line, c, s, n in res2:
            rep.case(hashlib.sha256(("ck " + line).encode()).hexdigest(), True)
            if n != s:
                spec_fail.append((kern, line, c, s, n))
    note = rep.notes.setdefault("ckernels", {})
    note[group] = {"kernels": g["kernels"], "untranslated": untranslated, "cases": len(res), "translated_vs_compiled_C": cmp_tr,
                   "compiled_C_vs_spec": len(res) + searched, "larger_search": searched, "obligations_ok": bool(ok),
                   "wall_s": round(time.time() - t0, 1)}
    seen = set()
    for kern, line, c, s, n in sorted(spec_fail, key=lambda x: len(x[1])):
        if kern in seen:
            continue
        seen.add(kern)
        rep.violation("kernel %s: the compiled C function differs from the specification: `%s` -> %s, specification %s" % (
            kern, line[:120], n, s),
            {"kernel": kern, "case_line": line, "native": n, "spec": s, "translated": c,
             "oracle": "extracted Coq specification (Spec/Murmur3.v, Spec/SHA*.v, Spec/MD5.v) vs harness/ckernels_drv.c on the built library"},
            {"kind": "kernel_differs_from_spec", "kernel": kern})
    if not rep.violations:
        if not ok:
            rep.violation("Coq obligation of %s no longer checks (%s); the compiled kernels agree with the specification on %d inputs" % (
                g["prop"], broken, len(res) + searched),
                {"theorem_or_file": broken, "properties_file": "Properties/%s.v" % g["prop"], "differential_inputs": len(res) + searched}, no_input=True)
        for k, w in untranslated.items():
            rep.violation("kernel %s is outside the translated C subset (%s): nothing is proved about it; the compiled kernel agrees with the specification on %d inputs" % (
                k, w, len(res) + searched),
                {"kernel": k, "translator": "tr/ckernel.py fails closed", "reason": w, "theorems_lost": g["prop"]}, no_input=True)
        if tie_fail:
            kern, line, c, s, n = tie_fail[0]
            rep.violation("translated kernel %s (Gen/CKernelGen.v run by Model/CKernel.v) differs from the compiled C, which still agrees with the specification: `%s` translated %s compiled %s" % (
                kern, line[:120], c, n),
                {"correspondence": "tr/ckernel.py + Model/CKernel.v vs compiled C", "kernel": kern, "case_line": line, "translated": c, "native": n}, no_input=True)
    return ok, spec_fail, tie_fail


def kernels_c10(rep, tier):
    return kernels(rep, tier, "c10")


def kernels_c01(rep, tier):
    return kernels(rep, tier, "c01")


def replay_case(rep, path):
    with open(path) as fh:
        rp = json.load(fh)
    rp = rp.get("replay", rp)
    line = rp["case_line"]
    text, status, _ = generate()
    vlib.write_if_changed(os.path.join(vlib.COQ, "Gen/CKernelGen.v"), text)
    okx, logx = vlib.coq_make(["Extract/CKernels.vo"])
    if not okx:
        raise RuntimeError("ckernels extraction build failed: %s" % vlib.first_coq_error(logx))
    for kern, line, c, s, n in run_cases([(rp.get("kernel", "?"), line)]):
        rep.case(line, True)
        if n != s:
            rep.violation("kernel %s: compiled C %s, specification %s on `%s`" % (kern, n, s, line[:120]),
                          {"kernel": kern, "case_line": line, "native": n, "spec": s, "translated": c},
                          {"kind": "kernel_differs_from_spec", "kernel": kern})


def maybe_replay(pid, tier, path):
    """`./check C10|C01 --replay f` for a replay written by this module; None for any other file"""
    try:
        with open(path) as fh:
            rp = json.load(fh)
        rp = rp.get("replay", rp)
        if not isinstance(rp, dict) or "case_line" not in rp:
            return None
    except (OSError, ValueError):
        return None
    rep = vlib.Report(pid, "proof", tier, "kernel replay: harness/ckernels_drv.c vs the extracted specification")
    replay_case(rep, path)
    return rep.finish()


def run(tier, replay=None):
    rc = 0
    for group, pid in (("c10", "C10kern"), ("c01", "C01kern")):
        rep = vlib.Report(pid, "proof", tier, "cd coq && make Properties/%s.vo Extract/CKernels.vo  (coqc 8.16.1, full .vo build)" % GROUPS[group]["prop"])
        if replay:
            with open(replay) as fh:
                rp = json.load(fh)
            if rp.get("property", pid) != pid:
                continue
            replay_case(rep, replay)
        else:
            kernels(rep, tier, group)
        rep.cov["traces_validated_against_impl"] = rep.cov["evaluations"]
        rep.cov["rule"] = ("one evaluation = one call of one compiled kernel function on one input, compared with the extracted specification and "
                           "(when the kernel is translated) with the extracted translated function; distinct = distinct case lines")
        rep.notes["input_distribution"] = ("murmur: 0..12 whole blocks, all 16 tail residues x total lengths {r, 16+r, 2^8+r, 2^16+r, 2^31-16+r, 2^31+r, 2^32-16+r, random}, "
                                           "whole messages of 0..300 bytes, state words from {0,1,2^63,2^64-1,seed} or uniform; hash blocks: all-zero, all-ones, 0x80 then zeros, uniform random with uniform digests")
        rep.assumptions = ["clang's AST of the source (with gcc's version macros) is what gcc compiles", "x86 little-endian memory: a T* view of bytes is the little-endian combination",
                           "the composition of the two murmur kernels (Model/CKernelMurmur.v) is hand-written"]
        rc = max(rc, rep.finish())
    return rc
