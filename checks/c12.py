"""C12 — run-time dispatch binds only to code the CPU/OS can execute, one implementation family
per shared object, a binding once made does not change.

Coq: Properties/C12.v — symbolic executor exact w.r.t. the concrete interpreter of the
dispatch mini-ISA for every CPUID(1)/CPUID(7,0)/XCR0 content; checker sound; every regenerated
dispatcher proved safe for all consistent environments or refuted by a validated witness; same
family per object group for all environments; binding stability in the stub model; slots
touched only by their own dispatch routine.
Tie: Gen/DispatchGen.v regenerated from the disassembly of the built *_multibinary*.o (hook and
plain builds must translate identically), Gen/IsaReqGen.v from the GNU-as ISA oracle over the
call closure of every bindable symbol; the extracted interpreter must predict the pointer the
real <entry>_dispatch_init stores under a virtual CPUID for path witnesses, one-bit
perturbations and random environments, for every entry point; the property itself is
evaluated on the real bindings."""
import json, os, sys
import vlib
sys.path.insert(0, os.path.join(vlib.VERIF, "tr"))
import dispatch, isareq

FIELDS = ["1a", "1b", "1c", "1d", "7a", "7b", "7c", "7d", "xl", "xh"]
G1 = 0xd0030000
G2 = 0x5f40
DRIVERS = []        # the model driver needs its own glue (Coq strings): built by build_drivers()

_cache = {}


def translated():
    """translator output for the current tree (hook build = what the harness runs; plain
    build = what ships; both must give the same instruction lists)"""
    if "tr" not in _cache:
        dirs = vlib.build_many(["hook", "plain"])
        th = dispatch.translate(os.path.join(dirs["hook"], "obj"))
        tp = dispatch.translate(os.path.join(dirs["plain"], "obj"))
        diff = []
        ph = {d["entry"]: d for d in tp["entries"]}
        def norm(l):     # the text of an unsupported instruction carries build-specific addresses
            return [c.split(" ")[0] if c.startswith("Unsupported") else c for c in l]
        for d in th["entries"]:
            o = ph.get(d["entry"])
            if o is None or norm(o["code"]) != norm(d["code"]) or norm(o["stub"]) != norm(d["stub"]):
                diff.append(d["entry"])
        diff += [e for e in ph if e not in {d["entry"] for d in th["entries"]}]
        syms = sorted({s for l in th["candidates"].values() for s in l})
        cachedir = os.path.join(vlib.CACHE, "isareq")
        req, meta = isareq.requirements(os.path.join(dirs["plain"], "obj"), syms, cachedir)
        reqh, _ = isareq.requirements(os.path.join(dirs["hook"], "obj"), syms, cachedir)
        rdiff = [s for s in syms if req[s]["feats"] != reqh[s]["feats"]]
        _cache["tr"] = (th, req, meta, diff, rdiff, dirs)
    return _cache["tr"]


def gen():
    th, req, _, _, _, _ = translated()
    return {"Gen/DispatchGen.v": dispatch.generate(th), "Gen/IsaReqGen.v": isareq.generate(req)}


def build_drivers():
    th, _, _, _, _, dirs = translated()
    tab = os.path.join(dirs["hook"], "dispatch_tab.h")
    syms = sorted({s for l in th["candidates"].values() for s in l})
    txt = ("#define DISPATCH_ENTRIES(X) %s\n#define DISPATCH_SYMS(X) %s\n" %
           (" ".join("X(%s)" % d["entry"] for d in th["entries"]), " ".join("X(%s)" % s for s in syms)))
    vlib.write_if_changed(tab, txt)
    impl = vlib.cc_harness("dispatch", ["dispatch_drv.c", "vcpuid.S"], "hook", extra=["-include", tab])
    model = vlib.ocaml_driver_glue("dispatch", "Dispatch", "dispatch_conv.ml")
    return impl, model


def envline(kind, cid, entry, w):
    return "%s %s %s %s" % (kind, cid, entry, " ".join("%x" % x for x in w))


def popcount(w):
    return sum(bin(x).count("1") for x in w)


def classify(w):
    """coarse shape of an environment (for the distribution and for finding signatures)"""
    l1c, l7b, l7c, xl = w[2], w[5], w[6], w[8]
    return {"sse4_1": (l1c >> 19) & 1, "sse4_2": (l1c >> 20) & 1, "osxsave": (l1c >> 27) & 1, "avx": (l1c >> 28) & 1,
            "avx2": (l7b >> 5) & 1, "sha": (l7b >> 29) & 1, "avx512f": (l7b >> 16) & 1,
            "avx512_g1_complete": int(l7b & G1 == G1), "avx512_g2_complete": int(l7c & G2 == G2),
            "ymm_enabled": int(xl & 6 == 6), "zmm_enabled": int(xl & 0xe0 == 0xe0),
            "avoton": int(w[0] & 0xfffffff0 == 0x406d0)}


def shape_key(w):
    c = classify(w)
    return "".join(str(c[k]) for k in sorted(c))


def run(tier, replay=None):
    rep = vlib.Report("C12", "proof", tier, "cd coq && make Properties/C12.vo  (coqc 8.16.1, full .vo build)")
    rng = vlib.SplitMix64(vlib.seed() * 1000003 + 12)
    th, req, meta, trdiff, reqdiff, dirs = translated()
    ok, broken = vlib.coq_step(rep, "C12", gen(), extract="Dispatch")
    impl_exe, model_exe = build_drivers()
    entries = [d["entry"] for d in th["entries"]]

    # ---- what the model says about the regenerated dispatchers
    mo, _ = vlib.run_driver(model_exe, "L l\nG g\nU u\n" + "\n".join("W w.%s %s" % (e, e) for e in entries), shards=8)
    accepted = {}
    for t in mo["l"].split()[1:]:
        e, f = t.rsplit(":", 1)
        accepted[e] = (f[0] == "1", f[1] == "1")
    groups = []
    for t in mo["g"].split()[1:]:
        names, f = t.rsplit(":", 1)
        groups.append((names.split(","), f == "1"))
    unsafe = {}
    for t in mo["u"].split()[1:]:
        e, w = t.split("=")
        unsafe[e] = None if w == "none" else [int(x, 16) for x in w.split(":")]
    for e in entries:
        a = accepted.get(e, (False, False))
        rep.obligation("check_disp(%s)" % e, a[0], "" if a[0] else ("stub shape" if not a[1] else
                       "rejected by the tree checker; witness %s" % (unsafe.get(e) and ":".join("%x" % x for x in unsafe[e]))))
    for names, f in groups:
        rep.obligation("same_family(%s..%s)" % (names[0], names[-1]), f)
    witnesses, masks, nleaves = {}, [0] * 10, {}
    for e in entries:
        head, _, leaves = mo["w." + e].partition(" | ")
        t = head.split()
        nleaves[e] = int(t[1]) if len(t) > 1 and t[1].isdigit() else 0
        ws = []
        for x in t[2:]:
            w = [int(y, 16) for y in x.split(":")]
            if w not in ws:
                ws.append(w)
        witnesses[e] = ws
        for leaf in leaves.split():
            for a in leaf.partition("@")[2].split(","):
                if a:
                    f, _, rest = a[1:].partition("&")
                    masks[FIELDS.index(f)] |= int(rest.partition("=")[0], 16)
    tested_bits = [(i, b) for i in range(10) for b in range(32) if (masks[i] >> b) & 1]
    rep.notes["tested_bits"] = {FIELDS[i]: "%x" % masks[i] for i in range(10) if masks[i]}

    # ---- environments per entry
    presets = [[0x406e3, 0, 0x2980203, 0, 0, 0, 0, 0, 0, 0], [0x306c3, 0, 0x1a980203, 0, 0, 0x128, 0, 0, 7, 0],
               [0x50671, 0, 0x1a980203, 0, 0, 0x1c0d0128, 0, 0, 0xe7, 0],
               [0x806f8, 0, 0x1a980203, 0, 0, 0xf0230128, 0x5f42, 0, 0xe7, 0], [0x406d8, 0, 0x2980203, 0, 0, 0, 0, 0, 0, 0],
               [0] * 10]
    nrand = {"quick": 150, "thorough": 30000}[tier]
    member_of = {}
    for names, _ in groups:
        for n in names:
            member_of[n] = names
    base_envs = {}
    for e in entries:
        envs = [list(w) for w in witnesses[e]] + [list(p) for p in presets]
        if unsafe.get(e):
            envs.append(list(unsafe[e]))
        for w in list(witnesses[e]):
            for (i, b) in tested_bits:
                v = list(w)
                v[i] ^= 1 << b
                envs.append(v)
        r = rng.fork()
        for _ in range(nrand):
            v = [0] * 10
            dens = 1 + r.below(4)
            for (i, b) in tested_bits:
                if r.below(4) < dens:
                    v[i] |= 1 << b
            if r.below(3) == 0:             # untested bits must not matter
                v[r.below(10)] ^= 1 << r.below(32)
            if r.below(8) == 0:
                v[0] = 0x406d0 | r.below(16)
            envs.append(v)
        base_envs[e] = envs
    cases = {}
    for e in entries:
        envs = list(base_envs[e])
        for o in member_of.get(e, []):      # a group is compared on a common set of environments
            if o != e:
                envs += witnesses.get(o, [])
        seen, uniq = set(), []
        for w in envs:
            k = tuple(w)
            if k not in seen:
                seen.add(k)
                uniq.append(w)
        cases[e] = uniq
    if replay:
        r = json.load(open(replay))["replay"]
        if "env" in r and "entry" in r:
            w = [int(x, 16) for x in r["env"]]
            cases = {e: ([w] if e == r["entry"] or e in r.get("entries", []) else []) for e in entries}

    # ---- model and real dispatchers on the same cases
    lines, index = [], []
    for e in entries:
        for k, w in enumerate(cases[e]):
            cid = "c%d" % len(index)
            index.append((e, w))
            lines.append((cid, e, w))
    mout, _ = vlib.run_driver(model_exe, "\n".join(envline("X", c, e, w) for c, e, w in lines))
    iout, _ = vlib.run_driver(impl_exe, "\n".join(envline("D", c, e, w) for c, e, w in lines))
    hout, _ = vlib.run_driver(impl_exe, "\n".join("H h.%s %s" % (e, e) for e in entries), shards=1)
    # symbol map of the harness binary, to name a pointer that is no candidate of any dispatcher
    nm = {}
    for l in vlib.sh(["nm", "-n", impl_exe])[1].splitlines():
        t = l.split()
        if len(t) == 3 and t[1] in "tTwW":
            nm.setdefault(int(t[0], 16), t[2])
            nm[t[2]] = int(t[0], 16)
    def resolve_ptr(entry, s):
        """'?<hex offset from <entry>_mbinit>' -> name of the function starting there, or '?'"""
        try:
            a = nm[entry + "_mbinit"] + int(s[1:], 16)
            if int(s[1:], 16) >= 1 << 63:
                a -= 1 << 64
        except (KeyError, ValueError):
            return "?"
        return nm.get(a, "?") if isinstance(nm.get(a, "?"), str) else "?"
    need_a, real, modelr = [], {}, {}
    mism = []
    dist = {"shapes": {}, "bound_family": {}, "per_entry_cases": {}, "consistent": 0, "inconsistent": 0, "stuck": 0}
    for cid, e, w in lines:
        m = mout[cid].split()
        i = iout[cid].split()
        msym, mverd, cons, dm = (m[1], m[2], m[3] == "1", m[4] == "1") if len(m) >= 5 else ("?", "?", False, False)
        isym = i[1] if len(i) > 1 else "NOOUTPUT"
        if isym.startswith("?"):
            isym = resolve_ptr(e, isym)
        real[cid], modelr[cid] = isym, (msym, mverd, cons, dm)
        rep.case((e, tuple(w)), True)
        sk = shape_key(w)
        dist["shapes"][sk] = dist["shapes"].get(sk, 0) + 1
        dist["per_entry_cases"][e] = dist["per_entry_cases"].get(e, 0) + 1
        dist["consistent" if cons else "inconsistent"] += 1
        if isym == "STUCK":
            dist["stuck"] += 1
        if isym != msym:
            mism.append((cid, e, w, msym, isym))
            if isym not in ("STUCK", "?", "UNBOUND", "NOENTRY", "NODECODE", "NOOUTPUT"):
                need_a.append((cid, isym, w))
    aout = {}
    if need_a:
        aout, _ = vlib.run_driver(model_exe, "\n".join(envline("A", c, s, w) for c, s, w in need_a))
    rep.cov["traces_validated_against_impl"] = len(lines)

    # host: the real CPUID of this machine through the same path
    host_bind = {}
    for e in entries:
        t = hout["h." + e].split()
        if len(t) >= 16:
            host_bind[e] = (t[1], [int(x, 16) for x in t[6:16]])
    if host_bind:
        hl = "\n".join(envline("X", "hx.%s" % e, e, host_bind[e][1]) for e in host_bind)
        hm, _ = vlib.run_driver(model_exe, hl, shards=1)
        for e in host_bind:
            m = hm["hx." + e].split()
            rep.case((e, "host"), True)
            if len(m) < 2 or m[1] != host_bind[e][0]:
                mism.append(("host", e, host_bind[e][1], m[1] if len(m) > 1 else "?", host_bind[e][0]))
        rep.notes["host_env"] = ["%x" % x for x in next(iter(host_bind.values()))[1]]
        rep.notes["host_bindings_sample"] = {e: host_bind[e][0] for e in list(host_bind)[:6]}

    # ---- the property on the real bindings
    fam_of = {}
    def fam(entry, sym):
        if (entry, sym) not in fam_of:
            a, b = entry.split("_"), sym.split("_")
            out, j = [], 0
            for t in b:
                if j < len(a) and t == a[j]:
                    j += 1
                else:
                    out.append(t)
            fam_of[(entry, sym)] = "_".join(out) if j == len(a) else "?"
        return fam_of[(entry, sym)]
    viol = {}       # (entry, sig-json) -> best (popcount, cid, w, sym, missing)
    bad_entries = set()
    for cid, e, w in lines:
        msym, mverd, cons, dm = modelr[cid]
        isym = real[cid]
        if isym in ("NOENTRY", "NODECODE", "NOOUTPUT"):
            continue                         # harness could not run the case: correspondence, not property
        bf = fam(e, isym) if isym not in ("STUCK", "UNBOUND", "?") else isym
        dist["bound_family"][bf] = dist["bound_family"].get(bf, 0) + 1
        if not (cons and dm):
            continue                         # outside the quantifier
        if isym == msym:
            verd = mverd
        elif isym in ("STUCK", "UNBOUND"):
            verd = "stuck"
        elif isym == "?":
            verd = "not-a-function"          # the slot holds an address that is no function of the library
        else:
            verd = aout.get(cid, "? ?").split()[1]
        if verd == "ok":
            continue
        c = classify(w)
        sig = {"kind": "binds_unavailable" if verd.startswith("unavail") else verd,
               "bound_family": bf,
               "avx512_g1_complete": c["avx512_g1_complete"], "avx512_g2_complete": c["avx512_g2_complete"],
               "zmm_enabled": c["zmm_enabled"], "ymm_enabled": c["ymm_enabled"], "avx2": c["avx2"], "sha": c["sha"]}
        key = (e, json.dumps(sig, sort_keys=True))
        # prefer witnesses that also respect "enabled ZMM/YMM state goes with AVX512F/AVX" (true of
        # every real machine though not part of `consistent`), then the fewest set bits
        soft_bad = int(bool(w[8] & 0xe0) and not (w[5] >> 16) & 1) + int(bool(w[8] & 4) and not (w[2] >> 28) & 1)
        cand = (soft_bad * 1000 + popcount(w), cid, w, isym, verd)
        if key not in viol or cand[0] < viol[key][0]:
            viol[key] = cand
        bad_entries.add(e)
    nrep = 0
    for (e, sj), (_, cid, w, isym, verd) in sorted(viol.items(), key=lambda kv: (kv[1][0], kv[0][0])):
        sig = json.loads(sj)
        missing = verd.partition(":")[2]
        ex = req.get(isym, {}).get("ex", {}).get("F_" + missing, "")
        if verd.startswith("unavail"):
            what = ("%s binds %s under CPUID.1:ECX=%x CPUID.7:EBX=%x ECX=%x XCR0=%x, but %s is not available there (%s)" %
                    (e, isym, w[2], w[5], w[6], w[8], missing, ex))
        else:
            what = ("%s under CPUID.1:ECX=%x CPUID.7:EBX=%x ECX=%x XCR0=%x: %s" % (e, w[2], w[5], w[6], w[8], {
                "stuck": "the dispatch routine executes XGETBV with OSXSAVE clear / an unmodelled CPUID leaf, or leaves the slot unbound",
                "not-a-function": "the dispatch routine stores an address that is not a function of the library",
                "noreq": "binds %s, whose ISA requirements are unknown" % isym}.get(verd, verd)))
        rep.violation(what, {"entry": e, "env": ["%x" % x for x in w], "env_fields": FIELDS, "bound": isym,
                             "model_predicts": modelr[cid][0], "unavailable": missing or verd,
                             "first_unavailable_instruction": ex, "environment_shape": classify(w),
                             "confirmed": "stored by the real %s_dispatch_init under the virtual CPUID" % e}, sig)
        nrep += 1

    # one family per object group, on the real bindings
    pos = {}
    for cid, e, w in lines:
        pos[(e, tuple(w))] = cid
    for names, _ in groups:
        ref = names[0]
        for w in cases.get(ref, []):
            fams = {}
            for n in names:
                cid = pos.get((n, tuple(w)))
                if cid is None:
                    continue
                s = real[cid]
                fams[n] = fam(n, s) if s not in ("STUCK", "UNBOUND", "?", "NOENTRY", "NODECODE", "NOOUTPUT") else s
            if len(set(fams.values())) > 1:
                a = names[0]
                b = next(n for n in names if fams.get(n) != fams.get(a))
                rep.violation("entry points of one object bind different families under CPUID.1:ECX=%x CPUID.7:EBX=%x ECX=%x XCR0=%x: %s -> %s, %s -> %s" %
                              (w[2], w[5], w[6], w[8], a, fams[a], b, fams[b]),
                              {"entry": a, "entries": [a, b], "env": ["%x" % x for x in w], "families": fams},
                              {"kind": "family_mismatch", "families": sorted(set(fams.values()))})
                break

    # ---- correspondence and obligations
    rep.notes["translator"] = {"entries": len(entries), "hook_vs_plain_code_differs": trdiff, "hook_vs_plain_isa_differs": reqdiff,
                               "leaves_per_entry": nleaves, "unsupported": [d["entry"] for d in th["entries"]
                                                                              if any(c.startswith("Unsupported") for c in d["code"] + d["stub"])]}
    if trdiff or reqdiff:
        rep.violation("hook and plain builds translate differently: %s %s" % (trdiff[:5], reqdiff[:5]),
                      {"correspondence": "translator hook vs plain", "entries": trdiff, "symbols": reqdiff}, no_input=True)
    if mism and not rep.violations:
        cid, e, w, msym, isym = mism[0]
        rep.violation("model/code correspondence broken: %s under %s: model %s, real dispatcher %s (%d mismatches); no wrong binding found" %
                      (e, ":".join("%x" % x for x in w), msym, isym, len(mism)),
                      {"correspondence": "exec (extracted) vs <entry>_dispatch_init (hook)", "entry": e, "env": ["%x" % x for x in w],
                       "model": msym, "real": isym, "mismatches": len(mism)}, no_input=True)
    rep.notes["model_vs_real_mismatches"] = len(mism)
    silent = [e for e in entries if not accepted.get(e, (False,))[0] and e not in bad_entries]
    if silent and not rep.violations and not rep.known_hits:
        rep.violation("checker rejects %s but no wrong binding was found on the real dispatcher" % silent[:6],
                      {"theorem_or_file": "Proofs/DispatchObl.v check_disp", "entries": silent}, no_input=True)
    if not ok and not rep.violations:
        rep.violation("Coq obligation no longer checks: %s" % broken,
                      {"theorem_or_file": broken, "correspondence": "clean on %d cases" % len(lines)}, no_input=True)

    # ---- evidence
    base_used = {}
    BASE = ["F_SSE3", "F_SSSE3", "F_POPCNT", "F_AESNI", "F_PCLMUL", "F_MOVBE", "F_BMI1", "F_BMI2", "F_LZCNT", "F_ADX"]
    for s, r in req.items():
        for f in r["feats"]:
            if f in BASE:
                base_used.setdefault(f, []).append(s)
    rep.notes["assumed_baseline"] = {f: {"symbols": len(v), "example": v[0], "instruction": req[v[0]]["ex"].get(f, "")}
                                     for f, v in sorted(base_used.items())}
    rep.notes["isa_oracle"] = {"gas": meta["gas"], "probe_order": meta["order"],
                               "gas_switches_on_together": meta["closure"],
                               "calls_into_other_dispatched_entries_not_followed": sorted({x for r in req.values() for x in r["skipped"]})}
    rep.notes["requirements_by_family"] = {}
    for s, r in sorted(req.items()):
        k = " ".join(f[2:] for f in r["feats"]) or "(baseline x86-64)"
        rep.notes["requirements_by_family"].setdefault(k, []).append(s)
    rep.notes["requirements_by_family"] = {k: "%d symbols, e.g. %s" % (len(v), v[0]) for k, v in rep.notes["requirements_by_family"].items()}
    rep.notes["input_distribution"] = {"cases": len(lines), "environment_shapes": len(dist["shapes"]),
                                       "bound_family": dict(sorted(dist["bound_family"].items())),
                                       "consistent": dist["consistent"], "inconsistent_(correspondence_only)": dist["inconsistent"],
                                       "stuck_on_real_dispatcher": dist["stuck"],
                                       "cases_per_entry_min_max": [min(dist["per_entry_cases"].values() or [0]), max(dist["per_entry_cases"].values() or [0])],
                                       "shape_key": "avoton avx avx2 avx512_g1_complete avx512_g2_complete avx512f osxsave sha sse4_1 sse4_2 ymm_enabled zmm_enabled"}
    rep.cov["rule"] = ("cases = (entry point, environment): for each of the %d entries the closed path witnesses of its decision tree, every "
                       "one-bit perturbation of each over the %d bits any dispatcher tests, 6 part-shaped presets, %d random assignments of the tested bits, "
                       "plus the witnesses of the other members of its object group; distinct = distinct (entry, 10-word environment)" %
                       (len(entries), len(tested_bits), nrand))
    for k, (cid, e, w) in enumerate(lines[:3]):
        rep.sample({"case": envline("D", cid, e, w), "model": mout[cid], "real": iout[cid]})
    rep.assumptions = [
        "environment = CPUID leaf 1, leaf 7 sub-leaf 0 and XCR0 as arbitrary 32-bit words; max-leaf, hybrid cores and CPUID changing during the process are outside the quantifier",
        "consistent = only the architectural implications listed in Model/Dispatch.v `rules` (AVX-512 sub-groups => F => AVX2 => AVX => SSE4.2 => SSE4.1 => SSSE3 => SSE3, FMA/F16C => AVX, XCR0[7:5] set together and only with XCR0[2:1]); AVX512F without VL/DQ/BW is consistent (Knights Landing)",
        "available = CPUID bit and, for VEX classes, OSXSAVE and XCR0[2:1]=11b, for EVEX classes additionally XCR0[7:5]=111b (SDM vol.1 14.3, 15.2)",
        "assumed baseline (never tested by any dispatcher, excluded from the conclusion): SSE3 SSSE3 POPCNT AESNI PCLMUL MOVBE BMI1 BMI2 LZCNT ADX; see assumed_baseline for who relies on what",
        "documented minimum as hypothesis for the entries without base fallback: _aes_* and _XTS_AES_* require SSE4.1 (headers: 'SSE4.1 and AESNI')",
        "ISA requirement = GNU as (binutils) feature gating over the call closure at symbol-block granularity; indirect branches fail closed",
        "binding stability is a theorem about the stub model; its premises (stub shape, only <entry>_dispatch_init stores to the slot) are regenerated facts",
    ]
    return rep.finish()
