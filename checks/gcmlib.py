"""Shared machinery of the AES-GCM vertical (C02 one-shot = SP 800-38D, C07 streaming = one-shot).

Three observers of every case (key, iv, aad, data, direction, tag length[, segmentation]):
  spec   Spec/GCM.v gcm_ae_rk / gcm_ad_rk (SP 800-38D), extracted           -- L0 oracle
  model  Model/GcmStream.v (gcm_init / gcm_update / gcm_finalize), extracted  -- L1, call by call
  impl   harness/gcm_drv.c: every family entry point directly, regular and _nt, the public
         isal_aes_gcm_* entry points through the dispatcher under virtual CPUID presets, and
         the legacy aes_gcm_* names
The model is computed once per case; every implementation variant is compared against it."""
import json, os, subprocess, sys
import vlib

FAMILIES = ["sse", "avx_gen2", "avx_gen4", "vaes_avx512"]
# virtual CPUID preset -> family the dispatcher must bind (mbin_dispatch_init7 of gcm_multibinary*.asm)
PRESETS = {"base": "sse", "sse": "sse", "avx": "avx_gen2", "avx2": "avx_gen4", "avx512": "avx_gen4",
           "avx512g2": "vaes_avx512"}
EXTRA_CC = ("-Wno-deprecated-declarations",)
CTX_FIELDS = [("aad_hash", 0, 16), ("aad_length", 16, 24), ("in_length", 24, 32), ("partial_block_enc_key", 32, 48),
              ("orig_IV", 48, 64), ("current_counter", 64, 80), ("partial_block_length", 80, 88)]


def hx(b):
    return b.hex() if b else "-"


def unhx(s):
    return b"" if s == "-" else bytes.fromhex(s)


# ----------------------------------------------------------------------------- case lines

def vaes_policy_matters(c):
    """does some update of this case leave exactly 256 bytes after PARTIAL_BLOCK (where the
    vaes_avx512 family keeps the last block open, Model.GcmStream.defer_vaes)?  Length
    arithmetic only; when it does, the model is also run under that policy."""
    segs = c["segs"] if c["segs"] is not None else [len(c["data"])]
    pbl = 0
    for s in segs:
        if s == 0:
            continue
        if pbl and pbl + s < 16:
            pbl += s
            continue
        rest = s - ((16 - pbl) if pbl else 0)
        if rest == 256:
            return True
        pbl = rest % 16
    return False


def model_line(cid, c, policy="M"):
    mode = "o" if c["segs"] is None else "s " + " ".join(str(x) for x in c["segs"])
    return "%s %s %s %d %s %s %d %s %s" % (policy, cid, c["key"].hex(), c["enc"], c["iv"].hex(), hx(c["aad"]), c["tag"],
                                          hx(c["data"]), mode)


def impl_line(cid, v, c, segs="case"):
    """v = (fam, nt, place) with place = (inplace, end, a_in, a_out, a_aad)"""
    fam, nt, place = v
    if segs == "case":
        segs = c["segs"]
    mode = "o" if segs is None else "s " + " ".join(str(x) for x in segs)
    return "G %s %s %d %d %s %s %s %d %s %s %s" % (cid, fam, c["enc"], nt, c["key"].hex(), c["iv"].hex(), hx(c["aad"]),
                                                  c["tag"], hx(c["data"]), ",".join(str(x) for x in place), mode)


def parse(line):
    t = line.split()
    d = {"id": t[0], "flags": []}
    for x in t[1:]:
        if "=" in x and x.split("=")[0] in ("out", "tag", "ctx", "spec"):
            k, v = x.split("=", 1)
            d[k] = v
        else:
            d["flags"].append(x)
    return d


def ctx_diff(ihex, mhex):
    """compare one context image of the implementation with the model's.  Everything a later
    update/finalize reads is compared: all fields, except partial_block_enc_key of which only
    the not-yet-consumed part [partial_block_length, 16) is compared, and only while a block is
    open (the families leave different dead values elsewhere in that field)."""
    if len(ihex) != 176 or len(mhex) != 176:
        return "context image malformed"
    ib, mb = bytes.fromhex(ihex), bytes.fromhex(mhex)
    pbl = int.from_bytes(mb[80:88], "little")
    for name, a, b in CTX_FIELDS:
        if name == "partial_block_enc_key":
            if pbl == 0 or pbl > 15:
                continue
            a = a + pbl
        if ib[a:b] != mb[a:b]:
            return "%s: impl %s model %s" % (name, ib[a:b].hex(), mb[a:b].hex())
    return None

# ----------------------------------------------------------------------------- variants of one case

def placements(rng, nt, n):
    """(inplace, end, a_in, a_out, a_aad).  end=1: every buffer flush against the following
    PROT_NONE page (the alignment is then dictated by the length); end=0: start `a` bytes into a
    page that follows a PROT_NONE page.  NT variants: 64-byte aligned data buffers only."""
    if nt:
        return (rng.below(2), 0, 0, 0, rng.below(64))
    if rng.below(2):
        return (rng.below(2), 1, 0, 0, 0)
    a = rng.below(64)
    return (rng.below(2), 0, a, rng.choice([a, rng.below(64), (a + 16) % 64]), rng.below(64))


def variants(rng, c, k):
    """implementation variants run for case number k"""
    vs = []
    n = len(c["data"])
    nt_ok = c["segs"] is None or all(s % 64 == 0 for s in c["segs"][:-1])
    for f in FAMILIES:
        vs.append((f, 0, (k & 1, 1, 0, 0, 0)))                 # flush against the guard page
        vs.append((f, 0, placements(rng, 0, n)))
        if nt_ok:
            vs.append((f, 1, placements(rng, 1, n)))
    presets = sorted(PRESETS)
    p = presets[k % len(presets)]
    vs.append(("d:" + p, 0, placements(rng, 0, n)))
    vs.append(("l:" + presets[(k // len(presets) + k) % len(presets)], 0, placements(rng, 0, n)))
    if nt_ok:
        vs.append(("d:" + presets[(k + 3) % len(presets)], 1, placements(rng, 1, n)))
        if k % 3 == 0:
            vs.append(("l:" + presets[(k + 1) % len(presets)], 1, placements(rng, 1, n)))
    return vs


def vname(v):
    return "%s%s" % (v[0], "_nt" if v[1] else "")

# ----------------------------------------------------------------------------- running

class Runner:
    def __init__(self):
        self.impl = vlib.cc_harness("gcm", ["gcm_drv.c", "vcpuid.S", "poison.S"], "hook", extra=EXTRA_CC)
        self.model = vlib.ocaml_driver("gcm", "Gcm")

    def run_model(self, cases):
        lines = [model_line("c%d" % k, c) for k, c in enumerate(cases)]
        lines += [model_line("c%dv" % k, c, "V") for k, c in enumerate(cases) if vaes_policy_matters(c)]
        out, err = vlib.run_driver(self.model, "\n".join(lines), shards=min(vlib.NCPU, max(1, len(lines))))
        return {k: parse(v) for k, v in out.items()}

    def run_impl(self, lines):
        out, err = vlib.run_driver(self.impl, "\n".join(lines), shards=min(vlib.NCPU, max(1, len(lines) // 4)))
        return {k: parse(v) for k, v in out.items()}, err

    def run_raw(self, exe, lines):
        p = subprocess.run([exe], input="\n".join(lines) + "\n", stdout=subprocess.PIPE, stderr=subprocess.PIPE,
                           text=True, timeout=900)
        return [parse(l) for l in p.stdout.split("\n") if l.strip()]


def spec_of(m):
    so, st = m["spec"].split(",")
    return so, st


def observable(c, m, i):
    """implementation result against SP 800-38D (the Spec oracle).  Returns None or a description."""
    so, st = spec_of(m)
    if "out" not in i or "tag" not in i:
        return "no result: %s" % " ".join(i["flags"])
    bad = [f for f in i["flags"] if f.startswith(("fault", "canary", "inputmod", "rc=", "rt=", "badsegs", "<no-output"))]
    if bad:
        return "flags %s" % " ".join(bad)
    if i["out"] != so:
        n = len(c["data"])
        a, b = unhx(i["out"]), unhx(so)
        first = next((j for j in range(min(len(a), len(b))) if a[j] != b[j]), min(len(a), len(b)))
        return "output differs from SP 800-38D at byte %d of %d" % (first, n)
    want = "-" if c["tag"] == 0 else st[:2 * c["tag"]]
    if i["tag"] != want:
        return "tag differs from SP 800-38D: impl %s spec %s" % (i["tag"], want)
    return None


def whitebox(c, m, i):
    """context after init and after every update against the model (streaming only)"""
    if c["segs"] is None:
        return None
    mc = m["ctx"].split(",")
    ic = i.get("ctx", "").split(",")
    if len(ic) != len(mc):
        return "number of context images %d vs %d" % (len(ic), len(mc))
    for j in range(len(mc) - 1):          # the image after finalize is not compared
        d = ctx_diff(ic[j], mc[j])
        if d:
            return "context after %s: %s" % ("init" if j == 0 else "update #%d (len %d)" % (j, c["segs"][j - 1]), d)
    return None


def model_sane(c, m):
    """the model must agree with the spec (theorems C02/C07 say so for every input): a
    difference here is a defect of the machinery, reported as such"""
    if "spec" not in m or "out" not in m:
        return "model driver gave no result: %s" % m["flags"]
    so, st = spec_of(m)
    if m["out"] != so or m["tag"] != ("-" if c["tag"] == 0 else st[:2 * c["tag"]]):
        return "extracted model disagrees with extracted spec"
    return None

# ----------------------------------------------------------------------------- replay records, minimisation

def case_json(c, v=None, extra=None):
    d = {"key": c["key"].hex(), "iv": c["iv"].hex(), "aad": c["aad"].hex(), "aad_len": len(c["aad"]),
         "data": c["data"].hex(), "len": len(c["data"]), "enc": c["enc"], "tag_len": c["tag"], "segs": c["segs"]}
    if v:
        d.update({"family": v[0], "nt": v[1], "placement(inplace,end,a_in,a_out,a_aad)": list(v[2])})
    if extra:
        d.update(extra)
    return d


def case_from_json(r):
    c = {"key": bytes.fromhex(r["key"]), "iv": bytes.fromhex(r["iv"]), "aad": bytes.fromhex(r["aad"]),
         "data": bytes.fromhex(r["data"]), "enc": int(r["enc"]), "tag": int(r["tag_len"]), "segs": r.get("segs"),
         "aim": "replay"}
    v = (r.get("family", "sse"), int(r.get("nt", 0)), tuple(r.get("placement(inplace,end,a_in,a_out,a_aad)", (0, 1, 0, 0, 0))))
    return c, v


def minimise(runner, c, v, fails, budget=60):
    """greedy shrinking of a failing (case, variant): shorter AAD, shorter data (whole 16-byte
    blocks first so that the residue is kept), fewer / merged segments.  `fails(case)` reruns
    model and implementation."""
    cur = c

    def try_(cc):
        nonlocal budget, cur
        if budget <= 0:
            return False
        budget -= 1
        try:
            if fails(cc):
                cur = cc
                return True
        except Exception:
            pass
        return False

    def with_data(cc, n):
        d = dict(cc, data=cc["data"][:n])
        if cc["segs"] is not None:
            segs, left = [], n
            for s in cc["segs"]:
                t = min(s, left)
                segs.append(t)
                left -= t
            while len(segs) > 1 and segs[-1] == 0 and sum(segs) == n:
                segs.pop()
            d["segs"] = segs
        return d

    changed = True
    while changed and budget > 0:
        changed = False
        if len(cur["aad"]) > 0:
            for na in (0, len(cur["aad"]) % 16, len(cur["aad"]) // 2):
                if na < len(cur["aad"]) and try_(dict(cur, aad=cur["aad"][:na])):
                    changed = True
                    break
        n = len(cur["data"])
        if cur["segs"] is None:
            for nn in (n % 16, n % 16 + 16, n - (n // 32) * 16, n - 128, n - 16, n - 1):
                if 0 <= nn < n and try_(with_data(cur, nn)):
                    changed = True
                    break
        else:
            segs = cur["segs"]
            cands = []
            if len(segs) > 1:
                cands.append(with_data(cur, n - segs[-1]) if segs[-1] else dict(cur, segs=segs[:-1]))
                for j in range(len(segs) - 1):
                    cands.append(dict(cur, segs=segs[:j] + [segs[j] + segs[j + 1]] + segs[j + 2:]))
            if segs and segs[-1] >= 16:
                cands.append(with_data(cur, n - 16 * (segs[-1] // 32 or 1)))
            # shorten one piece by whole blocks (its residue, and so every carried residue, is kept)
            for j in range(len(segs)):
                for cut in (16 * (segs[j] // 16), 16 * (segs[j] // 32), 16):
                    if 0 < cut <= segs[j]:
                        off = sum(segs[:j])
                        cands.append(dict(cur, data=cur["data"][:off] + cur["data"][off + cut:],
                                          segs=segs[:j] + [segs[j] - cut] + segs[j + 1:]))
            for j in range(len(segs)):
                if segs[j] == 0 and len(segs) > 1:
                    cands.append(dict(cur, segs=segs[:j] + segs[j + 1:]))
            for cc in cands:
                if try_(cc):
                    changed = True
                    break
    return cur

# ----------------------------------------------------------------------------- family inventory

def family_inventory(rep):
    """the families the driver links are exactly the ones the archive exports: a new family
    symbol that the driver does not call is reported (it would escape the correspondence)"""
    d = vlib.build("hook")
    rc, out = vlib.sh(["nm", os.path.join(d, "isa-l_crypto.a")])
    fams = set()
    for l in out.split("\n"):
        t = l.split()
        if len(t) == 3 and t[1] == "T" and t[2].startswith("_aes_gcm_enc_128_") :
            s = t[2][len("_aes_gcm_enc_128_"):]
            if s.startswith(("update", "finalize", "nt", "dispatch", "mbinit", "slver")):
                continue
            fams.add(s[:-3] if s.endswith("_nt") else s)
    rep.notes["families_in_archive"] = sorted(fams)
    extra = fams - set(FAMILIES)
    if extra:
        rep.violation("the archive exports GCM families the driver does not exercise: %s" % sorted(extra),
                      {"correspondence": "family inventory", "unknown_families": sorted(extra)}, no_input=True)

# ----------------------------------------------------------------------------- long AAD (native, zero AAD)

def long_aad_probe(rep, runner, rng, prop):
    """AAD of 2^29-1 and 2^29 zero bytes (a read-only zero mapping): GHASH over zero blocks from
    0 stays 0 (lemma ghash_blocks_zeros), so the model is evaluated with aad_hash = 0 and
    aad_length = L without hashing 512 MiB.  len(A) in bits crosses 2^32 at 2^29 bytes."""
    lines_m, lines_i, meta = [], [], []
    for j, (al, ks) in enumerate([((1 << 29) - 1, 16), (1 << 29, 16), (1 << 29, 32)]):
        key, iv, data = rng.bytes(ks), rng.bytes(12), rng.bytes(37)
        lines_m.append("Z z%d %s 1 %s %x 16 %s" % (j, key.hex(), iv.hex(), al, data.hex()))
        for f in FAMILIES:
            lines_i.append("Z z%d.%s %s 1 %s %s %x 16 %s" % (j, f, f, key.hex(), iv.hex(), al, data.hex()))
            meta.append((j, f, al, key, iv, data))
    mo = {p["id"]: p for p in runner.run_raw(runner.model, lines_m)}
    io, _ = runner.run_impl(lines_i)
    for j, f, al, key, iv, data in meta:
        m, i = mo.get("z%d" % j), io.get("z%d.%s" % (j, f))
        rep.case(("longaad", j, f), True)
        if m is None or "tag" not in m:
            raise RuntimeError("model gave no result for the long-AAD probe")
        if i.get("out") != m["out"] or i.get("tag") != m["tag"]:
            rep.violation("family %s, key %d bits: AAD of %d (0x%x) zero bytes: tag %s, SP 800-38D %s" % (
                              f, 8 * len(key), al, al, i.get("tag", " ".join(i["flags"])), m["tag"]),
                          {"family": f, "key": key.hex(), "iv": iv.hex(), "aad": "%d zero bytes" % al, "aad_len": al,
                           "data": data.hex(), "enc": 1, "tag_len": 16, "impl_tag": i.get("tag"), "spec_tag": m["tag"],
                           "impl_out": i.get("out"), "spec_out": m["out"],
                           "oracle": "model with aad_hash = 0 (GHASH of zero blocks), aad_length = L; equals SP 800-38D by theorem C02_oneshot_is_38D"},
                          {"kind": "aad_bitlen_32", "family": f, "aad_ge_2^29": al >= (1 << 29)})

# ----------------------------------------------------------------------------- evaluation of a batch of cases

def bump(d, k, n=1):
    d[k] = d.get(k, 0) + n


class Outcome:
    def __init__(self):
        self.obs = []          # (case, variant, detail, kind, model, impl)
        self.wb = []           # (case, variant, detail)
        self.bound = {}
        self.nvariants = 0
        self.dist = {"family_variant": {}, "placement": {}}


def evaluate(rep, runner, cases, rng, prop, count=True):
    """run model + every implementation variant of every case; classify differences.
    prop C02: one-shot result against SP 800-38D (observable); init / single update context
              against the model (white-box).
    prop C07: streaming result against the same implementation's one-shot result on the
              concatenation (observable); against SP 800-38D and the model's context after init
              and after every update (white-box)."""
    oc = Outcome()
    mo = runner.run_model(cases)
    for k, c in enumerate(cases):
        bad = model_sane(c, mo["c%d" % k]) or ("c%dv" % k in mo and model_sane(c, mo["c%dv" % k]))
        if bad:
            raise RuntimeError("%s (case %s)" % (bad, json.dumps(case_json(c))[:600]))
    lines, plan = [], []
    for k, c in enumerate(cases):
        for j, v in enumerate(variants(rng, c, k)):
            cid = "c%d.%d" % (k, j)
            lines.append(impl_line(cid, v, c))
            aux = None
            if prop == "C07":
                aux = cid + ".o"
                lines.append(impl_line(aux, v, c, segs=None))
            elif v[0] in FAMILIES and not v[1] and j % 3 == 0:
                aux = cid + ".s"
                lines.append(impl_line(aux, v, c, segs=[len(c["data"])]))
            plan.append((k, v, cid, aux))
    io, err = runner.run_impl(lines)
    for l in err.split("\n"):
        if " bound=" in l:
            p, rest = l.split(" bound=")
            b, pre = rest.split(" pre=")
            oc.bound.setdefault(p, set()).add((b, pre))
    for k, v, cid, aux in plan:
        c, m, i = cases[k], mo["c%d" % k], io[cid]
        if (v[0] if v[0] in FAMILIES else PRESETS.get(v[0][2:])) == "vaes_avx512":
            m = mo.get("c%dv" % k, m)
        oc.nvariants += 1
        if count:
            rep.case((c["key"], c["iv"], c["aad"], c["data"], c["enc"], c["tag"], tuple(c["segs"] or ()), c["segs"] is None, v),
                     len(c["data"]) + len(c["aad"]) > 0)
            bump(oc.dist["family_variant"], vname(v) if v[0] in FAMILIES else v[0][:2] + "preset" + ("_nt" if v[1] else ""))
            bump(oc.dist["placement"], ("inplace" if v[2][0] else "separate") + ("/flush-to-guard" if v[2][1] else "/offset"))
        so = observable(c, m, i)
        if prop == "C02":
            if so:
                oc.obs.append((c, v, so, "oneshot_vs_spec", m, i))
            if aux:
                a = io[aux]
                sa = observable(c, m, a) or whitebox(dict(c, segs=[len(c["data"])]), m, a)
                if sa:
                    oc.wb.append((c, v, "init; update(len); finalize through the family's streaming entry points: " + sa))
        else:
            o1 = io[aux]
            flags = [f for f in i["flags"] + o1["flags"] if f.startswith(("fault", "canary", "inputmod", "rc=", "badsegs", "<no-output"))]
            if flags:
                oc.obs.append((c, v, "flags %s (streaming: %s; one-shot: %s)" % (flags, i["flags"], o1["flags"]), "fault", m, i))
            elif i.get("out") != o1.get("out") or i.get("tag") != o1.get("tag"):
                a, b = unhx(i.get("out", "-")), unhx(o1.get("out", "-"))
                first = next((j for j in range(min(len(a), len(b))) if a[j] != b[j]), None)
                what = ("output differs from the one-shot call at byte %d" % first) if first is not None or len(a) != len(b) else \
                       ("tag differs from the one-shot call: streaming %s one-shot %s" % (i.get("tag"), o1.get("tag")))
                oc.obs.append((c, v, what, "stream_vs_oneshot", m, i))
            else:
                w = (so and "streaming = one-shot, but both differ from SP 800-38D (%s)" % so) or whitebox(c, m, i)
                if w:
                    oc.wb.append((c, v, w))
    return oc


def report_observables(rep, runner, oc, prop, oracle_note, max_min=3):
    """minimise and report the observable failures of an Outcome; returns how many were new"""
    new = 0
    seen_sig = set()
    for c, v, detail, kind, m, i in oc.obs:
        sigkey = (kind, v[0], v[1])
        if sigkey in seen_sig:
            continue
        seen_sig.add(sigkey)
        cm, dm, mm, im = c, detail, m, i
        if new < max_min:
            def fails(cc):
                o2 = evaluate(rep, runner, [cc], _FixedVariant(v), prop, count=False)
                return any(x[3] == kind for x in o2.obs)
            cm = minimise(runner, c, v, fails)
            o2 = evaluate(rep, runner, [cm], _FixedVariant(v), prop, count=False)
            hit = [x for x in o2.obs if x[3] == kind]
            if hit:
                _, _, dm, _, mm, im = hit[0]
            else:
                cm = c
        sig = {"kind": kind, "family": v[0], "nt": v[1]}
        if rep.violation("%s%s, key %d bits, %s, len %d, aad_len %d, tag %d%s: %s" % (
                             v[0], "_nt" if v[1] else "", 8 * len(cm["key"]), "enc" if cm["enc"] else "dec", len(cm["data"]),
                             len(cm["aad"]), cm["tag"], (", segments %s" % cm["segs"]) if cm["segs"] is not None else "", dm),
                         case_json(cm, v, {"spec(out,tag16)": mm.get("spec"), "impl_out": im.get("out"), "impl_tag": im.get("tag"),
                                           "impl_flags": im.get("flags"), "oracle": oracle_note}), sig):
            new += 1
    return new


class _FixedVariant:
    """stands in for the PRNG so that evaluate() runs exactly one given variant"""
    def __init__(self, v):
        self.v = v


_variants_random = variants


def variants(rng, c, k):   # noqa: F811  (wrapper: a fixed variant for replay / minimisation)
    if isinstance(rng, _FixedVariant):
        return [rng.v]
    return list(c.get("fixed", [])) + _variants_random(rng, c, k)


def corpus(pid, streaming, limit=60):
    """the minimised failing inputs recorded so far (replays/<pid>-*.json, newest first): run
    again on every check, on the recorded implementation variant and on all the usual ones"""
    d = os.path.join(vlib.VERIF, "replays")
    out, seen = [], set()
    try:
        files = sorted((f for f in os.listdir(d) if f.startswith(pid + "-") and f.endswith(".json")),
                       key=lambda f: os.path.getmtime(os.path.join(d, f)), reverse=True)
    except FileNotFoundError:
        files = []
    for f in files:
        try:
            r = json.load(open(os.path.join(d, f)))["replay"]
            r = r.get("case", r)
            if not all(k in r for k in ("key", "iv", "data", "enc", "tag_len")) or not isinstance(r.get("aad"), str):
                continue
            bytes.fromhex(r["aad"])
            c, v = case_from_json(r)
        except (ValueError, KeyError, TypeError):
            continue
        if streaming and c["segs"] is None:
            c["segs"] = [len(c["data"])]
        if not streaming:
            c["segs"] = None
        if v[1] and c["segs"] is not None and not all(x % 64 == 0 for x in c["segs"][:-1]):
            continue
        key = (c["key"], c["iv"], c["aad"], c["data"], c["enc"], c["tag"], tuple(c["segs"] or ()), v)
        if key in seen:
            continue
        seen.add(key)
        c["fixed"] = [v]
        c["aim"] = "corpus of earlier minimised failures"
        out.append(c)
        if len(out) >= limit:
            break
    return out


def check_bindings(rep, oc):
    rep.notes["families_bound_by_dispatcher"] = {p: sorted("%s (precomp %s)" % x for x in s) for p, s in sorted(oc.bound.items())}
    for p, s in oc.bound.items():
        want = PRESETS.get(p)
        for b, pre in s:
            if want and (b != want or pre != want):
                rep.violation("virtual CPUID preset %s: dispatcher bound %s / precompute %s (expected %s): family not exercised through the public entry points" % (p, b, pre, want),
                              {"correspondence": "dispatch preset", "preset": p, "bound": b, "precomp": pre, "expected": want}, no_input=True)
