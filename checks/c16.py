"""C16 — invalid arguments are refused without side effects; legacy and isal_ APIs agree.

Coq: Properties/C16.v — verified checker over the wrapper bodies regenerated from the clang
AST (Gen/WrappersGen.v): for every isal_ entry point and every world (argument valuation),
an offending argument yields a documented non-zero code with no read / write / call, in-domain
arguments reach exactly one internal call with the arguments passed through; every legacy body
is the same call.
Tie: the extracted interpreter's prediction (return value, internal calls with argument
vectors) is compared with the real wrappers for every subset of NULL pointers x boundary
scalars (other pointers into PROT_NONE pages; internal symbols interposed with --wrap); the
property itself (extracted acceptor judge_16) is evaluated on every native observation; in-domain
boundary values are also run against the real kernels; legacy vs isal_ differential on valid
inputs for all pairs."""
import itertools, json, os, sys
import vlib
from checks import wrap_common as wc
sys.path.insert(0, os.path.join(vlib.VERIF, "tr"))
import wrappers

PID = "C16"
# entry points whose kernels tolerate arbitrary bytes in valid buffers (real-mode boundary runs)
REAL_SAFE = ("isal_aes_cbc_", "isal_aes_xts_", "isal_aes_keyexp_", "isal_aes_gcm_enc_128", "isal_aes_gcm_enc_256",
             "isal_aes_gcm_dec_128", "isal_aes_gcm_dec_256", "isal_aes_gcm_init_", "isal_aes_gcm_pre_",
             "isal_sha1_ctx_mgr_init", "isal_sha256_ctx_mgr_init", "isal_sha512_ctx_mgr_init", "isal_md5_ctx_mgr_init",
             "isal_sm3_ctx_mgr_init", "isal_mh_sha1_init", "isal_mh_sha256_init", "isal_mh_sha1_murmur3_x64_128_init",
             "isal_rolling_hash2_init", "isal_rolling_hashx_mask_gen")
REAL_UNSAFE_SUFFIX = ("_update", "_update_nt", "_finalize")


def gen():
    return wc.gen()


DRIVERS = [("wrap", "Wrappers")]


def real_safe(name):
    return name.startswith(REAL_SAFE) and not name.endswith(REAL_UNSAFE_SUFFIX)


class Case:
    __slots__ = ("cid", "entry", "eid", "args", "mode", "stubret", "pred", "nat", "why", "spec")

    def __init__(self, cid, entry, eid, args, mode="s"):
        self.cid, self.entry, self.eid, self.args, self.mode = cid, entry, eid, args, mode
        self.stubret, self.pred, self.nat, self.why, self.spec = 7, None, None, "", ""


def assign_nullness(params, args):
    """model assignment from case arguments: pointers 0 / 1, scalars their value"""
    out = []
    for i, (p, a) in enumerate(zip(params, args)):
        if p[1] == "CPtr":
            out.append("A%d=%x" % (i, 0 if a == "n" else 1))
        else:
            out.append("A%d=%x" % (i, a))
    return " ".join(out)


def build_cases(ctx, tier, rng, only=None):
    """every non-neutral entry x every subset of NULL pointers x boundary scalar tuples"""
    cases = []
    cand_lines = ["cands k%d 16 %d" % (e, e) for e in ctx.entry_ids]
    cands = {int(k[1:]): wc.parse_cands(v) for k, v in ctx.model_lines(cand_lines, shards=1).items()}
    nrand = {"quick": 12, "thorough": 400}[tier]
    dist = {}
    for eid in ctx.entry_ids:
        name = ctx.byid[eid]
        if ctx.cls[eid] == 2 or (only and name != only):
            continue
        params = ctx.params(name)
        pidx = [i for i, p in enumerate(params) if p[1] == "CPtr"]
        sidx = [i for i, p in enumerate(params) if p[1] != "CPtr"]
        bvals = {i: wc.boundary_values(wrappers.width_of(params[i][1]), cands[eid].get("A%d" % i, [])) for i in sidx}
        # two in-domain baselines for the scalars: searched among the region candidates
        base_pool = list(itertools.islice(itertools.product(*[sorted(set(cands[eid].get("A%d" % i, [0, 16]) + [16])) for i in sidx]), 4000))
        lines = []
        for k, tup in enumerate(base_pool):
            args = ["g" if i in pidx else None for i in range(len(params))]
            for i, v in zip(sidx, tup):
                args[i] = v
            lines.append("view b%d %d %s" % (k, eid, assign_nullness(params, args)))
        res = ctx.model_lines(lines, shards=1) if lines else {}
        valid = [tup for k, tup in enumerate(base_pool)
                 if "1" not in wc.parse_model_run(res["b%d" % k]).get("spec", "1")[1:-1]]
        bases = [valid[0], valid[-1]] if valid else [tuple(0 for _ in sidx)]
        tuples = set(bases)
        for b in bases:
            for j, i in enumerate(sidx):
                for v in bvals[i]:
                    t = list(b)
                    t[j] = v
                    tuples.add(tuple(t))
        for _ in range(nrand):
            tuples.add(tuple(rng.choice(bvals[i]) for i in sidx))
        dist[name] = {"pointer_subsets": 1 << len(pidx), "scalar_tuples": len(tuples)}
        n = 0
        for tup in sorted(tuples):
            for mask in range(1 << len(pidx)):
                args = [None] * len(params)
                for b, i in enumerate(pidx):
                    args[i] = "n" if (mask >> b) & 1 else "g"
                for i, v in zip(sidx, tup):
                    args[i] = v
                cases.append(Case("%d.%d" % (eid, n), name, eid, args))
                n += 1
    return cases, dist, cands


def predict(ctx, cases):
    """the interpreter's prediction (white-box comparison only) and, separately, the table's view of
    the world (which parameters must / may be refused): the native judgement uses only the latter"""
    lines = ["run %s 0 %d %s" % (c.cid, c.eid, assign_nullness(ctx.params(c.entry), c.args)) for c in cases]
    out = ctx.model_lines(lines)
    vout = ctx.model_lines(["view %s %d %s" % (c.cid, c.eid, assign_nullness(ctx.params(c.entry), c.args)) for c in cases])
    for c in cases:
        c.pred = wc.parse_model_run(out[c.cid])
        c.spec = wc.parse_model_run(vout[c.cid]).get("spec", "")


def native_args(ctx, c):
    return wc.spec_native_args(ctx, c)


def run_native(ctx, cases):
    lines = []
    skipped = 0
    keep = []
    for c in cases:
        toks, local_call = native_args(ctx, c)
        if local_call and c.mode == "s":
            # a real internal function will run: keep its length-like scalars inside the 64 KiB buffers
            if any(isinstance(a, int) and a > 4096 for a in c.args) and c.entry == "isal_rolling_hash2_run":
                skipped += 1
                continue
        sp = ctx.spec[c.eid]
        c.stubret = 0 if (sp["store"] is not None or sp["ret"] == "mapped") else 7
        lines.append("N %s %s %s - - - %x %s" % (c.cid, c.entry, c.mode, c.stubret, " ".join(toks)))
        keep.append(c)
    out = ctx.native_lines(lines)
    for c in keep:
        c.nat = wc.parse_native(out[c.cid])
    return keep, skipped


def judge(ctx, cases):
    lines = []
    for c in cases:
        if "ptrs" not in c.nat:
            continue
        actual = c.nat["ptrs"].split(",") if c.nat["ptrs"] != "-" else []
        assign = " ".join("A%d=%s" % (i, v) for i, v in enumerate(actual))
        calls, stores, sr, real = wc.spec_judge_inputs(ctx, c)
        lines.append(wc.judge_line(c.cid, "16", c.eid, c.nat, sr, calls, assign, real=real, stores=stores))
    out = ctx.model_lines(lines)
    return {k: v.split()[1] if len(v.split()) > 1 else "?" for k, v in out.items()}


def describe(c):
    return {"entry": c.entry, "args": ["NULL" if a == "n" else ("ptr" if a in ("g", "v", "s") else "0x%x" % a) for a in c.args],
            "mode": {"s": "internal symbols interposed", "r": "real kernels"}[c.mode]}


def classify_l0(ctx, c):
    """signature of an L0 rejection"""
    pre, musts, mays, same = wc.spec_bits(ctx, c.eid, c.spec)
    must, may = "1" in musts, "1" in mays
    ret = int(c.nat["ret"], 16) if "ret" in c.nat else -1
    if c.nat.get("fault") == "1":
        kind = "fault_offending" if (must or may) else "fault_in_domain"
    elif must and ret == 0:
        kind = "accepts_offending"
    elif must or may:
        kind = "refusal_wrong_code_or_side_effect"
    else:
        kind = "in_domain_not_served"
    return {"entry": c.entry, "kind": kind}


def run(tier, replay=None):
    rep = vlib.Report(PID, "proof", tier, "cd coq && make Properties/C16.vo  (coqc 8.16.1, full .vo build)")
    rng = vlib.SplitMix64(vlib.seed() * 1000003 + 16)
    try:
        files = gen()
        trans_err = None
    except wrappers.Unsupported as e:
        files, trans_err = {}, str(e)
    if trans_err:
        rep.obligation("translator: every construct of the wrapper bodies is in the mini-C subset", False, trans_err)
        rep.violation("translator failed closed: " + trans_err, {"correspondence": "tr/wrappers.py", "detail": trans_err}, no_input=True)
        return rep.finish()
    rep.obligation("translator: every construct of the wrapper bodies is in the mini-C subset", True)
    ok, broken = vlib.coq_step(rep, PID, files, extract="Wrappers")
    ctx = wc.Ctx("hook")
    rep.obligation("every exported isal_ entry point has exactly one specification row", ctx.covers)
    if not ctx.covers:
        rep.violation("specification table does not cover the exported entry points", {"correspondence": "Spec/WrapperSpec.specs vs nm"}, no_input=True)

    # ---- 1. verdicts of the verified checkers, computed by the extracted code (witnesses for replay)
    vl = []
    for e in ctx.entry_ids:
        vl += ["verdict a%d 16 %d" % (e, e), "verdict l%d legacy %d" % (e, e)]
    verd = ctx.model_lines(vl)
    failing = {}
    for e in ctx.entry_ids:
        name = ctx.byid[e]
        a, l = verd["a%d" % e], verd["l%d" % e]
        rep.obligation("check16 %s" % name, " ok" in a, a if " ok" not in a else "")
        rep.obligation("legacy_same_call %s" % name, " ok" in l)
        if " ok" not in a:
            failing[e] = a
        if " ok" not in l:
            rep.violation("legacy counterpart of %s is not the same internal call" % name,
                          {"theorem": "C16_legacy_same_call", "entry": name}, {"entry": name, "kind": "legacy_differs"}, no_input=True)

    # ---- 2. sweep: NULL subsets x boundary scalars, internal symbols interposed
    if replay and "args" not in json.load(open(replay))["replay"]:
        replay = None          # a replay that names a theorem / correspondence: run everything
    if replay:
        r = json.load(open(replay))["replay"]
        eid = ctx.names[r["entry"]]
        args = [("n" if a == "NULL" else ("g" if a == "ptr" else int(a, 16))) for a in r["args"]]
        cases = [Case("%d.0" % eid, r["entry"], eid, args, "r" if r.get("mode", "").startswith("real") else "s")]
        if cases[0].mode == "r":
            cases[0].args = [("v" if a == "g" else a) for a in args]
        dist = {}
    else:
        cases, dist, cands = build_cases(ctx, tier, rng)
        # witnesses of failing obligations become cases too
        for e, line in failing.items():
            name = ctx.byid[e]
            params = ctx.params(name)
            w = dict(t.split("=") for t in line.split() if "=" in t and t[0] == "A")
            args = []
            for i, p in enumerate(params):
                v = int(w.get("A%d" % i, "0"), 16)
                args.append(("n" if v == 0 else "g") if p[1] == "CPtr" else v)
            cases.append(Case("%d.w" % e, name, e, args))
            if real_safe(name):
                cases.append(Case("%d.wr" % e, name, e, [("v" if a == "g" else a) for a in args], "r"))
    predict(ctx, cases)
    # ---- 3. in-domain boundary values against the real kernels (only entries whose kernels accept
    #         arbitrary buffer contents)
    if not replay:
        seen = set()
        extra = []
        for c in cases:
            spec = c.spec or "1"
            if c.mode == "s" and real_safe(c.entry) and "n" not in c.args and "1" not in spec[1:-1] and \
                    all((not isinstance(a, int)) or a <= 4096 for a in c.args):
                key = (c.entry, tuple(c.args))
                if key not in seen:
                    seen.add(key)
                    r = Case(c.cid + "r", c.entry, c.eid, [("v" if a == "g" else a) for a in c.args], "r")
                    r.pred, r.spec = c.pred, c.spec
                    extra.append(r)
        cases += extra
    ran, skipped = run_native(ctx, cases)
    verdicts = judge(ctx, ran)
    nviol = 0
    wb = None
    kinds = {}
    sigs_seen = set()
    for c in ran:
        nontrivial = True
        rep.case((c.entry, tuple(c.args), c.mode), nontrivial)
        v = verdicts.get(c.cid, "?")
        k = "refused" if (c.nat.get("calls") == [] and c.nat.get("ret") not in ("0",)) else "accepted"
        kinds[(c.mode, k)] = kinds.get((c.mode, k), 0) + 1
        if v != "accept":
            sig = classify_l0(ctx, c)
            what = "%s(%s) [%s]: returned %s, fault=%s, internal calls %s, buffers changed %s — the property's acceptor rejects this behaviour (%s)" % (
                c.entry, ", ".join(describe(c)["args"]), describe(c)["mode"], c.nat.get("ret"), c.nat.get("fault"),
                [ctx.byid.get(int(x.split("(")[0]), x) for x in c.nat.get("calls", [])], c.nat.get("chg"), sig["kind"])
            # one report per (entry, kind): the first (smallest) case
            if (sig["entry"], sig["kind"]) not in sigs_seen:
                sigs_seen.add((sig["entry"], sig["kind"]))
                if rep.violation(what, dict(describe(c), native=c.nat["raw"][:400], model=c.pred["raw"][:400]), sig):
                    nviol += 1
        if c.mode == "s":
            d = wc.compare_run(ctx, c.entry, c.pred, c.nat, c.stubret, ctx.tab[c.entry]["ret_q"] == "int" and "i" or "q")
            if d and wb is None:
                wb = (c, d)
    rep.cov["traces_validated_against_impl"] = len(ran)
    # ---- 4. legacy vs isal_ differential
    pairs = ctx.native_lines(["P p0"], shards=1)["p0"].split()[1:]
    want = [ctx.byid[e] for e in ctx.entry_ids if ctx.cls[e] != 2]
    missing = [w for w in want if w not in pairs]
    rep.obligation("differential harness implements every legacy/isal_ pair", not missing, str(missing))
    if missing:
        rep.violation("legacy/isal_ pairs without a differential case: %s" % missing, {"correspondence": "harness/wrap_diff.c pairs", "missing": missing}, no_input=True)
    nd = {"quick": 6, "thorough": 120}[tier]
    lens = [0, 1, 15, 16, 17, 63, 64, 65, 127, 128, 129, 255, 256, 1023, 1024, 1025, 4095, 4096]
    dl = []
    for p in (pairs if not replay else []):
        for k in range(nd):
            ln = lens[(k * 7 + len(p)) % len(lens)] if k < nd // 2 else rng.below(5000)
            dl.append("L %s.%d %s %d %d" % (p, k, p, rng.next() >> 1, ln))
    dout = ctx.native_lines(dl) if dl else {}
    for l in dl:
        cid = l.split()[1]
        res = dout[cid]
        rep.case(("diff", l), True)
        if " same" not in res:
            t = l.split()
            rep.violation("legacy vs isal_ differential: %s seed=%s len=%s: %s" % (t[2], t[3], t[4], res),
                          {"pair": t[2], "seed": t[3], "len": t[4], "result": res}, {"entry": t[2], "kind": "legacy_differs"})
    # ---- verdict
    for e, line in (failing.items() if not replay else []):
        name = ctx.byid[e]
        confirmed = any(c.entry == name and verdicts.get(c.cid) != "accept" for c in ran)
        if not confirmed:
            rep.violation("verified checker check16 rejects %s (witness %s) but no failing input was found on the real wrapper" % (name, line),
                          {"theorem": "C16 checker obligation", "entry": name, "witness": line}, {"entry": name, "kind": "obligation"}, no_input=True)
    if not ok and not rep.violations:
        rep.violation("Coq obligation no longer checks: %s" % broken, {"theorem_or_file": broken}, no_input=True)
    if wb and not rep.violations:
        c, d = wb
        rep.violation("interpreter prediction differs from the real wrapper (no property failure found): %s: %s" % (c.entry, d),
                      dict(describe(c), correspondence="mini-C interpreter vs native wrapper", detail=d), no_input=True)
    for c in ran[:3]:
        rep.sample({"case": describe(c), "model": c.pred["raw"][:300], "native": c.nat["raw"][:300]})
    rep.cov["rule"] = ("cases = (entry, subset of NULL pointer arguments, scalar tuple): all 2^p subsets x {two in-domain baselines with each scalar "
                       "swept over region cut points of the verified checker + {0..8,12,15..17,31..33,48,49,64,65,4096,2^24,2^24+1,2^31,2^32-1,2^39-257,2^39-256,2^64-1}} "
                       "+ random tuples; non-NULL pointers point into PROT_NONE memory unless the model predicts a legitimate access; "
                       "in-domain tuples with lengths <= 4096 re-run against the real kernels; + legacy/isal_ differential on valid inputs; "
                       "distinct = distinct (entry, arguments, mode); every case is non-trivial (one real call of the entry point)")
    rep.notes["input_distribution"] = {"per_entry": dist, "outcomes": {"%s/%s" % k: v for k, v in sorted(kinds.items())},
                                       "skipped_large_rolling_run": skipped, "differential_cases": len(dl)}
    rep.assumptions = ["the clang AST -> mini-C translator (tr/wrappers.py) is trusted to emit what the source says; it is cross-checked on every case by comparing the interpreter's prediction with the real wrapper",
                       "internal symbols living in the wrapper's own object file cannot be interposed (_mh_*_init, _rolling_hash2_reset/_run, _rolling_hash2_init): their call is not observed natively",
                       "the kernel precondition len != 0 of the CBC kernels is modelled (Spec/WrapperSpec.v), confirmed by the real-kernel runs"]
    return rep.finish()
