"""Lane level of the multi-buffer hash managers (extension of C06; also serves C01/C08/C15's lane facts).

Coq: Model/LaneMgr.v (concrete, executable lane manager: packed lens[] words, packed unused_lanes
stack, num_lanes_inuse, per-lane job / data pointer / digest column, one `family_cfg` per
(algorithm, family)), Proofs/LaneMgr*.v, Properties/C06_lanes.v; Gen/LaneCfgGen.v is regenerated
by tr/lane_cfg.py from the init .c files and the submit/flush .asm files of /repo's current tree
(obligations: every configuration `cfg_wf`, same pairs / free-lane stacks as Gen/HashCfgGen.v).

Tie (`lane_whitebox`): harness/lanes_drv.c drives the REAL managers (_<algo>_mb_mgr_init/submit/
flush_<family>, sha512's _sb_mgr_*_sse4) with jobs and dumps the manager structure after EVERY call;
ocaml/lanes_driver.ml runs the extracted model on the same job sequence with the regenerated
configuration; every token is compared: which job each call returns (the min-search tie-break),
its digest, unused_lanes, num_lanes_inuse, every lens[] word, job_in_lane[], and for occupied
lanes data_ptr - job.buffer and the digest column.  Independently of the model, the observed
trace is checked against the job-level property itself (each job returned at most once, all
returned after the final drain, flush NULL exactly when nothing is held, returned digest =
fold of compress over the job's blocks (extracted a_compress), no fault, no hang).
  * property failure on the observed trace  -> VIOLATION with the history;
  * white-box difference / broken obligation / untranslatable source with a clean trace, also on
    the larger search -> VIOLATION ... no-failing-input-found naming the correspondence.

Standalone: python3 checks/lanemgr.py [--tier quick|thorough]  (Report id "C06lanes": writes
evidence/C06lanes.json, never evidence/C06.json)."""
import hashlib, os, re, sys, time

HERE = os.path.dirname(os.path.abspath(__file__))
sys.path.insert(0, os.path.join(os.path.dirname(HERE), "lib"))
sys.path.insert(0, os.path.dirname(HERE))
import vlib
sys.path.insert(0, os.path.join(vlib.VERIF, "tr"))
import hash_cfg, lane_cfg

DRIVERS = [("lanes", "Lanes")]
PROPS = "Properties/C06_lanes.v"
_cfgs = None
_hcfg = None


def hcfg():
    global _hcfg
    if _hcfg is None:
        try:
            from checks import hashcommon
            _hcfg = hashcommon.cfg()
        except Exception:
            _hcfg = hash_cfg.config(vlib.REPO, vlib.build("hook"))
    return _hcfg


BASELINE = os.path.join(vlib.VERIF, "corpus", "lane_cfg_baseline.json")


def cfgs():
    """regenerated lane configurations of vlib.REPO's current tree (cached per process).  A family
    whose sources tr/lane_cfg.py no longer understands ("error") gets the configuration this
    development was written against (corpus/lane_cfg_baseline.json) as "fallback": the white-box
    comparison is still run with it so that the report can name the first differing field; the
    broken translation itself is reported whatever the comparison says."""
    global _cfgs
    if _cfgs is None:
        _cfgs = lane_cfg.config(vlib.REPO, vlib.build("hook"), hcfg())
        base = {}
        try:
            import json
            with open(BASELINE) as fh:
                base = {(e["algo"], e["fam"]): e for e in json.load(fh)}
        except (OSError, ValueError):
            pass
        for e in _cfgs:
            b = base.get((e["algo"], e["fam"]))
            if e.get("error") and b and not b.get("error") and not b["immediate"]:
                fb = dict(b)
                for k in ("run", "empty", "threshold"):
                    if isinstance(fb.get(k), list):
                        fb[k] = tuple(fb[k])
                fb["mgr"], fb["init"] = e["mgr"], e["init"]
                e["fallback"] = fb
    return _cfgs


def model_cfg(e):
    """the configuration the model is run with for this family (None: no model run)"""
    if not e.get("error"):
        return e
    return e.get("fallback")


def gen():
    """Gen/LaneCfgGen.v, and Gen/HashCfgGen.v which it imports (the same text every hash check regenerates)"""
    d = vlib.build("hook")
    return {"Gen/HashCfgGen.v": hash_cfg.generate(vlib.REPO, d, hcfg()),
            "Gen/LaneCfgGen.v": lane_cfg.generate(vlib.REPO, d, cfgs(), hcfg())}


# ----------------------------------------------------------------------------- drivers

def native_driver():
    d = vlib.build("hook")
    lines = []
    for e in cfgs():
        subs = [s for s in e["mgr"] if "_mgr_submit_" in s]
        fls = [s for s in e["mgr"] if "_mgr_flush_" in s]
        if not e["mgr"] or not e.get("init") or len(subs) != 1 or len(fls) != 1:
            continue            # base contexts have no manager
        me = model_cfg(e)
        if me is None:
            n, sb, ds = e.get("lanes_hint", 0), 64, e.get("lanes_hint", 0)
        elif me["immediate"]:
            n, sb, ds = 0, 0, 0
        else:
            n, sb, ds = me["nlanes"], me["stack_bits"], me.get("digest_stride", me["nlanes"])
        lines.append("LF(%s, %s, %s, %s, %s, %d, %d, %d)" % (e["algo"], e["fam"], e["init"], subs[0], fls[0], n, sb, ds))
    txt = "\n".join(lines) + "\n"
    inc = os.path.join(d, "lanes_fams-%s.inc" % hashlib.sha256(txt.encode()).hexdigest()[:12])
    vlib.write_if_changed(inc, txt)
    return vlib.cc_harness("lanes", ["lanes_drv.c"], "hook", extra=['-DLANES_FAMS_INC="%s"' % inc])


def model_driver():
    return vlib.ocaml_driver("lanes", "Lanes")


def cfg_token(e):
    if e["immediate"]:
        return "imm=1;bs=%d;n=0;sb=0;ent=0;pop=0;iu=0;il=-;W=0;sh=0;ib=0;cb=0;pk=S;idle=0;run=I:0;scan=0;emp=I;thr=-;ri=0" % e["bsize"]
    run = "S:%x" % e["run"][1] if e["run"][0] == "RunStackEq" else "I:%d" % e["run"][1]
    emp = "I" if e["empty"][0] == "EmptyInuse0" else "B:%d" % e["empty"][1]
    return ("imm=0;bs=%d;n=%d;sb=%d;ent=%d;pop=%d;iu=%x;il=%s;W=%d;sh=%d;ib=%d;cb=%d;pk=%s;idle=%x;run=%s;scan=%d;emp=%s;thr=%s;ri=%d" % (
        e["bsize"], e["nlanes"], e["stack_bits"], e["ent_bits"], e["pop_bits"], e["init_unused"],
        ",".join("%x" % x for x in e["init_lens"]), e["W"], e["shift"], e["idx_bits"], e["clear_bits"],
        "H" if e["pack"] == "PackHighField" else "S", e["idle_len"], run, e["submit_scan"], emp,
        "%d" % e["threshold"][1] if e["threshold"] else "-", 1 if e["retire_idle"] is not None else 0))


# ----------------------------------------------------------------------------- histories
#
# A history is a list of ops "S<nblocks>,<seed>" / "F".  `u` = number of lanes a submit can fill
# before the lanes are run (f_submit_scan: the lane count, 2 for sse_ni).

def _S(rng, nb):
    return "S%d,%d" % (nb, rng.below(1 << 30) + 1)


def drain(u):
    return ["F"] * (u + 2)


def h_occupancy(rng, u, imm):
    """every occupancy 0..u-1 reached by submits, then flushed down through every lower occupancy
    (distinct lengths, so both sides of a single-buffer threshold see distinct minima), flush on
    the empty manager before, between and after"""
    ops = ["F"]
    for k in range(0, (u if not imm else 3)):
        lens = [1 + (i * 2 + k) % 4 for i in range(k)]
        if k % 2:
            lens.reverse()
        ops += [_S(rng, nb) for nb in lens]
        ops += ["F"] * (k + 1)
    return ops + drain(u)


def h_full(rng, u, imm):
    """the submit that fills the last lane (runs the lanes), again and again with the lanes full,
    distinct then equal lengths; flush right after a submit that handed a job back; drain"""
    ops = [_S(rng, 1 + i % 3) for i in range(u - 1)]
    ops += [_S(rng, 2), "F"]
    ops += [_S(rng, 1 + (i * 7) % 4) for i in range(u + 2)]
    ops += ["F", "F"]
    ops += [_S(rng, 3) for i in range(u)]
    return ops + drain(u)


def h_ties(rng, u, imm):
    """equal lengths everywhere: every min search is a tie (lowest packed word = lowest lane wins);
    the free-lane stack is permuted first so that lane order differs from submission order"""
    ops = []
    # permute the stack: fill, flush some, refill
    ops += [_S(rng, 1 + (i % 2)) for i in range(max(1, u - 1))]
    ops += ["F"] * max(1, (u - 1))
    ops += [_S(rng, 2) for i in range(2 * u + 1)]
    ops += ["F"]
    ops += [_S(rng, 2) for i in range(u)]
    return ops + drain(u)


def h_zero(rng, u, imm):
    """zero-length jobs: alone, among longer jobs, as the job that fills the last lane, several at once"""
    ops = [_S(rng, 0), "F", "F"]
    ops += [_S(rng, 2), _S(rng, 0), "F", "F", "F"] if u >= 2 else []
    ops += [_S(rng, 1 + i % 2) for i in range(max(0, u - 1))] + [_S(rng, 0)]
    ops += [_S(rng, 0), _S(rng, 0), "F"]
    ops += [_S(rng, 0) for i in range(u + 1)]
    return ops + drain(u)


def h_random(rng, u, imm):
    ops = []
    n = 3 * u + 12
    fl = rng.choice([5, 15, 30, 50])
    for _ in range(n):
        if rng.below(100) < fl:
            ops.append("F")
        else:
            ops.append(_S(rng, rng.choice([0, 1, 1, 1, 2, 2, 3, 4, 6])))
    return ops + drain(u)


GENS = [("occupancy", h_occupancy), ("full", h_full), ("ties", h_ties), ("zero", h_zero), ("random", h_random)]


def lanes_of(e):
    e = model_cfg(e) or e
    if e.get("error"):
        return max(1, e.get("lanes_hint", 4))
    if e["immediate"]:
        return 1
    return e["submit_scan"]


def gen_cases(rng, tier, only=None, nrandom=None):
    cases = []
    nr = nrandom if nrandom is not None else {"quick": 2, "thorough": 40}[tier]
    for e in cfgs():
        if not e["mgr"]:
            continue
        if only and (e["algo"], e["fam"]) not in only:
            continue
        u = lanes_of(e)
        for name, g in GENS:
            for r in range(nr if name == "random" else 1):
                cases.append({"algo": e["algo"], "fam": e["fam"], "aim": name, "ops": g(rng.fork(), u, e["immediate"]), "cfg": e})
    return cases


# ----------------------------------------------------------------------------- running and comparing

def run_native(cases, prefix="l"):
    exe = native_driver()
    ids = ["%s%d" % (prefix, k) for k in range(len(cases))]
    txt = "\n".join("L %s %s %s 20 %s" % (i, c["algo"], c["fam"], " ".join(c["ops"])) for i, c in zip(ids, cases))
    out, err = vlib.run_driver(exe, txt, timeout=1200)
    return ids, out


def run_model(cases, ids):
    exe = model_driver()
    sel = [(i, c) for i, c in zip(ids, cases) if model_cfg(c["cfg"])]
    if not sel:
        return {}
    txt = "\n".join("M %s %s %s %s %s" % (i, c["algo"], c["fam"], cfg_token(model_cfg(c["cfg"])), " ".join(c["ops"])) for i, c in sel)
    out, err = vlib.run_driver(exe, txt, timeout=1200)
    return out


def run_oracle(cases, ids):
    """expected digest of every job of every case: the extracted a_compress folded over the job's
    blocks - the model of an `immediate` manager (submit finishes the job itself)"""
    exe = model_driver()
    imm = "imm=1;bs=0;n=0;sb=0;ent=0;pop=0;iu=0;il=-;W=0;sh=0;ib=0;cb=0;pk=S;idle=0;run=I:0;scan=0;emp=I;thr=-;ri=0"
    txt = "\n".join("M %s %s %s %s %s" % (i, c["algo"], c["fam"], imm, " ".join(o for o in c["ops"] if o[0] == "S"))
                    for i, c in zip(ids, cases))
    out, err = vlib.run_driver(exe, txt, timeout=1200)
    res = {}
    for i in ids:
        res[i] = [m.group(1) for m in re.finditer(r" r=\d+ d=(\S+)", out.get(i, ""))]
    return res


def segs(line):
    parts = line.split(" | ")
    return parts[0], [p.strip() for p in parts[1:]]


def trace_failures(case, nline, expected=None):
    """job-level property on the observed trace -> list of reasons (empty = holds)"""
    head, ss = segs(nline)
    fails = []
    out, back = [], []
    nsub = 0
    if "<no-output" in nline:
        return ["driver died: " + nline[-60:]]
    for k, s in enumerate(ss):
        if s.startswith("end"):
            if s != "end ok":
                fails.append("%s at call %d" % (s, k - 1))
            continue
        if " > " not in s and not s.endswith(">"):
            fails.append("truncated output at call %d" % k)
            break
        call, _, obs = s.partition(" >")
        call = call.strip()
        if "FAULT" in obs or "TIMEOUT" in obs:
            fails.append("%s in call %d (%s)" % (" ".join(t for t in obs.split() if t.startswith(("FAULT", "TIMEOUT", "sig=", "addr="))), k, call))
            break
        if call == "init":
            continue
        kv = dict(t.split("=", 1) for t in obs.split() if "=" in t)
        if call.startswith("S"):
            out.append(nsub)
            nsub += 1
        r = kv.get("r", "?")
        if r == "foreign":
            fails.append("call %d (%s) returned a pointer that is no job of this run" % (k, call))
        elif r != "-":
            j = int(r)
            if j in back:
                fails.append("job %d returned twice (call %d)" % (j, k))
            elif j not in out:
                fails.append("job %d returned before it was submitted (call %d)" % (j, k))
            else:
                out.remove(j)
                back.append(j)
            if "userdata" in kv:
                fails.append("job %d returned with user_data changed (call %d)" % (j, k))
            if expected is not None and j < len(expected) and kv.get("d") != expected[j]:
                fails.append("job %d returned with digest %s, fold of compress over its blocks is %s (call %d)" % (j, kv.get("d"), expected[j], k))
        elif call == "F" and out:
            # flush returned NULL with jobs held: allowed only if ... never (flush must drain)
            fails.append("flush returned NULL while jobs %s are held (call %d)" % (out[:6], k))
    if not fails and out:
        fails.append("jobs %s never returned after the final drain" % out[:6])
    return fails


def whitebox_diff(case, nline, mline):
    """first token in which the real manager and the model differ, or None"""
    nh, ns = segs(nline)
    mh, ms = segs(mline)
    if mline.find(" error:") >= 0 or "<no-output" in mline:
        return {"call": -1, "what": "model driver failed: " + mline[-200:]}
    imm = (model_cfg(case["cfg"]) or case["cfg"])["immediate"]
    for k in range(max(len(ns), len(ms))):
        a = ns[k] if k < len(ns) else "<missing>"
        b = ms[k] if k < len(ms) else "<missing>"
        if a == b:
            continue
        ta, tb = a.split(), b.split()
        if imm:
            # job.status is not written by the synchronous manager (and read by nobody)
            ta = [t for t in ta if not t.startswith("status=")]
        for x in range(max(len(ta), len(tb))):
            p = ta[x] if x < len(ta) else "<missing>"
            q = tb[x] if x < len(tb) else "<missing>"
            if p == q:
                continue
            key = p.split("=")[0] if "=" in p else p
            if imm and key in ("u", "n", "l", "j", "p", "c"):
                continue         # a synchronous manager has no lane state (its init writes nothing)
            detail = ""
            if "=" in p and "=" in q and "," in p:
                pa, qa = p.split("=", 1)[1].split(","), q.split("=", 1)[1].split(",")
                bad = [i for i in range(max(len(pa), len(qa))) if (pa[i] if i < len(pa) else None) != (qa[i] if i < len(qa) else None)]
                detail = " (lanes %s)" % bad[:8]
            return {"call": k, "op": ta[0] if ta else "?", "field": key, "real": p[:200], "model": q[:200],
                    "what": "call #%d %s: %s real %s / model %s%s" % (k, ta[0] if ta else "?", key, p[:120], q[:120], detail)}
    return None


FIELD_NAMES = {"r": "which job the call returns", "d": "digest of the returned job", "u": "unused_lanes", "n": "num_lanes_inuse",
               "l": "lens[]", "j": "job_in_lane[]", "p": "data_ptr - job.buffer of occupied lanes", "c": "digest columns of occupied lanes"}


def failure_class(reason):
    return re.sub(r"\d+", "#", re.sub(r"\b[0-9a-f]{6,}\b", "#", reason)).split(" (")[0][:40]


def minimise(case, pred, budget=40):
    """drop ops (never the final drain) while the predicate (re-running the native driver) still holds"""
    u = lanes_of(case["cfg"])
    tail = drain(u)
    ops = list(case["ops"])
    if ops[-len(tail):] == tail:
        ops = ops[:-len(tail)]
    res = _minimise(dict(case, ops=ops), lambda c: pred(dict(c, ops=c["ops"] + tail)), budget)
    return dict(res, ops=res["ops"] + tail)


def _minimise(case, pred, budget):
    ops = list(case["ops"])
    n = 0
    chunk = max(1, len(ops) // 2)
    while chunk >= 1 and n < budget:
        i = 0
        changed = False
        while i < len(ops) and n < budget:
            cand = ops[:i] + ops[i + chunk:]
            n += 1
            if cand and pred(dict(case, ops=cand)):
                ops = cand
                changed = True
            else:
                i += chunk
        if not changed:
            chunk //= 2
    return dict(case, ops=ops)


def assumptions_cached():
    """`Print Assumptions` of every statement of Properties/C06_lanes.v (18 closures over the whole hash
    development: ~15 s), cached under the content hash of the compiled file it was computed from"""
    import json
    vo = os.path.join(vlib.COQ, PROPS + "o")
    with open(vo, "rb") as fh:
        key = hashlib.sha256(fh.read()).hexdigest()[:20]
    cf = os.path.join(vlib.CACHE, "pa-C06_lanes-%s.json" % key)
    try:
        with open(cf) as fh:
            return json.load(fh)
    except (OSError, ValueError):
        pass
    ass = vlib.coq_assumptions(PROPS)
    if "<error>" not in ass:
        with open(cf + ".tmp%d" % os.getpid(), "w") as fh:
            json.dump(ass, fh)
        os.replace(cf + ".tmp%d" % os.getpid(), cf)
    return ass


def coq_step(rep, only=None):
    """regenerate Gen/LaneCfgGen.v, build the extraction (models only) and the lane obligations
    (only = the statements of Properties/C06_lanes.v to count; default all)"""
    err = None
    try:
        g = gen()
    except lane_cfg.LaneCfgError as e:
        g, err = {}, str(e)
    for path, content in g.items():
        vlib.write_if_changed(os.path.join(vlib.COQ, path), content)
    os.makedirs(os.path.join(vlib.COQ, "Extract", "out"), exist_ok=True)
    # one locked make for everything (-k: the extraction - models only - must build even when a proof is broken)
    targets = ["Extract/Lanes.vo", "Gen/LaneCfgGen.vo"]
    have_props = os.path.exists(os.path.join(vlib.COQ, PROPS))
    if have_props:
        targets.append(PROPS + "o")
    ok, log = vlib.coq_make(targets)
    broken = None if ok else vlib.first_coq_error(log)
    xml, xvo = os.path.join(vlib.COQ, "Extract", "out", "Lanes.ml"), os.path.join(vlib.COQ, "Extract", "Lanes.vo")
    if not ok and (not os.path.exists(xvo) or not os.path.exists(xml) or
                   os.path.getmtime(xvo) < os.path.getmtime(os.path.join(vlib.COQ, "Model", "LaneMgr.v")) or
                   any(x in (broken or {}).get("file", "") for x in ("Extract/Lanes", "Model/"))):
        raise RuntimeError("lane model / extraction build failed: %s" % broken)
    gen_ok = os.path.exists(os.path.join(vlib.COQ, "Gen", "LaneCfgGen.vo")) and (ok or "LaneCfgGen" not in (broken or {}).get("file", "")) and not err
    for n in ("gen_lane_cfgs_wf", "gen_lane_cfgs_pairs") if only is None else ("gen_lane_cfgs_wf",):
        rep.obligation("Gen/LaneCfgGen.v:" + n, gen_ok, "" if gen_ok else (err or "regenerated lane configuration no longer satisfies Model/LaneMgr.v cfg_wf"))
    if have_props:
        names = [n for n in vlib.coq_obligations(PROPS) if only is None or n in only]
        if ok:
            ass = assumptions_cached()
            for n in names:
                a = ass.get(n, "?")
                closed = "Closed under the global context" in a
                rep.obligation("C06_lanes:" + n, True, "closed under the global context" if closed else a)
            extra = sorted({a for a in ass.values() if "Closed under the global context" not in a})
            if extra:
                rep.cov["axioms"] = sorted(set(rep.cov.get("axioms", [])) | set(extra))
        else:
            for n in names:
                rep.obligation("C06_lanes:" + n, False, "not checked: %s:%d %s" % (broken["file"], broken["line"], broken["error"][:200]))
    if err and not broken:
        broken = {"file": "tr/lane_cfg.py", "line": 0, "error": err}
    return ok and not err, broken


def lane_whitebox(rep, tier, k=606):
    """the lane-level part of C06: obligations + white-box tie; adds violations to `rep`"""
    t0 = time.time()
    ok, broken = coq_step(rep)
    rng = vlib.SplitMix64(vlib.seed() * 1000003 + k)
    cases = gen_cases(rng, tier)
    ids, nout = run_native(cases)
    mout = run_model(cases, ids)
    diffs, tfails = [], []
    dist = {}
    calls = 0
    for i, c in zip(ids, cases):
        key = "%s/%s" % (c["algo"], c["fam"])
        dist.setdefault(key, 0)
        dist[key] += 1
        rep.case("lanes:" + hashlib.sha256((key + " ".join(c["ops"])).encode()).hexdigest(), True)
        calls += len(c["ops"])
        tf = trace_failures(c, nout[i])
        if tf:
            tfails.append((i, c, tf))
        if not model_cfg(c["cfg"]):
            continue
        d = whitebox_diff(c, nout[i], mout.get(i, "<no-output>"))
        if d:
            diffs.append((i, c, d))
    wf_bad = sorted({"%s/%s" % (c["algo"], c["fam"]) for i, c in zip(ids, cases) if not c["cfg"].get("error") and " wf=true" not in mout.get(i, " wf=true").split(" | ")[0]})
    # (a fallback configuration is the baseline's and says nothing about the current tree: not counted here)
    untranslated = sorted({"%s/%s: %s" % (e["algo"], e["fam"], e["error"]) for e in cfgs() if e.get("error")})
    suspicious = bool(diffs or tfails or not ok or wf_bad or untranslated)
    more_n = 0
    if suspicious:
        # digests of the suspicious cases against the fold of compress; and a larger search, native + job oracle only
        sus_pairs = {(c["algo"], c["fam"]) for _, c, _ in diffs} | {(c["algo"], c["fam"]) for _, c, _ in tfails}
        sus_pairs |= {(e["algo"], e["fam"]) for e in cfgs() if e.get("error")}
        sus_pairs |= {tuple(w.split("/")) for w in wf_bad}
        only = sus_pairs or None
        more = gen_cases(vlib.SplitMix64(vlib.seed() * 7919 + k), tier, only=only, nrandom={"quick": 12, "thorough": 60}[tier] if only else 3)
        mids, mnout = run_native(more, prefix="s")
        allc, allid, alln = list(cases) + more, list(ids) + mids, dict(nout, **mnout)
        sel = [(i, c) for i, c in zip(allid, allc) if only is None or (c["algo"], c["fam"]) in only]
        exp = run_oracle([c for _, c in sel], [i for i, _ in sel])
        tfails = []
        for i, c in sel:
            tf = trace_failures(c, alln[i], exp.get(i))
            if tf:
                tfails.append((i, c, tf))
        more_n = len(more)
        for c in more:
            rep.case("lanes-search:" + hashlib.sha256((c["algo"] + c["fam"] + " ".join(c["ops"])).encode()).hexdigest(), True)
    # ---- verdicts
    seen = set()
    for i, c, tf in tfails:
        sig = (c["algo"], c["fam"], failure_class(tf[0]))
        if sig in seen or len(seen) >= 4:
            continue
        seen.add(sig)
        def pred(cc, cls=failure_class(tf[0])):
            ii, oo = run_native([cc], prefix="m")
            ee = run_oracle([cc], ii)
            return any(failure_class(x) == cls for x in trace_failures(cc, oo[ii[0]], ee.get(ii[0])))
        try:
            mc = minimise(c, pred)
        except Exception:
            mc = c
        ii, oo = run_native([mc], prefix="r")
        ee = run_oracle([mc], ii)
        why = trace_failures(mc, oo[ii[0]], ee.get(ii[0])) or tf
        rep.violation("lane manager %s/%s: %s" % (c["algo"], c["fam"], "; ".join(why[:3])),
                      {"level": "job manager (harness/lanes_drv.c)", "algo": c["algo"], "fam": c["fam"], "ops": mc["ops"], "aim": c["aim"],
                       "failures": why[:6], "observed": oo[ii[0]][:3000],
                       "how_to_replay": "echo 'L x %s %s 20 %s' | <lanes driver>" % (c["algo"], c["fam"], " ".join(mc["ops"]))},
                      sig={"kind": "lane_trace", "algo": c["algo"], "family": c["fam"]})
    length_fail = []
    if not tfails and (wf_bad or untranslated or not ok):
        # the configuration is in doubt: single submits at the limits of the packed length word (hash_drv.c, op V)
        try:
            sus = {tuple(w.split("/")) for w in wf_bad} | {(e["algo"], e["fam"]) for e in cfgs() if e.get("error")}
            length_fail = targeted_lengths(sus)
        except ImportError:
            length_fail = []
        for case, line, ln, why, reason, detail in length_fail[:1]:
            rep.violation("lane manager %s/%s: a job of fewer than 2^32 bytes comes back with the wrong digest / length: %s" % (case["algo"], case["fam"], detail),
                          {"level": "context layer over the lane manager (harness/hash_drv.c, one submit out of a 4 GiB virtual mapping of one page)",
                           "algo": case["algo"], "fam": case["fam"], "mode": "D", "nctx": 1, "ops": case["ops"], "failure": reason, "observed": line[:2000],
                           "how_to_replay": "./check C15 --replay <this file>"},
                          sig={"kind": "lane_packed_length", "algo": case["algo"], "family": case["fam"]})
    if not tfails and not length_fail:
        if diffs:
            i, c, d = diffs[0]
            if c["cfg"].get("error"):
                d = dict(d, what=d["what"] + "  [model run with the BASELINE configuration because tr/lane_cfg.py no longer understands the source: %s]" % c["cfg"]["error"])
            pairs = sorted({"%s/%s" % (cc["algo"], cc["fam"]) for _, cc, _ in diffs})
            rep.violation("lane-level model/code correspondence broken (white-box) but every job still comes back exactly once with the right digest, also on the larger search: "
                          "%s/%s %s [%s]" % (c["algo"], c["fam"], d["what"], FIELD_NAMES.get(d.get("field"), d.get("field"))),
                          {"correspondence": "Model.LaneMgr (lm_init/lm_submit/lm_flush, configuration regenerated by tr/lane_cfg.py) vs the real manager structure after every call",
                           "algo": c["algo"], "fam": c["fam"], "ops": c["ops"], "aim": c["aim"], "first_difference": d, "pairs_with_differences": pairs,
                           "search_harder_cases": more_n}, no_input=True)
        elif not ok or wf_bad or untranslated:
            what = ("source construct not understood by tr/lane_cfg.py: %s" % "; ".join(untranslated)[:400] if untranslated else
                    "regenerated configuration not cfg_wf for %s" % wf_bad if wf_bad else "Coq obligation no longer checks: %s" % broken)
            rep.violation("lane level: %s; every job still comes back exactly once with the right digest on %d histories" % (what, len(cases) + more_n),
                          {"theorem_or_file": broken or what, "correspondence": "job-level oracle clean on %d histories" % (len(cases) + more_n)}, no_input=True)
    rep.notes["lanes"] = {
        "histories": len(cases), "manager_calls_compared": calls, "search_harder_cases": more_n,
        "pairs": dist, "white_box_differences": len(diffs), "trace_failures": len(tfails),
        "wall_s": round(time.time() - t0, 1),
        "rule": "one evaluation = one manager-level history (submit jobs of 0..6 blocks / flush) on one of the %d pairs that have a manager; after every call the whole "
                "manager structure is compared with the extracted model; families: occupancy 0..lanes each flushed down, lanes-full submits, all-equal lengths (ties), "
                "zero-length jobs, random" % len(dist)}
    return not (diffs or tfails)


# ----------------------------------------------------------------------------- C15: the packed length word at its limits
#
# A lens[] word holds (blocks << shift) | lane in W bits: a job of 2^(W-shift) blocks or more loses its top
# length bits (silently: a shorter run, a wrong digest).  C15_lanes_packed_len_fits (for every cfg_wf
# configuration) says this cannot happen below 2^32 bytes; here the sizes at that limit are RUN: one submit of
# exactly that many bytes through hash_drv.c's 4 GiB virtual mapping of one physical page (op V), the digest
# compared with Python's hashlib.  Started in the background at the beginning of ./check C15, joined at its end.

PAGE_SEED = 0x5eed          # harness/hash_drv.c do_virtual: the page is fill_stream(.., 0x5eed)


def pack_limit(e):
    """bytes at which the block count of a job no longer fits above the shift in this family's lens[] word
    (None: no packed word - synchronous manager or untranslated)"""
    e = model_cfg(e) or e
    if e.get("error") or e["immediate"]:
        return None
    return (1 << (e["W"] - e["shift"])) * e["bsize"]


def length_points(e, targeted):
    """[(bytes, why)] for one pair.  Routine: the largest length that still fits and 3/4 of the limit.  Targeted
    (the configuration is not cfg_wf / not translated, or thorough tier): the first length that does not fit,
    2^32 - B, the top bit of the uint32 length alone, and one block when the lane bits reach into the length."""
    B = e["bsize"]
    top = 1 << 32
    lim = pack_limit(e)
    cap = min(lim, top) if lim else top
    pts = [(cap - B, "largest length whose block count fits the packed lens[] word" if lim and lim <= top else "2^32-B"),
           (cap * 3 // 4 // B * B, "3/4 of the packed-word limit")]
    if targeted:
        pts = []
        if lim and lim < top:
            pts.append((lim, "2^(W-shift) = %d blocks: the first length whose packed lens[] word overflows" % (lim // B)))
        me = model_cfg(e)
        if me and not me.get("error") and not me["immediate"] and (me["idx_bits"] > me["shift"] or me["nlanes"] > (1 << me["shift"])):
            pts.append((B, "one block: the lane bits reach into the length bits"))
        pts += [(top - B, "2^32-B"), (1 << 31, "top bit of the uint32 length set")]
        if not lim:
            pts.append((1 << 30, "2^30"))
    seen, out = set(), []
    for ln, why in pts:
        if B <= ln < top and ln % B == 0 and ln not in seen:
            seen.add(ln)
            out.append((ln, why))
    return out


def _page():
    return vlib.SplitMix64(PAGE_SEED).bytes(4096)


def ref_digest(algo, ln, off):
    """hashlib digest of ln bytes read from offset `off` of the endlessly repeated page"""
    import hashlib as H
    h = H.new(algo)
    page = _page()
    first = min(ln, 4096 - off)
    h.update(page[off:off + first])
    rest = ln - first
    mb = page * 256
    for _ in range(rest // len(mb)):
        h.update(mb)
    r = rest % len(mb)
    h.update((page * (r // 4096 + 1))[:r])
    return h.digest()


def wf_status():
    """{(algo, fam): cfg_wf of the regenerated configuration, evaluated by the extracted cfg_wf}"""
    es = [e for e in cfgs() if e["mgr"]]
    cases = [{"algo": e["algo"], "fam": e["fam"], "ops": [], "cfg": e} for e in es]
    ids = ["w%d" % k for k in range(len(cases))]
    out = run_model(cases, ids)
    res = {}
    for i, c in zip(ids, cases):
        if c["cfg"].get("error"):
            res[(c["algo"], c["fam"])] = None          # not translated: nothing to say about well-formedness
        else:
            res[(c["algo"], c["fam"])] = " wf=true" in out.get(i, "").split(" | ")[0]
    return res


def length_jobs(pairs_points):
    """start the native single submits (and their hashlib references) in background threads;
    pairs_points: [(cfg entry, bytes, why)] -> handle for length_results"""
    import concurrent.futures as cf, subprocess
    from checks import hashcommon as hc
    exe = hc.native_driver()
    ex = cf.ThreadPoolExecutor(max(1, min(len(pairs_points), max(2, vlib.NCPU // 2))))
    refs = {}
    def native(k, e, ln):
        case = {"algo": e["algo"], "fam": e["fam"], "mode": "D", "nctx": 1, "tmo": 1500, "ops": ["V0,%d,3" % ln], "aim": "packed length limit"}
        pr = subprocess.run([exe], input=hc.case_line("L%d" % k, case) + "\n", stdout=subprocess.PIPE, stderr=subprocess.PIPE,
                            text=True, timeout=3000, errors="replace")
        line = ([l for l in pr.stdout.split("\n") if l.startswith("L%d " % k)] or ["L%d <no-output rc=%d>" % (k, pr.returncode)])[0]
        m = re.search(r" off=(\d+)", line)
        off = int(m.group(1)) if m else (-ln) % 4096
        key = (e["algo"], ln, off)
        if key not in refs:
            refs[key] = ex.submit(ref_digest, e["algo"], ln, off)
        return case, line, key
    # the reference can start at once: the buffer ends flush against the guard page, so off = -ln mod 4096
    for e, ln, why in pairs_points:
        key = (e["algo"], ln, (-ln) % 4096)
        if key not in refs:
            refs[key] = ex.submit(ref_digest, *key)
    futs = [(e, ln, why, ex.submit(native, k, e, ln)) for k, (e, ln, why) in enumerate(pairs_points)]
    return {"ex": ex, "futs": futs, "refs": refs, "t0": time.time()}


def length_results(h):
    """-> [(case, native line, bytes, why, failure reason or None, detail)]"""
    from checks import hashcommon as hc
    res = []
    for e, ln, why, fu in h["futs"]:
        case, line, key = fu.result()
        nat = hc.parse_native(line)
        r = nat["calls"][0] if nat["calls"] else None
        lim = pack_limit(e)
        me = model_cfg(e) or {}
        about = "%s/%s single submit of %d bytes = %d blocks (%s; lens[] word: W=%s shift=%s)" % (
            e["algo"], e["fam"], ln, ln // e["bsize"], why, me.get("W", "?"), me.get("shift", "?"))
        if nat["abort"] or r is None or r["kv"].get("st") != "4":
            res.append((case, line, ln, why, nat["abort"] or "status", about + ": " + line[:200]))
            continue
        if int(r["kv"]["tl"], 16) != ln:
            res.append((case, line, ln, why, "total:%s!=%x" % (r["kv"]["tl"], ln), about))
            continue
        want = h["refs"][key].result()
        got = hc.digest_bytes_of_words(e["algo"], r["kv"]["dg"])
        if want != got:
            res.append((case, line, ln, why, "digest:hashlib=" + want.hex(), about + ": digest %s, hashlib %s" % (got.hex(), want.hex())))
        else:
            res.append((case, line, ln, why, None, about))
    h["ex"].shutdown(wait=True)
    return res


def quick_rotation():
    """the pair with the tightest packed word, always, and two more by VERIF_SEED rotation"""
    lanes = [e for e in cfgs() if e["mgr"] and pack_limit(e)]
    if not lanes:
        return []
    lanes.sort(key=lambda e: (pack_limit(e), e["algo"], e["fam"]))
    pick = [lanes[0]]
    rest = lanes[1:]
    for j in range(2):
        if rest:
            pick.append(rest.pop((vlib.seed() * 5 + j * 7) % len(rest)))
    return pick


def c15_start(rep, tier):
    """./check C15, at its beginning: the lane obligations that are C15's, and the single submits at the limits
    of the packed length word started in the background"""
    t0 = time.time()
    ok, broken = coq_step(rep, only=("C06_lanes_every_configuration_wf", "C15_lanes_packed_len_fits"))
    wf = wf_status()
    bad = sorted(p for p, v in wf.items() if v is False)          # extracted, and not cfg_wf
    untr = sorted("%s/%s: %s" % (e["algo"], e["fam"], e["error"]) for e in cfgs() if e.get("error"))
    sus = set(bad) | {(e["algo"], e["fam"]) for e in cfgs() if e.get("error")}
    jobs = []
    for e in cfgs():
        if not e["mgr"]:
            continue
        p = (e["algo"], e["fam"])
        if p in sus:
            jobs += [(e, ln, why) for ln, why in length_points(e, True)]
        elif tier == "thorough":
            # (2^32-B on every pair is C15's own part (iii) in the thorough tier)
            top = (1 << 32) - e["bsize"]
            pts = length_points(e, False) + length_points(e, True)
            seen = set()
            for ln, why in pts:
                if ln != top and ln not in seen:
                    seen.add(ln)
                    jobs.append((e, ln, why))
    if tier == "quick":
        for e in quick_rotation():
            if (e["algo"], e["fam"]) not in sus:
                jobs += [(e, ln, why) for ln, why in length_points(e, False)]
    return {"h": length_jobs(jobs) if jobs else None, "ok": ok, "broken": broken, "bad": bad, "untr": untr, "njobs": len(jobs),
            "coq_s": round(time.time() - t0, 1)}


def c15_finish(st, rep, failures, timing=None):
    """./check C15, at its end: join; a wrong digest / total / fault becomes a C15 failure with the case as replay"""
    from checks import hashcommon as hc
    t0 = time.time()
    res = length_results(st["h"]) if st["h"] else []
    nfail = 0
    for case, line, ln, why, reason, detail in res:
        rep.case("lane-length:%s/%s/%d" % (case["algo"], case["fam"], ln), True)
        rep.cov["hashlib_digests_compared"] = rep.cov.get("hashlib_digests_compared", 0) + 1
        if reason:
            nfail += 1
            failures.append((case, {"prop": "C15", "reason": reason, "call": 0, "detail": detail}, hc.parse_native(line), line, ""))
    if timing is not None:
        timing["lane_lengths_wait_s"] = round(time.time() - t0, 1)
        timing["lane_coq_s"] = st["coq_s"]
    rep.notes["lane_packed_length"] = {
        "single_submits": ["%s/%s %d (%s)%s" % (c["algo"], c["fam"], ln, why, " FAILED: " + r if r else "") for c, _, ln, why, r, _ in res],
        "configurations_not_cfg_wf": ["%s/%s" % p for p in st["bad"]],
        "families_not_translated": st["untr"],
        "rule": "quick: the pair with the tightest packed lens[] word + 2 rotating pairs, one submit of (limit - B) and one of 3/4 limit bytes "
                "(limit = min(2^(W-shift) * B, 2^32)); every pair whose regenerated configuration is not cfg_wf (and every pair in the thorough tier): "
                "2^(W-shift) blocks if below 2^32 bytes, 2^32-B, 2^31; digests against hashlib"}
    if (not st["ok"] or st["bad"] or st["untr"]) and not nfail and not rep.violations:
        rep.violation("lane level: %s; no single submit at the limits of the packed length word fails" % (
            "source construct not understood by tr/lane_cfg.py (no configuration extracted, nothing claimed about it): %s" % "; ".join(st["untr"])[:400] if st["untr"] else
            "regenerated configuration not cfg_wf for %s" % ["%s/%s" % p for p in st["bad"]] if st["bad"] else "Coq obligation no longer checks: %s" % st["broken"]),
            {"theorem_or_file": st["broken"] or "Gen/LaneCfgGen.v:gen_lane_cfgs_wf", "correspondence": "%d single submits clean" % len(res)}, no_input=True)
    return nfail


def c15_replay(rep, path, failures):
    """./check C15 --replay f, for a replay that is one single submit out of the virtual mapping (op V): run it and
    compare digest and total with hashlib (the model cannot hash gigabytes)"""
    import json
    from checks import hashcommon as hc
    with open(path) as fh:
        r = json.load(fh)["replay"]
    ops = r.get("ops", [])
    m = re.fullmatch(r"V0,(\d+),3", ops[0]) if len(ops) == 1 else None
    es = [e for e in cfgs() if e["algo"] == r.get("algo") and e["fam"] == r.get("fam")]
    if not m or not es or r.get("mode", "D") != "D":
        return 0
    res = length_results(length_jobs([(es[0], int(m.group(1)), "replay")]))
    n = 0
    for case, line, ln, why, reason, detail in res:
        rep.cov["hashlib_digests_compared"] = rep.cov.get("hashlib_digests_compared", 0) + 1
        if reason:
            n += 1
            failures.append((case, {"prop": "C15", "reason": reason, "call": 0, "detail": detail}, hc.parse_native(line), line, ""))
    return n


def targeted_lengths(pairs):
    """synchronous targeted search for the lane part of C06: [(case, line, bytes, why, reason, detail)] that fail"""
    jobs = []
    for e in cfgs():
        if e["mgr"] and (e["algo"], e["fam"]) in pairs:
            jobs += [(e, ln, why) for ln, why in length_points(e, True)]
    if not jobs:
        return []
    return [x for x in length_results(length_jobs(jobs)) if x[4]]


def run(tier, replay=None):
    rep = vlib.Report("C06lanes", "proof", tier, "cd coq && make Properties/C06_lanes.vo Gen/LaneCfgGen.vo  (coqc 8.16.1, full .vo build)")
    if replay:
        import json
        with open(replay) as fh:
            r = json.load(fh)["replay"]
        e = [x for x in cfgs() if x["algo"] == r["algo"] and x["fam"] == r["fam"]][0]
        c = {"algo": r["algo"], "fam": r["fam"], "aim": "replay", "ops": r["ops"], "cfg": e}
        ids, nout = run_native([c])
        exp = run_oracle([c], ids)
        tf = trace_failures(c, nout[ids[0]], exp[ids[0]])
        rep.case("replay", True)
        if tf:
            rep.violation("lane manager %s/%s: %s" % (c["algo"], c["fam"], "; ".join(tf[:3])), r)
        else:
            mout = run_model([c], ids)
            d = whitebox_diff(c, nout[ids[0]], mout.get(ids[0], "<no-output>"))
            if d:
                rep.violation("white-box difference: " + d["what"], dict(r, first_difference=d), no_input=True)
    else:
        lane_whitebox(rep, tier)
    rep.cov["rule"] = rep.notes.get("lanes", {}).get("rule", "")
    rep.cov["traces_validated_against_impl"] = rep.cov["evaluations"]
    rep.cov["trusted_base"] = list(vlib.TRUSTED_BASE)
    rep.assumptions = ["the kernels (sha1_mb_x8_avx2, sha1_opt_x1, sha1_ni_x2, ...) are modelled as `compress` applied to the next k blocks of the lanes a call covers; "
                       "tied only on the generated histories", "tr/lane_cfg.py (regular expressions on the init .c and manager .asm files; fails closed)"]
    return rep.finish()


if __name__ == "__main__":
    import argparse
    ap = argparse.ArgumentParser()
    ap.add_argument("--tier", default=None)
    ap.add_argument("--replay", default=None)
    a = ap.parse_args()
    os.chdir(vlib.VERIF)
    sys.exit(run(vlib.tier(a.tier), a.replay))
