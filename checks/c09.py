"""C09 — rolling-hash boundaries depend only on the last w bytes, not on call splitting.

Coq: Properties/C09.v (rh_run refines run_spec for every state/buffer/mask/trigger/window,
stream boundaries independent of splitting, hash = closed form over the window, table = pinned).
Tie: Gen/RollTableGen.v regenerated from rolling_hash2_table.h; correspondence of the extracted
model with the real isal_rolling_hash2_* through the real dispatcher under a virtual CPUID for
each scan family (base, _00, _04), call by call, white-box (hash, history) and observable
(offset, match)."""
import json, os, sys
import vlib
sys.path.insert(0, os.path.join(vlib.VERIF, "tr"))
import roll_table, ctable

FAMILIES = ["base", "sse", "avx2"]
M64 = (1 << 64) - 1


def rol64(x, r):
    r %= 64
    return ((x << r) | (x >> (64 - r))) & M64 if r else x


def gen_cases(rng, n, table):
    """structured cases aimed at the case splits of the proof and of the code: buffer shorter
    than / equal to / longer than w, hit inside the first w bytes, hit in the scan at even
    and odd positions, hit at the very last byte, empty runs."""
    cases = []
    ws = [1, 2, 3, 4, 7, 8, 9, 15, 16, 17, 31, 32, 33, 47, 48]
    for k in range(n):
        w = rng.choice(ws) if rng.below(4) else 1 + rng.below(48)
        init = rng.bytes(w)
        nseg = 1 + rng.below(4)
        lens_pool = [0, 1, 2, max(0, w - 1), w, w + 1, w + 2, w + 3, 2 * w, 2 * w + 1, 64, 65]
        segs = []
        for _ in range(nseg):
            l = rng.choice(lens_pool) if rng.below(3) else rng.below(160)
            segs.append(rng.bytes(l))
        kind = rng.below(10)
        if kind < 4:      # sparse random mask: hits now and then
            nb = 1 + rng.below(5)
            mask = 0
            for _ in range(nb):
                mask |= 1 << rng.below(32)
            trig = rng.next() & mask
            aim = "random"
        elif kind < 5:    # mask_gen-style contiguous mask
            mask = ((1 << (1 + rng.below(6))) - 1) << rng.below(20)
            trig = rng.next() & mask if rng.below(2) else 0
            aim = "maskgen"
        else:             # forced hit at a chosen position of a chosen segment
            stream = init + b"".join(segs)
            si = rng.below(nseg)
            if len(segs[si]) == 0:
                segs[si] = rng.bytes(1 + rng.below(2 * w + 4))
                stream = init + b"".join(segs)
            start = w + sum(len(s) for s in segs[:si])
            L = len(segs[si])
            cls = rng.below(6)
            posin = [L - 1, 0, min(L - 1, max(0, w - 1)), min(L - 1, w), min(L - 1, w + 1), rng.below(L)][cls]
            end = start + posin + 1           # window ends after this byte
            win = stream[end - w:end]
            h = 0
            for b in win:
                h = rol64(h, 1) ^ table[b]
            mask = 0
            for _ in range(12 + rng.below(12)):
                mask |= 1 << rng.below(32)
            trig = h & mask
            aim = "hit@%s" % ["last", "first", "w-1", "w", "w+1", "any"][cls]
        cases.append({"w": w, "mask": mask, "trig": trig, "init": init, "segs": segs, "aim": aim})
    return cases


def hx(b):
    return b.hex() if b else "-"


def case_line(cid, fam, c):
    return "R %s %s %d %x %x %s %d %s" % (cid, fam, c["w"], c["mask"], c["trig"], hx(c["init"]),
                                          len(c["segs"]), " ".join(hx(s) for s in c["segs"]))


def parse_out(line):
    """-> list of run records (off, match, hash, hist) and trailing flags"""
    t = line.split()[1:]
    recs, flags = [], []
    i = 0
    while i < len(t):
        if t[i] == "r" and i + 4 < len(t) + 0:
            recs.append((int(t[i + 1]), int(t[i + 2]), t[i + 3], t[i + 4]))
            i += 5
        else:
            flags.append(t[i])
            i += 1
    return recs, flags


def classify(c, mrecs):
    """exit-path classes reached by this case in the model (for the distribution)"""
    out = set()
    w = c["w"]
    for off, match, _, _ in mrecs:
        if match == 0:
            out.add("hit_first_w" if off <= w else ("hit_scan_odd" if (off - w) % 2 else "hit_scan_even"))
        else:
            out.add("max_short" if off < w else ("max_eq_w" if off == w else "max_scan"))
    return out


def compare(c, mline, iline):
    mrecs, mflags = parse_out(mline)
    irecs, iflags = parse_out(iline)
    if iflags or mflags:
        return "observable", "flags model=%s impl=%s" % (mflags, iflags)
    # an observable difference in ANY call decides (a stale carried state shows first as a
    # white-box difference and only in a later call as a wrong boundary: seed C09-e)
    wb = None
    for k, (m, i) in enumerate(zip(mrecs, irecs)):
        if m[:2] != i[:2]:
            return "observable", "run call #%d: spec (offset,match)=%s impl=%s%s" % (
                k, m[:2], i[:2], "" if wb is None else " (carried state already differed: %s)" % wb[:120])
        if m[2:] != i[2:] and wb is None:
            wb = "run call #%d: state after call model (hash,history)=%s impl=%s" % (k, m[2:], i[2:])
    if len(mrecs) != len(irecs):
        return "observable", "number of run calls differs %d vs %d" % (len(mrecs), len(irecs))
    if wb is not None:
        return "whitebox", wb
    return None, ""


def run_cases(cases, impl_exe, model_exe, model_args=()):
    mtxt = "\n".join(case_line("c%d" % k, "model", c) for k, c in enumerate(cases))
    itxt = "\n".join(case_line("c%d.%s" % (k, f), f, c) for k, c in enumerate(cases) for f in FAMILIES)
    mout, _ = vlib.run_driver(model_exe, mtxt, args=model_args)
    iout, ierr = vlib.run_driver(impl_exe, itxt)
    return mout, iout, ierr


def minimise(c, fam, impl_exe, model_exe, model_args):
    """greedy shrinking of a failing case: drop segments, then shorten segments from the end
    and from the front (the bytes removed from the front are folded into `init` so the window
    is unchanged)."""
    def fails(cc):
        mo, io, _ = run_cases([cc], impl_exe, model_exe, model_args)
        kind, _ = compare(cc, mo["c0"], io["c0.%s" % fam])
        return kind == "observable"      # the shrunk case must still show a wrong boundary
    cur = c
    budget = 60
    changed = True
    while changed and budget > 0:
        changed = False
        cands = []
        segs = cur["segs"]
        for i in range(len(segs)):
            if len(segs) > 1:
                # drop a later segment entirely / merge an earlier one into init
                cands.append(dict(cur, segs=segs[:i] + segs[i + 1:]) if i == len(segs) - 1 else None)
                if i == 0:
                    st = cur["init"] + segs[0]
                    cands.append(dict(cur, init=st[-cur["w"]:], segs=segs[1:]))
            if len(segs[i]) > 1:
                cands.append(dict(cur, segs=segs[:i] + [segs[i][:len(segs[i]) // 2]] + segs[i + 1:]))
                cands.append(dict(cur, segs=segs[:i] + [segs[i][:-1]] + segs[i + 1:]))
                if i == 0:
                    for cut in (len(segs[0]) // 2, 2, 1):
                        if 0 < cut < len(segs[0]):
                            st = cur["init"] + segs[0][:cut]
                            cands.append(dict(cur, init=st[-cur["w"]:], segs=[segs[0][cut:]] + segs[1:]))
        for cc in cands:
            if cc is None:
                continue
            budget -= 1
            if budget <= 0:
                break
            if fails(cc):
                cur = cc
                changed = True
                break
    return cur


def signature(c, fam, detail, mline, iline):
    mrecs, _ = parse_out(mline)
    irecs, iflags = parse_out(iline)
    sig = {"family": fam, "kind": "other"}
    for m, i in zip(mrecs, irecs):
        if m[:2] != i[:2]:
            if m[1] == 0 and i[1] == 0 and i[0] == m[0] + 1:
                sig["kind"] = "hit_offset_plus_one"
            break
    if "fault" in iflags:
        sig["kind"] = "fault"
    return sig


def gen():
    """Gen/*.v files this property regenerates from /repo's current tree"""
    return {"Gen/RollTableGen.v": roll_table.generate(vlib.REPO)}


DRIVERS = [("roll", "Roll")]


def run(tier, replay=None):
    rep = vlib.Report("C09", "proof", tier, "cd coq && make Properties/C09.vo  (coqc 8.16.1, full .vo build)")
    rng = vlib.SplitMix64(vlib.seed() * 1000003 + 9)
    table = ctable.parse_array(open(os.path.join(vlib.REPO, "rolling_hash/rolling_hash2_table.h")).read(),
                               "rolling_hash2_table1")
    ok, broken = vlib.coq_step(rep, "C09", gen(), extract="Roll")
    impl_exe = vlib.cc_harness("roll", ["roll_drv.c", "vcpuid.S"], "hook")
    model_exe = vlib.ocaml_driver("roll", "Roll")
    # when an obligation is broken the L0 oracle is the pinned-table spec (the property's
    # "fixed function ... across library versions"), and the search is larger
    model_args = ("pinned",) if not ok else ()
    n = {"quick": 1500, "thorough": 40000}[tier]
    if not ok:
        n *= 3
    if replay:
        r = json.load(open(replay))["replay"]
        cases = [{"w": r["w"], "mask": int(r["mask"], 16), "trig": int(r["trig"], 16),
                  "init": bytes.fromhex(r["init"]), "segs": [bytes.fromhex(s) for s in r["segs"]], "aim": "replay"}]
    else:
        cases = gen_cases(rng, n, table)
    mout, iout, ierr = run_cases(cases, impl_exe, model_exe, model_args)
    bound = {}
    for l in ierr.split("\n"):
        if " bound=" in l:
            cid, b = l.split(" bound=")
            bound[cid.split(".")[-1]] = bound.get(cid.split(".")[-1], set()) | {b}
    rep.notes["families_bound_by_dispatcher"] = {k: sorted(v) for k, v in bound.items()}
    expect = {"base": {"base"}, "sse": {"00"}, "avx2": {"04"}}
    for f in FAMILIES:
        if not (expect[f] <= bound.get(f, set()) <= expect[f] | {"unbound"}):
            rep.violation("virtual CPUID preset %s bound scan routine %s (expected %s): family not exercised" % (f, bound.get(f), expect[f]),
                          {"correspondence": "dispatch preset", "family": f, "bound": sorted(bound.get(f, []))}, no_input=True)
    dist = {"w": {}, "aim": {}, "paths": {}, "seglen": {}}
    wb_break = None
    nviol = 0
    for k, c in enumerate(cases):
        m = mout["c%d" % k]
        mrecs, _ = parse_out(m)
        paths = classify(c, mrecs)
        for p in paths:
            dist["paths"][p] = dist["paths"].get(p, 0) + 1
        dist["w"][c["w"]] = dist["w"].get(c["w"], 0) + 1
        dist["aim"][c["aim"]] = dist["aim"].get(c["aim"], 0) + 1
        for s in c["segs"]:
            b = "0" if not s else ("<w" if len(s) < c["w"] else ("=w" if len(s) == c["w"] else ">w"))
            dist["seglen"][b] = dist["seglen"].get(b, 0) + 1
        for f in FAMILIES:
            i = iout["c%d.%s" % (k, f)]
            nontrivial = len(mrecs) >= 1 and any(len(s) > 0 for s in c["segs"])
            rep.case((c["w"], c["mask"], c["trig"], c["init"], tuple(c["segs"]), f), nontrivial)
            kind, detail = compare(c, m, i)
            if kind == "observable":
                if nviol < 3:
                    cm = minimise(c, f, impl_exe, model_exe, model_args)
                    mo, io, _ = run_cases([cm], impl_exe, model_exe, model_args)
                    _, detail = compare(cm, mo["c0"], io["c0.%s" % f])
                    m2, i2 = mo["c0"], io["c0.%s" % f]
                else:
                    cm, m2, i2 = c, m, i
                sig = signature(cm, f, detail, m2, i2)
                if rep.violation("family %s: %s" % (f, detail),
                                 {"family": f, "w": cm["w"], "mask": "%x" % cm["mask"], "trig": "%x" % cm["trig"],
                                  "init": cm["init"].hex(), "segs": [s.hex() for s in cm["segs"]],
                                  "spec": m2, "impl": i2, "oracle": "pinned-table spec" if model_args else "spec = model (theorem C09_run_first_hit)"},
                                 sig):
                    nviol += 1
            elif kind == "whitebox" and wb_break is None:
                wb_break = (f, c, detail)
        if k < 3:
            rep.sample({"case": case_line("c%d" % k, "*", c)[:400], "model": m[:300]})
    if tier == "thorough" and not replay:
        # max_len >= 2^31 (a 2 GiB zero mapping): every family must consume max_len or stop at
        # the reference's first hit
        big = []
        for j, (w, mask, trig, ln) in enumerate([(16, 0xffffffff, 0x12345678, (1 << 31) + (1 << 20)),
                                                  (48, 0xfffffff0, 0x9abcdef0, (1 << 31) + 12345),
                                                  (1, 0xffffffff, 0x1, (1 << 32) - 1)]):
            for f in FAMILIES:
                big.append("B b%d.%s %s %d %x %x %d" % (j, f, f, w, mask, trig, ln))
        bout, _ = vlib.run_driver(impl_exe, "\n".join(big), shards=3)
        for l in big:
            cid = l.split()[1]
            o = bout[cid].split()
            rep.case(("big", cid), True)
            if len(o) != 7 or o[2:4] != o[5:7]:
                rep.violation("family %s, max_len >= 2^31: %s" % (cid.split(".")[1], bout[cid]),
                              {"big_case": l, "impl_vs_reference": bout[cid]},
                              {"family": cid.split(".")[1], "kind": "big_len"})
    rep.cov["traces_validated_against_impl"] = len(cases) * len(FAMILIES)
    rep.cov["rule"] = ("cases = (w, mask, trigger, w reset bytes, 1-4 run buffers) x 3 scan families; lengths from the boundary set "
                       "{0,1,2,w-1..w+3,2w,2w+1,64,65} mixed with uniform < 160; 50% with the trigger aimed (from the generator's own hash) at the "
                       "last/first/w-1/w/w+1-th byte of a buffer; distinct = distinct (case, family); non-trivial = at least one non-empty run")
    rep.notes["input_distribution"] = {k: dict(sorted(v.items(), key=lambda kv: str(kv[0]))) for k, v in dist.items()}
    if not ok and not rep.violations:
        rep.violation("Coq obligation no longer checks: %s" % broken, {"theorem_or_file": broken, "correspondence": "clean on %d cases against the pinned-table spec" % len(cases)}, no_input=True)
    if wb_break and not rep.violations:
        f, c, detail = wb_break
        rep.violation("model/code correspondence broken (white-box state) but no observable failure found: %s" % detail,
                      {"correspondence": "rh_state after run (hash, history)", "family": f, "detail": detail,
                       "case": case_line("c", f, c)}, no_input=True)
    rep.assumptions = ["the three scan routines are modelled by one Gallina function (scan); they are tied to it only on the generated cases",
                       "buffers are placed flush against an inaccessible page; a fault is reported as a violation",
                       "max_len >= 2^31 is exercised only in the thorough tier (cross-family, see DESIGN C09)"]
    return rep.finish()
