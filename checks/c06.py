"""C06 — the hash manager never loses, duplicates or strands a job; flush always drains.

Same machinery as C01 (checks/hashcommon.py, checks/c01.py); the conditions of the L0 trace
acceptor that belong to this property: a handed-back context was in flight (exactly once per
accepted submission), carries IDLE after FIRST/UPDATE and COMPLETE after LAST/ENTIRE and never
the PROCESSING bit, fewer than lanes+1 contexts are held, flush returns NULL exactly when
nothing is held; plus what only the harness sees: a hang (timeout), contexts stranded as
processing behind an empty manager, repeated flushing that does not drain, caller buffers and
user_data modified, a foreign pointer handed back.  The generator leans on lane occupancy
(every value 0..lanes, each side of the single-buffer thresholds), flush storms, flushes on the
empty manager and zero-length LAST on an almost full manager."""
from checks import c01, hashcommon as hc

gen = hc.gen
DRIVERS = hc.DRIVERS
PROFILE = {"mix": 4, "occ": 5, "reject": 1, "inflight": 3, "pad": 1}

# lane level (checks/lanemgr.py, docs/lane-mgr.md): Properties/C06_lanes.v + Gen/LaneCfgGen.v as extra
# obligations, and the white-box tie of the real job managers with Model/LaneMgr.v after every call
try:
    from checks import lanemgr
except ImportError:
    lanemgr = None
if lanemgr:
    DRIVERS = hc.DRIVERS + lanemgr.DRIVERS

    def gen():
        return dict(hc.gen(), **lanemgr.gen())


def _lanes(rep, tier):
    if lanemgr:
        lanemgr.lane_whitebox(rep, tier)


def run(tier, replay=None):
    return c01.run(tier, replay, pid="C06", profile=PROFILE, k=106, extra=None if replay else _lanes)
