"""C07 — AES-GCM streaming (init / update* / finalize) equals one-shot for any segmentation.

Coq: Properties/C07.v (for every key, 12-byte IV, AAD and every LIST of segments, the
concatenated update outputs and the tag of the model equal the one-shot call on the
concatenation — and SP 800-38D —, enc and dec, under every block-deferral policy).
Tie: for every family (regular; _nt when every non-final piece is a multiple of 64 bytes, with
64-byte aligned buffers), the public isal_ entry points under every virtual CPUID preset and
the legacy names: streaming result against the SAME implementation's one-shot result
(observable, the property itself), against SP 800-38D, and isal_gcm_context_data after init
and after EVERY update against the extracted model (white-box)."""
import json, os, sys
import vlib
sys.path.insert(0, os.path.dirname(os.path.abspath(__file__)))
import gcmlib as G

COMBOS = [(16, 1), (32, 0), (32, 1), (16, 0)]
BULK = [128, 256, 768, 384, 1024, 16, 0, 48, 2048, 512]
POOL = [0, 0, 1, 2, 7, 8, 9, 15, 16, 17, 31, 32, 33, 47, 48, 63, 64, 65, 127, 128, 129, 255, 256, 257]


def mk(rng, segs, alen, combo, aim):
    ks, enc = combo
    return {"key": rng.bytes(ks), "iv": rng.bytes(12), "aad": rng.bytes(alen), "data": rng.bytes(sum(segs)), "enc": enc,
            "tag": rng.choice([8, 12, 16]), "segs": list(segs), "aim": aim}


def pick_aad(rng):
    return rng.choice([0, 0, 1, 15, 16, 17, 20, 32, 33, 48, 64, 65]) if rng.below(4) else rng.below(40)


def gen_cases(rng, tier, scale=1):
    cases = []
    reps = (2 if tier == "quick" else 8) * scale
    # (carried residue r, fill amount f): first update leaves r bytes open, the second brings f:
    # stays below the block (r+f<16), completes it exactly, or crosses it; then a bulk part
    for r in range(16):
        for f in range(17):
            for j in range(reps):
                idx = r * 17 + f + 3 * j
                bulk = BULK[idx % (8 if tier == "quick" else len(BULK))] + rng.below(17)
                segs = [r, f, bulk]
                if idx % 5 == 0:
                    segs.append(rng.choice([0, 3, 16, 29]))
                if idx % 7 == 0:
                    segs.insert(2, 0)
                cases.append(mk(rng, segs, pick_aad(rng), COMBOS[(idx + j) % 4], "grid (carried,fill) + bulk"))
    # exactly 256 bytes left after the carried block is filled (vaes_avx512 keeps the 16th block open)
    for p in range(16):
        for j, x in enumerate([0, 5, 16, 256][:2 * reps + 2]):
            segs = [p, ((16 - p) if p else 0) + 256, x] + ([0, 1] if j == 1 else [])
            cases.append(mk(rng, segs, pick_aad(rng), COMBOS[(p + j) % 4], "256 left after the carried block"))
    # counter-byte carry in streaming: the running block counter crosses a multiple of 256 at every
    # offset of the group being processed by the SECOND update (the first one stops k blocks short
    # of block 255 / 511, with or without a carried partial block)
    for k in range(18):
        for j, (pre, p) in enumerate([(0, 0), (0, 5), (2048, 11), (4096, 0)][:(2 if tier == "quick" else 4) * scale + (1 if k % 6 == 0 else 0)]):
            base = 510 if pre == 4096 else 254
            first = 16 * (base - k) - pre + p
            x = [16 * 16, 16 * 24 + 3, 16 * 8, 16 * 50 + 1, 16 * 17 - p, 37][(k + j) % 6]
            segs = ([pre] if pre else []) + [first, x] + ([rng.choice([0, 1, 16, 40])] if (k + j) % 2 else [])
            cases.append(mk(rng, segs, rng.choice([0, 0, 7, 20]), COMBOS[(k + j) % 4], "counter low-byte carry across updates"))
    for j in range({"quick": 250, "thorough": 4000}[tier] * scale):
        n = 1 + rng.below(12)
        segs = [rng.choice(POOL) if rng.below(3) else rng.below(100) for _ in range(n)]
        if rng.below(5) == 0:
            segs[rng.below(n)] = rng.below(2049)
        cases.append(mk(rng, segs, pick_aad(rng), COMBOS[j % 4], "random segmentation"))
    for j in range({"quick": 100, "thorough": 1500}[tier] * scale):      # non-final pieces = 0 mod 64: the _nt rule
        n = 1 + rng.below(6)
        segs = [64 * rng.choice([0, 1, 1, 2, 3, 4, 8, 12, 16]) for _ in range(n)] + [rng.choice(POOL) if rng.below(2) else rng.below(300)]
        cases.append(mk(rng, segs, pick_aad(rng), COMBOS[j % 4], "pieces = 0 mod 64 (nt rule)"))
    for j in range({"quick": 16, "thorough": 200}[tier] * scale):       # many tiny updates
        segs = [rng.below(4) for _ in range(20 + rng.below(40))]
        cases.append(mk(rng, segs, pick_aad(rng), COMBOS[j % 4], "many tiny updates"))
    return cases


def gen():
    return {}


DRIVERS = [("gcm", "Gcm")]
ORACLE = "the same implementation's one-shot call on the concatenated data (and SP 800-38D via Spec.GCM)"


def distribution(cases):
    d = {"carried_x_fill(<,=,> block)": {}, "grid_points_(carried,fill<=16)_hit": 0, "zero_length_updates": 0,
         "bytes_left_after_carried_block": {}, "segments_per_case": {}, "key_bits/dir": {}, "aim": {}, "updates": 0}
    grid = set()
    for c in cases:
        pbl = 0
        for s in c["segs"]:
            d["updates"] += 1
            if s == 0:
                d["zero_length_updates"] += 1
                grid.add((pbl % 16, 0))
                continue
            if pbl:
                cls = "<" if pbl + s < 16 else "=" if pbl + s == 16 else ">"
                G.bump(d["carried_x_fill(<,=,> block)"], "%d%s" % (pbl, cls))
                if s <= 16:
                    grid.add((pbl, s))
                if pbl + s < 16:
                    pbl += s
                    continue
                rest = s - (16 - pbl)
            else:
                rest = s
                if s <= 16:
                    grid.add((0, s))
            G.bump(d["bytes_left_after_carried_block"], "0" if rest == 0 else "1-127" if rest < 128 else "128-255" if rest < 256 else
                   "256" if rest == 256 else "257-767" if rest < 768 else ">=768")
            pbl = rest % 16
        n = len(c["segs"])
        G.bump(d["segments_per_case"], "1-3" if n < 4 else "4-6" if n < 7 else "7-12" if n < 13 else ">12")
        G.bump(d["key_bits/dir"], "%d/%s" % (8 * len(c["key"]), "enc" if c["enc"] else "dec"))
        G.bump(d["aim"], c["aim"])
    d["grid_points_(carried,fill<=16)_hit"] = "%d of %d" % (len(grid), 16 * 17)
    return d


def run(tier, replay=None):
    rep = vlib.Report("C07", "proof", tier, "cd coq && make Properties/C07.vo  (coqc 8.16.1, full .vo build)")
    rng = vlib.SplitMix64(vlib.seed() * 1000003 + 7)
    ok, broken = vlib.coq_step(rep, "C07", gen(), extract="Gcm")
    runner = G.Runner()
    G.family_inventory(rep)
    if replay:
        r = json.load(open(replay))["replay"]
        c, v = G.case_from_json(r.get("case", r))
        if c["segs"] is None:
            c["segs"] = [len(c["data"])]
        oc = G.evaluate(rep, runner, [c], G._FixedVariant(v), "C07")
        G.report_observables(rep, runner, oc, "C07", ORACLE, max_min=0)
        for c, v, detail in oc.wb[:1]:
            rep.violation("white-box: " + detail, {"correspondence": "context vs model", "detail": detail, "case": G.case_json(c, v)}, no_input=True)
        return rep.finish()
    cases = G.corpus("C07", True) + gen_cases(rng, tier)
    oc = G.evaluate(rep, runner, cases, rng, "C07")
    G.check_bindings(rep, oc)
    G.report_observables(rep, runner, oc, "C07", ORACLE)
    searched = len(cases)
    if (not ok or oc.wb) and not rep.violations:
        more = gen_cases(vlib.SplitMix64(vlib.seed() * 7919 + 707), tier, scale=2)
        oc2 = G.evaluate(rep, runner, more, rng, "C07")
        searched += len(more)
        G.report_observables(rep, runner, oc2, "C07", ORACLE)
    for k, c in enumerate(cases[:600:97]):
        rep.sample({"segments": c["segs"], "aad_len": len(c["aad"]), "key_bits": 8 * len(c["key"]), "enc": c["enc"], "tag": c["tag"],
                    "variants": [G.vname(v) for v in G.variants(vlib.SplitMix64(k), c, k)][:6]})
    rep.cov["traces_validated_against_impl"] = oc.nvariants
    rep.cov["rule"] = ("case = (key 128/256, 12-byte IV, AAD, data, enc/dec, tag 8/12/16, list of update lengths); every case is run on each "
                       "of the 4 families (regular flush-to-guard, regular random in-place/offset placement, _nt when every non-final piece "
                       "is 0 mod 64, with 64-byte aligned buffers) and on the public isal_ / legacy entry points under a rotating virtual "
                       "CPUID preset; each run = init, one update per piece (each piece in its own guard-page buffer), finalize, plus the "
                       "same implementation's one-shot call on the concatenation; segmentations: the full (carried residue 0..15) x (fill "
                       "0..16) grid followed by a bulk part of {128,256,768,384,1024,16,0,48}+0..16 bytes, exactly 256 bytes left after "
                       "the carried block, random lists of 1..12 pieces from the boundary pool, pieces = 0 mod 64, 20..60 updates of 0..3 "
                       "bytes, a first update stopping 0..17 blocks short of block 255 / 511 (the counter's low byte then wraps at every "
                       "offset of the groups of the second update), "
                       "bytes; distinct = distinct (case, implementation variant, placement); non-trivial = len + aad_len > 0")
    rep.notes["input_distribution"] = dict(distribution(cases), **oc.dist)
    rep.notes["modelled_bytes"] = sum(len(c["data"]) + len(c["aad"]) for c in cases)
    if not ok and not rep.violations:
        rep.violation("Coq obligation no longer checks: %s" % broken,
                      {"theorem_or_file": broken, "correspondence": "streaming = one-shot on %d cases" % searched}, no_input=True)
    if oc.wb and not rep.violations:
        c, v, detail = oc.wb[0]
        rep.violation("model/code correspondence broken but streaming = one-shot on all %d cases: %s %s" % (searched, G.vname(v), detail),
                      {"correspondence": "isal_gcm_context_data after init / every update vs Model.GcmStream; streaming result vs SP 800-38D",
                       "family": v[0], "detail": detail, "case": G.case_json(c, v), "differences": len(oc.wb)}, no_input=True)
    rep.assumptions = ["the four assembly families are modelled by one Gallina function per entry point (plus the block-deferral policy); they are tied to it only on the generated cases",
                       "single updates above about 8 KiB and streams above about 9 KiB are not exercised; the 32-bit counter wrap needs 2^32 blocks and is not reachable",
                       "the context after finalize is not compared (vaes_avx512 clears parts of it)",
                       "partial_block_enc_key is compared only on the bytes a later update reads: [partial_block_length, 16) while a block is open",
                       "a fault, a clobbered canary or a modified input buffer is reported as a violation of this property"]
    return rep.finish()
