"""Register/stack-observing trampoline harness: the typed half.

harness/tramp_drv.c + tramp.S are an untyped script interpreter around `call_observed`; this
module knows the prototypes (grouped by naming pattern), the structure layouts (computed by the
compiler from /repo's headers: harness/tramp_layout.c), the argument classes that reach each
exit path, and the secrets of each AES call (lib/tramp_aesref.py, a plain FIPS-197 reference).

  dynamic_c19(rep, tier)  callee-saved state on every exported text symbol  (DESIGN §4 C19 Tie)
  dynamic_c14(rep, tier)  SAFE_DATA register / dead-stack scan               (DESIGN §4 C14 Tie)
  scenarios(...)          also used by checks/c20.py: every scenario is built from a *declared*
                          seed D and a *hidden* seed J; two builds with equal D and different J
                          are the paired executions of C20.

standalone:  python3 checks/tramp.py c19|c14 [--tier quick|thorough] [--only regex]
             (own Report under the scratch ids C19dyn / C14dyn; never writes evidence/C19.json)"""
import hashlib, json, os, re, sys

HERE = os.path.dirname(os.path.abspath(__file__))
sys.path.insert(0, os.path.join(os.path.dirname(HERE), "lib"))
import vlib
import tramp_aesref as aes

# ----------------------------------------------------------------------------- infrastructure

_syms_cache = {}

def archive_syms(variant="plain"):
    """exported (global, defined) text symbols of the built archive, plus (hook build) the
    dispatch pointers"""
    if variant not in _syms_cache:
        _syms_cache[variant] = _archive_syms(variant)
    return _syms_cache[variant]


def _archive_syms(variant):
    d = vlib.build(variant)
    rc, out = vlib.sh(["nm", "--defined-only", os.path.join(d, "isa-l_crypto.a")], timeout=120)
    text, disp = set(), set()
    for l in out.split("\n"):
        t = l.split()
        if len(t) == 3 and t[1] == "T":
            text.add(t[2])
        elif len(t) == 3 and t[1] in "DB" and t[2].endswith("_dispatched"):
            disp.add(t[2])
    return sorted(text), sorted(disp)


def driver(variant="plain"):
    d = vlib.build(variant)
    text, disp = archive_syms(variant)
    tab = "".join("X(%s)\n" % s for s in text + (disp if variant == "hook" else []))
    h = hashlib.sha256(tab.encode()).hexdigest()[:12]
    path = os.path.join(d, "tramp_syms_%s.h" % h)
    vlib.write_if_changed(path, tab)
    # -no-pie: code/data addresses are then the same in every driver process, so that values
    # that are addresses (version string, dispatch targets) compare equal across paired runs
    extra = ['-DTRAMP_SYMS_H="%s"' % path, "-no-pie"] + (["-DTRAMP_HOOK"] if variant == "hook" else [])
    srcs = ["tramp_drv.c", "tramp.S"] + (["vcpuid.S"] if variant == "hook" else [])
    return vlib.cc_harness("tramp-" + variant, srcs, variant, extra=extra)


_layout = None

def layout():
    global _layout
    if _layout is None:
        exe = vlib.cc_harness("tramp-layout", ["tramp_layout.c"], "plain")
        rc, out = vlib.sh([exe], timeout=60)
        _layout = {}
        for l in out.split("\n"):
            if l.strip():
                k, v = l.rsplit(" ", 1)
                _layout[k] = int(v)
    return _layout


class Script:
    """one case for tramp_drv: objects, stores, calls.  `meta[i]` describes observed call i."""
    def __init__(self, sid):
        self.sid, self.c, self.no, self.nc, self.meta, self.dumps = sid, [], 0, 0, {}, []

    @staticmethod
    def arg(a):
        if a is None:
            return "n"
        if isinstance(a, int):
            return "i%x" % (a & ((1 << 64) - 1))
        if a[0] == "r":
            return "r%d" % a[1]
        if a[0] == "q":
            return "q%d+%d" % (a[1], a[2])
        return "o%d+%d" % (a[0], a[1])

    def o(self, size, align=64, init="z", off=0):
        k = self.no
        self.no += 1
        if isinstance(init, (bytes, bytearray)):
            init = "h" + bytes(init).hex() if init else "z"
        elif isinstance(init, int):
            init = "s%d" % init
        self.c.append("o %d %d %s %s" % (k, size, ("%d+%d" % (align, off)) if off else str(align), init))
        return k

    def w(self, k, off, data):
        if data:
            self.c.append("w %d %d %s" % (k, off, bytes(data).hex()))

    def w32(self, k, off, v):
        self.w(k, off, (v & 0xffffffff).to_bytes(4, "little"))

    def w64(self, k, off, v):
        self.w(k, off, (v & (2 ** 64 - 1)).to_bytes(8, "little"))

    def p(self, k, off, a):
        self.c.append("p %d %d %s" % (k, off, self.arg(a)))

    def junk(self, seed):
        self.c.append("j %d" % seed)

    def fpenv(self, mxcsr, fcw):
        self.c.append("m %x %x" % (mxcsr, fcw))

    def u(self, sym, *args):
        self.c.append("u %s %s" % (sym, " ".join(self.arg(a) for a in args)))
        self.nc += 1
        return self.nc - 1

    def call(self, sym, *args, cls="", ret="void", aes=False):
        self.c.append("c %s %s" % (sym, " ".join(self.arg(a) for a in args)))
        self.meta[self.nc] = {"sym": sym, "cls": cls, "ret": ret, "args": [self.arg(a) for a in args], "aes": aes}
        self.nc += 1
        return self.nc - 1

    def scan(self, on):
        self.c.append("x %d" % (1 if on else 0))

    def secret(self, b, label):
        for i in range(0, len(b) - 15, 16):
            self.c.append("k %s %s" % (bytes(b[i:i + 16]).hex(), label if len(b) == 16 else "%s[%d]" % (label, i // 16)))

    def dynsecret(self, k, off, n, label):
        self.c.append("K %d %d %d %s" % (k, off, n, label))

    def d(self, k, off, n, what=""):
        if n > 0:
            self.c.append("d %d %d %d" % (k, off, n))
            self.dumps.append(("d%d@%d" % (k, off), what))

    def vcpu(self, preset):
        self.c.append("v " + preset)

    def bound(self, sym):
        self.c.append("b " + sym)

    def line(self):
        return "T %s %s" % (self.sid, ";".join(self.c))


def parse_result(line):
    """-> {"calls": {i: {"ret","abi","leak"}}, "dumps": {key: hex}, "flags": [...]}"""
    t = line.split()[1:]
    res = {"calls": {}, "dumps": {}, "flags": [], "ucalls": {}}
    cur = None
    for x in t:
        m = re.match(r"^c(\d+)=(.*)$", x)
        if m:
            cur = {"ret": m.group(2), "abi": "?", "leak": None}
            res["calls"][int(m.group(1))] = cur
            continue
        m = re.match(r"^u(\d+)=(.*)$", x)
        if m:
            res["ucalls"][int(m.group(1))] = m.group(2)
            continue
        if x.startswith("abi=") and cur is not None:
            cur["abi"] = x[4:]
        elif x.startswith("leak=") and cur is not None:
            cur["leak"] = [] if x[5:] == "none" else x[5:].split(",")
        elif re.match(r"^d\d+@\d+:", x):
            k, _, v = x.partition(":")
            res["dumps"][k] = v
            res.setdefault("dumpseq", []).append((k, v))
        elif x.startswith("bound="):
            res.setdefault("bound", []).append(x[6:])
        else:
            res["flags"].append(x)
    return res


def run_scripts(exe, scripts, timeout=900):
    ids = [s.sid for s in scripts]
    if len(set(ids)) != len(ids):
        raise RuntimeError("duplicate scenario ids: %s" % sorted({i for i in ids if ids.count(i) > 1})[:5])
    txt = "\n".join(s.line() for s in scripts)
    out, err = vlib.run_driver(exe, txt, timeout=timeout)
    return {s.sid: parse_result(out[s.sid]) for s in scripts}

# ----------------------------------------------------------------------------- prototypes by naming pattern

HASH_A = {"sha1": "SHA1", "sha256": "SHA256", "sha512": "SHA512", "md5": "MD5", "sm3": "SM3"}
HFAM = r"(base|sse|avx|avx2|avx512|sse_ni|avx512_ni|sb_sse4)"
GFAM = r"(sse|avx_gen2|avx_gen4|vaes_avx512)"
MFAM = r"(base|sse|avx|avx2|avx512)"

PATTERNS = [
    # (kind, regex) — first match wins
    ("data", r".*_slver(_[0-9a-f]{8})?"),
    ("data", r"TABLE"),
    ("stub", r".*_mbinit"),
    ("hash_ctx", r"(?P<pre>isal_|_)?(?P<a>sha1|sha256|sha512|md5|sm3)_ctx_mgr_(?P<op>init|submit|flush)(_(?P<fam>" + HFAM[1:-1] + r"))?"),
    ("hash_mb", r"_(?P<a>sha1|sha256|sha512|md5|sm3)_(?P<lvl>mb|sb)_mgr_(?P<op>init|submit|flush)_(?P<fam>sse|avx|avx2|avx512|sse_ni|avx512_ni|sse4)"),
    ("kernel", r"(sha1|sha256|sha512|md5|sm3)_mb_x\d+(x2)?_(sse|avx|avx2|avx512)"),
    ("kernel", r"(sha1|sha256)_(ni_x1|ni_x2|opt_x1)"),
    ("sha512_sse4", r"_sha512_sse4"),
    ("keyexp", r"(?P<pre>isal_|_)?aes_keyexp_(?P<bits>128|192|256)(_(?P<fam>sse|avx))?"),
    ("keyexp_enc", r"_aes_keyexp_128_enc(_(?P<fam>sse|avx))?"),
    ("gcm_pre", r"(?P<pre>isal_|_)?aes_gcm_pre_(?P<bits>128|256)"),
    ("gcm_precomp", r"_aes_gcm_precomp_(?P<bits>128|256)(_(?P<fam>" + GFAM[1:-1] + r"))?"),
    ("gcm_init", r"(?P<pre>isal_|_)?aes_gcm_init_(?P<bits>128|256)(_(?P<fam>" + GFAM[1:-1] + r"))?"),
    ("gcm_update", r"(?P<pre>isal_|_)?aes_gcm_(?P<dir>enc|dec)_(?P<bits>128|256)_update(_(?P<fam>" + GFAM[1:-1] + r"))?(?P<nt>_nt)?"),
    ("gcm_final", r"(?P<pre>isal_|_)?aes_gcm_(?P<dir>enc|dec)_(?P<bits>128|256)_finalize(_(?P<fam>" + GFAM[1:-1] + r"))?"),
    ("gcm_one", r"(?P<pre>isal_|_)?aes_gcm_(?P<dir>enc|dec)_(?P<bits>128|256)(_(?P<fam>" + GFAM[1:-1] + r"))?(?P<nt>_nt)?"),
    ("cbc", r"(?P<pre>isal_|_)?aes_cbc_(?P<dir>enc|dec)_(?P<bits>128|192|256)(_(?P<fam>sse|avx|vaes_avx512|x4|x8))?"),
    ("cbc_precomp", r"aes_cbc_precomp"),
    ("xts", r"(?P<pre>_)?XTS_AES_(?P<bits>128|256)_(?P<dir>enc|dec)(?P<exp>_expanded_key)?(_(?P<fam>sse|avx|vaes))?"),
    ("xts", r"(?P<pre>isal_)aes_xts_(?P<dir>enc|dec)_(?P<bits>128|256)(?P<exp>_expanded_key)?"),
    ("mh", r"(?P<pre>isal_|_)?(?P<a>mh_sha1_murmur3_x64_128|mh_sha1|mh_sha256)_(?P<op>init|update|finalize)(_(?P<fam>" + MFAM[1:-1] + r"))?"),
    ("mh_block", r"_(?P<a>mh_sha1_murmur3_x64_128|mh_sha1|mh_sha256)_block_(?P<fam>" + MFAM[1:-1] + r")"),
    ("mh_tail", r"_(?P<a>mh_sha1|mh_sha256)_tail_(?P<fam>" + MFAM[1:-1] + r")"),
    ("mh_single", r"(?P<a>mh_sha1|mh_sha256)_single"),
    ("sha_for_mh", r"_?(?P<a>sha1_for_mh_sha1|sha256_for_mh_sha256)"),
    ("sha256_single_for_mh", r"sha256_single_for_mh_sha256"),
    ("murmur_block", r"_murmur3_x64_128_block"),
    ("murmur_tail", r"_murmur3_x64_128_tail"),
    ("rh_init", r"(?P<pre>isal_|_)?rolling_hash2_init"),
    ("rh_reset", r"(?P<pre>isal_|_)?rolling_hash2_reset"),
    ("rh_run", r"(?P<pre>isal_|_)?rolling_hash2_run"),
    ("rh_until", r"_rolling_hash2_run_until(_(?P<fam>base|00|04))?"),
    ("maskgen", r"(?P<pre>isal_|_)?rolling_hashx_mask_gen"),
    ("noarg_int", r"isal_crypto_get_version|isal_self_tests|_aes_self_tests|_sha_self_tests|asm_check_self_tests_status"),
    ("noarg_ptr", r"isal_crypto_get_version_str"),
    ("set_status", r"asm_set_self_tests_status"),
]
_PAT = [(k, re.compile(r)) for k, r in PATTERNS]


def classify(sym):
    for kind, rx in _PAT:
        m = rx.fullmatch(sym)
        if m:
            d = {k: v for k, v in m.groupdict().items()}
            d["kind"] = kind
            d["sym"] = sym
            return d
    return None


WHY_NOT_CALLED = {
    "data": "not code: version marker / constant table placed in .text",
    "kernel": "internal kernel with a private register convention declared in its source header "
              "(clobbers callee-saved registers by contract; its callers, the mgr submit/flush routines, save them): "
              "exercised through every submit/flush case, not called directly",
    "stub": "dispatch stub (hook build only): exercised as the first call of its public entry",
}

# ----------------------------------------------------------------------------- scenario generators
# Every generator takes (p: proto dict, D: SplitMix64 of declared inputs, J: SplitMix64 of
# hidden inputs, mode) and yields Script objects.  Declared inputs draw from D only, so two
# builds with equal D seeds and different J seeds differ exactly in the hidden inputs.

FPENVS = [(0x1f80, 0x037f), (0x9fc0, 0x027f), (0x3f80, 0x0f7f), (0x5f80, 0x037f), (0x1f80, 0x0c7f)]


def prologue(s, J):
    s.junk(J.next() & 0xffffffffffff)
    mx, cw = FPENVS[J.below(len(FPENVS))]
    s.fpenv(mx, cw)


def keylen(bits):
    return int(bits) // 8


def nrk(bits):
    return {128: 11, 192: 13, 256: 15}[int(bits)]


def kx_fam(bits, fam=None):
    """a family-specific key expansion symbol for set-up calls (never the dispatched one: set-up
    must not touch the binding of an observed public entry)"""
    return "_aes_keyexp_%s_%s" % (bits, fam if fam in ("sse", "avx") else "sse")


# what the Python oracle computed for the scenarios of this run; dynamic_c14 cross-checks every
# entry against the extracted Coq spec (oracle_crosscheck)
ORACLE = {"keys": {}, "h": {}, "tweaks": {}}


def add_key_secrets(s, key, label, enc=True, dec=True):
    s.secret(key if len(key) != 24 else key[:16], label + ".raw")
    if len(key) == 24:
        s.secret(key[8:24], label + ".raw8")
    e, d = aes.expand_enc(key), aes.expand_dec(key)
    ORACLE["keys"][bytes(key)] = (e, d)
    if enc:
        for i, r in enumerate(e):
            s.secret(r, "%s.enc%d" % (label, i))
    if dec:
        for i, r in enumerate(d):
            s.secret(r, "%s.dec%d" % (label, i))


def g_keyexp(p, D, J, mode):
    bits = p["bits"] if p["kind"] == "keyexp" else "128"
    isal = p.get("pre") == "isal_"
    classes = ["ok"] + (["null_key", "null_enc", "null_dec"] if isal else [])
    for cls in classes:
        s = Script("%s.%s" % (p["sym"], cls))
        prologue(s, J)
        key = D.bytes(keylen(bits))
        ko = s.o(len(key), 16, key, off=D.below(16))
        eo = s.o(16 * nrk(bits), 16, J.next() >> 8)
        do = s.o(16 * nrk(bits), 16, J.next() >> 8)
        if mode == "c14":
            s.scan(1)
            add_key_secrets(s, key, "K")
        a = [(ko, 0), (eo, 0), (do, 0)]
        if cls.startswith("null_"):
            a[["null_key", "null_enc", "null_dec"].index(cls)] = None
        if p["kind"] == "keyexp_enc":
            a = a[:2]
        s.call(p["sym"], *a, cls=cls, ret="int" if isal else "void", aes=True)
        if cls == "ok":
            s.d(eo, 0, 16 * nrk(bits), "exp_key_enc")
            if p["kind"] != "keyexp_enc":
                s.d(do, 0, 16 * nrk(bits), "exp_key_dec")
        yield s


def gfam(fam):
    """suffix of the set-up symbols for an observed GCM symbol: the same family, or the dispatched
    internal entry when the observed symbol is itself dispatched (key_data and context are only
    meaningful within one family: vaes uses 48 hash-key powers, the others 8)"""
    return "_" + fam if fam else ""


def gcm_keydata(s, D, J, bits, fam, precomp=True):
    """key object + key_data object set up by family-specific calls (unobserved)"""
    L = layout()
    key = D.bytes(keylen(bits))
    ko = s.o(len(key), 16, key)
    kd = s.o(L["struct isal_gcm_key_data.size"], 64, J.next() >> 8)
    tmp = s.o(16 * 15, 16, "z")
    s.u(kx_fam(bits), (ko, 0), (kd, 0), (tmp, 0))
    if precomp:
        s.u("_aes_gcm_precomp_%s%s" % (bits, gfam(fam)), (kd, 0))
    return key, ko, kd


def gcm_secrets(s, key, kd):
    L = layout()
    add_key_secrets(s, key, "K", dec=True)
    h = aes.encrypt_block(aes.expand_enc(key), bytes(16))
    ORACLE["h"][bytes(key)] = h
    s.secret(h, "H")
    s.dynsecret(kd, L["struct isal_gcm_key_data.shifted_hkey_1"], L["struct isal_gcm_key_data.size"] - L["struct isal_gcm_key_data.shifted_hkey_1"], "Hpow")


GCM_LENS_Q = [0, 1, 15, 16, 17, 32 + 7, 48, 64 + 9, 80, 96 + 1, 112, 127, 128, 129, 144, 160 + 3, 176, 192 + 15, 208, 224 + 5, 240,
              255, 256, 257, 272 + 11, 512, 767, 768, 769, 768 + 16 * 5 + 2, 1024 + 256 + 33]
GCM_LENS_T = sorted(set(GCM_LENS_Q + [16 * j + r for j in range(0, 50) for r in (0, 3, 15)] + [2048 + 16 * j + 1 for j in range(16)] + [4096, 8191]))
AAD_LENS = [0, 1, 8, 12, 16, 17, 20, 32, 48 + 3, 64, 128 + 5]
TAG_LENS = [16, 12, 8]


def g_gcm_pre(p, D, J, mode):
    isal = p.get("pre") == "isal_"
    L = layout()
    for cls in ["ok"] + (["null_key", "null_kd"] if isal else []):
        s = Script("%s.%s" % (p["sym"], cls))
        prologue(s, J)
        key = D.bytes(keylen(p["bits"]))
        ko = s.o(len(key), 16, key)
        kd = s.o(L["struct isal_gcm_key_data.size"], 64, "z" if mode == "c14" else J.next() >> 8)
        if mode == "c14":
            s.scan(1)
            gcm_secrets(s, key, kd)
        a = [(ko, 0), (kd, 0)]
        if cls != "ok":
            a[["null_key", "null_kd"].index(cls)] = None
        s.call(p["sym"], *a, cls=cls, ret="int" if isal else "void", aes=True)
        if cls == "ok":
            s.d(kd, 0, 16 * nrk(p["bits"]), "expanded_keys")
        # behaviour of the produced key data: one encryption with it
        if cls == "ok":
            gcm_probe(s, D, J, p["bits"], kd)
        yield s


def gcm_probe(s, D, J, bits, kd, fam=None):
    """the opaque key_data is compared through what it makes an encryption produce"""
    L = layout()
    ctx = s.o(L["struct isal_gcm_context_data.size"], 16, "z")
    iv = s.o(16, 16, D.bytes(12) + b"\0\0\0\1")
    n = 80 + 5
    pt = s.o(n, 16, D.bytes(n))
    ct = s.o(n, 16, "z")
    tag = s.o(16, 16, "z")
    aad = s.o(16, 16, D.bytes(16))
    s.scan(0)
    s.u("_aes_gcm_enc_%s%s" % (bits, gfam(fam)), (kd, 0), (ctx, 0), (ct, 0), (pt, 0), n, (iv, 0), (aad, 0), 16, (tag, 0), 16)
    s.d(ct, 0, n, "probe ct")
    s.d(tag, 0, 16, "probe tag")


def g_gcm_precomp(p, D, J, mode):
    s = Script("%s.ok" % p["sym"])
    prologue(s, J)
    key, ko, kd = gcm_keydata(s, D, J, p["bits"], None, precomp=False)
    if mode == "c14":
        # zero the part precomp produces so that unwritten bytes are not taken for secrets
        L = layout()
        s.w(kd, 16 * 15, bytes(L["struct isal_gcm_key_data.size"] - 240))
        s.scan(1)
        gcm_secrets(s, key, kd)
    s.call(p["sym"], (kd, 0), cls="ok", aes=True)
    gcm_probe(s, D, J, p["bits"], kd, p.get("fam"))
    yield s


def ctx_dump(s, ctx):
    """API-defined bytes of a GCM context: everything but partial_block_enc_key, which only
    carries meaning for the first partial_block_length bytes (DESIGN C07)"""
    L = layout()
    o = L["struct isal_gcm_context_data.partial_block_enc_key"]
    s.d(ctx, 0, o, "gcm ctx [0,pbek)")
    s.d(ctx, o + 16, L["struct isal_gcm_context_data.size"] - o - 16, "gcm ctx (pbek,end)")


def g_gcm_init(p, D, J, mode, tier="quick"):
    isal = p.get("pre") == "isal_"
    L = layout()
    classes = [("aad%d" % a, a) for a in (AAD_LENS if tier != "quick" or True else AAD_LENS)]
    if isal:
        classes += [("null_kd", 16), ("null_ctx", 16), ("null_iv", 16), ("null_aad", 16)]
    for cls, alen in classes:
        s = Script("%s.%s" % (p["sym"], cls))
        prologue(s, J)
        key, ko, kd = gcm_keydata(s, D, J, p["bits"], p.get("fam"))
        ctx = s.o(L["struct isal_gcm_context_data.size"], 16, J.next() >> 8)
        iv = s.o(16, 16, D.bytes(12) + b"\0\0\0\1")
        aad = s.o(max(alen, 1), 16, D.bytes(max(alen, 1)), off=D.below(16))
        if mode == "c14":
            s.scan(1)
            gcm_secrets(s, key, kd)
        a = [(kd, 0), (ctx, 0), (iv, 0), (aad, 0), alen]
        if cls.startswith("null_"):
            a[["null_kd", "null_ctx", "null_iv", "null_aad"].index(cls)] = None
        s.call(p["sym"], *a, cls=cls, ret="int" if isal else "void", aes=True)
        if not cls.startswith("null_"):
            ctx_dump(s, ctx)
        yield s


def g_gcm_update(p, D, J, mode, tier="quick"):
    isal = p.get("pre") == "isal_"
    L = layout()
    fam = p.get("fam")
    nt = bool(p.get("nt"))
    lens = GCM_LENS_Q if tier == "quick" else GCM_LENS_T
    classes = []
    for n in lens:
        for prior in ((0, 5) if (n in (1, 15, 16, 17, 128, 129, 256 + 16 + 11) or tier != "quick") else (0,)):
            if nt and prior:
                continue
            classes.append(("len%d_partial%d" % (n, prior), n, prior))
    if isal:
        classes += [("null_kd", 32, 0), ("null_ctx", 32, 0), ("null_out", 32, 0), ("null_in", 32, 0)]
    for cls, n, prior in classes:
        s = Script("%s.%s" % (p["sym"], cls))
        prologue(s, J)
        key, ko, kd = gcm_keydata(s, D, J, p["bits"], p.get("fam"))
        ctx = s.o(L["struct isal_gcm_context_data.size"], 16, J.next() >> 8)
        iv = s.o(16, 16, D.bytes(12) + b"\0\0\0\1")
        aad = s.o(16, 16, D.bytes(16))
        al = 64 if nt else 16
        src = s.o(max(n, 1) + 16, al, D.bytes(max(n, 1) + 16), off=0 if nt else D.below(16))
        dst = s.o(max(n, 1) + 16, al, J.next() >> 8, off=0 if nt else D.below(16))
        s.u("_aes_gcm_init_%s%s" % (p["bits"], gfam(fam)), (kd, 0), (ctx, 0), (iv, 0), (aad, 0), 16)
        if prior:
            s.u("_aes_gcm_%s_%s_update%s" % (p["dir"], p["bits"], gfam(fam)), (kd, 0), (ctx, 0), (dst, 0), (src, 0), prior)
        if mode == "c14":
            s.scan(1)
            gcm_secrets(s, key, kd)
        a = [(kd, 0), (ctx, 0), (dst, prior if not nt else 0), (src, prior if not nt else 0), n]
        if cls.startswith("null_"):
            a[["null_kd", "null_ctx", "null_out", "null_in"].index(cls)] = None
        s.call(p["sym"], *a, cls=cls, ret="int" if isal else "void", aes=True)
        if not cls.startswith("null_"):
            s.d(dst, 0, n + (prior if not nt else 0), "out")
            ctx_dump(s, ctx)
            # later behaviour of the context: finalize it
            tag = s.o(16, 16, "z")
            s.scan(0)
            s.u("_aes_gcm_%s_%s_finalize%s" % (p["dir"], p["bits"], gfam(fam)), (kd, 0), (ctx, 0), (tag, 0), 16)
            s.d(tag, 0, 16, "tag after finalize")
        yield s


def g_gcm_final(p, D, J, mode, tier="quick"):
    isal = p.get("pre") == "isal_"
    L = layout()
    fam = p.get("fam")
    classes = [("tag%d_len%d" % (t, n), t, n) for t in TAG_LENS for n in (0, 5, 16, 16 * 9 + 3)]
    if isal:
        classes += [("null_kd", 16, 16), ("null_ctx", 16, 16), ("null_tag", 16, 16), ("bad_taglen", 5, 16)]
    for cls, tl, n in classes:
        s = Script("%s.%s" % (p["sym"], cls))
        prologue(s, J)
        key, ko, kd = gcm_keydata(s, D, J, p["bits"], p.get("fam"))
        ctx = s.o(L["struct isal_gcm_context_data.size"], 16, J.next() >> 8)
        iv = s.o(16, 16, D.bytes(12) + b"\0\0\0\1")
        aad = s.o(16, 16, D.bytes(16))
        src = s.o(n + 16, 16, D.bytes(n + 16))
        dst = s.o(n + 16, 16, "z")
        tag = s.o(32, 16, J.next() >> 8)
        s.u("_aes_gcm_init_%s%s" % (p["bits"], gfam(fam)), (kd, 0), (ctx, 0), (iv, 0), (aad, 0), 16)
        s.u("_aes_gcm_%s_%s_update%s" % (p["dir"], p["bits"], gfam(fam)), (kd, 0), (ctx, 0), (dst, 0), (src, 0), n)
        if mode == "c14":
            s.scan(1)
            gcm_secrets(s, key, kd)
        a = [(kd, 0), (ctx, 0), (tag, 0), tl]
        if cls.startswith("null_"):
            a[["null_kd", "null_ctx", "null_tag"].index(cls)] = None
        s.call(p["sym"], *a, cls=cls, ret="int" if isal else "void", aes=True)
        if not cls.startswith("null_") and cls != "bad_taglen":
            s.d(tag, 0, tl, "tag")
        yield s


def g_gcm_one(p, D, J, mode, tier="quick"):
    isal = p.get("pre") == "isal_"
    L = layout()
    nt = bool(p.get("nt"))
    lens = GCM_LENS_Q if tier == "quick" else GCM_LENS_T
    classes = []
    for i, n in enumerate(lens):
        classes.append(("len%d_aad%d_tag%d" % (n, AAD_LENS[i % len(AAD_LENS)], TAG_LENS[i % 3]), n, AAD_LENS[i % len(AAD_LENS)], TAG_LENS[i % 3]))
    if isal:
        for c in ("null_kd", "null_ctx", "null_out", "null_in", "null_iv", "null_aad", "null_tag", "bad_taglen"):
            classes.append((c, 32, 16, 16 if c != "bad_taglen" else 7))
    for cls, n, alen, tl in classes:
        s = Script("%s.%s" % (p["sym"], cls))
        prologue(s, J)
        key, ko, kd = gcm_keydata(s, D, J, p["bits"], p.get("fam"))
        ctx = s.o(L["struct isal_gcm_context_data.size"], 16, J.next() >> 8)
        iv = s.o(16, 16, D.bytes(12) + b"\0\0\0\1")
        aad = s.o(max(alen, 1), 16, D.bytes(max(alen, 1)))
        al = 64 if nt else 16
        src = s.o(max(n, 1), al, D.bytes(max(n, 1)), off=0 if nt else D.below(16))
        dst = s.o(max(n, 1), al, J.next() >> 8, off=0 if nt else D.below(16))
        tag = s.o(32, 16, J.next() >> 8)
        if mode == "c14":
            s.scan(1)
            gcm_secrets(s, key, kd)
        a = [(kd, 0), (ctx, 0), (dst, 0), (src, 0), n, (iv, 0), (aad, 0), alen, (tag, 0), tl]
        if cls.startswith("null_"):
            a[{"null_kd": 0, "null_ctx": 1, "null_out": 2, "null_in": 3, "null_iv": 5, "null_aad": 6, "null_tag": 8}[cls]] = None
        s.call(p["sym"], *a, cls=cls, ret="int" if isal else "void", aes=True)
        if not cls.startswith("null_") and cls != "bad_taglen":
            s.d(dst, 0, n, "out")
            s.d(tag, 0, tl, "tag")
        yield s


def cbc_lens(fam, tier):
    top = {"vaes_avx512": 34, "sse": 18, "avx": 18, None: 18}.get(fam, 6)
    js = list(range(1, top + 1)) + ([40, 64 + 3] if fam in ("vaes_avx512", None) else [])
    if tier == "quick":
        js = [j for j in js if j <= 17 or j % 3 == 0 or j >= 32]
    return [16 * j for j in js]


def g_cbc(p, D, J, mode, tier="quick"):
    isal = p.get("pre") == "isal_"
    L = layout()
    bits, dr = p["bits"], p["dir"]
    classes = [("len%d" % n, n) for n in cbc_lens(p.get("fam"), tier)]
    if isal:
        classes += [("null_in", 32), ("null_iv", 32), ("null_keys", 32), ("null_out", 32), ("len_not_mult16", 33)]
        if dr == "dec":
            classes += [("len0", 0)]
        # isal_aes_cbc_enc_* with len = 0 runs the kernel and faults (DESIGN §5 F6: owned by C16/C08) — not repeated here
    for cls, n in classes:
        s = Script("%s.%s" % (p["sym"], cls))
        prologue(s, J)
        key = D.bytes(keylen(bits))
        ko = s.o(len(key), 16, key)
        kb = s.o(L["struct isal_cbc_key_data.size"], 16, "z")
        eoff, doff = L["struct isal_cbc_key_data.enc_keys"], L["struct isal_cbc_key_data.dec_keys"]
        s.u(kx_fam(bits), (ko, 0), (kb, eoff), (kb, doff))
        iv = s.o(16, 16, D.bytes(16))
        src = s.o(max(n, 16), 16, D.bytes(max(n, 16)), off=D.below(16) if p.get("fam") not in ("x4", "x8") else 0)
        dst = s.o(max(n, 16), 16, J.next() >> 8, off=D.below(16) if p.get("fam") not in ("x4", "x8") else 0)
        if mode == "c14":
            s.scan(1)
            add_key_secrets(s, key, "K")
        a = [(src, 0), (iv, 0), (kb, eoff if dr == "enc" else doff), (dst, 0), n]
        if cls.startswith("null_"):
            a[["null_in", "null_iv", "null_keys", "null_out"].index(cls)] = None
        s.call(p["sym"], *a, cls=cls, ret="int" if (isal or dr == "enc") else "void", aes=True)
        if not cls.startswith("null_") and cls != "len_not_mult16":
            s.d(dst, 0, n, "out")
        yield s


def g_cbc_precomp(p, D, J, mode, tier="quick"):
    L = layout()
    for bits in (16, 24, 32, 100):      # ISAL_CBC_128_BITS = 16 (key size in bytes), ...
        s = Script("%s.bits%d" % (p["sym"], bits))
        prologue(s, J)
        key = D.bytes(32)
        ko = s.o(32, 16, key)
        kb = s.o(L["struct isal_cbc_key_data.size"], 16, J.next() >> 8)
        if mode == "c14":
            s.scan(1)
            if bits != 100:
                add_key_secrets(s, key[:bits], "K")
        s.call(p["sym"], (ko, 0), bits, (kb, 0), cls="bits%d" % bits, ret="int", aes=True)
        if bits != 100:
            s.d(kb, 0, 16 * nrk(bits * 8), "enc_keys")
            s.d(kb, L["struct isal_cbc_key_data.dec_keys"], 16 * nrk(bits * 8), "dec_keys")
        yield s


def xts_lens(fam, tier):
    top = 34 if fam in ("vaes", None) else 18
    out = []
    for j in range(1, top + 1):
        rs = (0, 1, 15) if (tier != "quick" or j <= 9 or j in (16, 17, 32, 33)) else ((0,) if j % 2 else (7,))
        out += [16 * j + r for r in rs]
    out += [512, 4096, 4096 + 16 * 3 + 9]
    return sorted(set(out))


def g_xts(p, D, J, mode, tier="quick"):
    isal = (p.get("pre") == "isal_")
    bits, dr, exp = p["bits"], p["dir"], bool(p.get("exp"))
    classes = [("len%d" % n, n) for n in xts_lens(p.get("fam"), tier)]
    if isal:
        classes += [("null_k2", 64), ("null_k1", 64), ("null_tweak", 64), ("null_in", 64), ("null_out", 64), ("len15", 15), ("len_over_max", (1 << 24) + 16)]
    for cls, n in classes:
        s = Script("%s.%s" % (p["sym"], cls))
        prologue(s, J)
        k1, k2 = D.bytes(keylen(bits)), D.bytes(keylen(bits))
        tw = D.bytes(16)
        if exp:
            k1o = s.o(16 * nrk(bits), 16, b"".join(aes.expand_enc(k1) if dr == "enc" else aes.expand_dec(k1)))
            k2o = s.o(16 * nrk(bits), 16, b"".join(aes.expand_enc(k2)))
        else:
            k1o = s.o(len(k1), 16, k1, off=D.below(16))
            k2o = s.o(len(k2), 16, k2, off=D.below(16))
        two = s.o(16, 16, tw, off=D.below(16))
        m = min(n, 8192) if cls == "len_over_max" else n
        src = s.o(max(m, 16), 16, D.bytes(max(m, 16)), off=D.below(16))
        dst = s.o(max(m, 16), 16, J.next() >> 8, off=D.below(16))
        if mode == "c14":
            s.scan(1)
            add_key_secrets(s, k1, "K1", enc=(dr == "enc"), dec=(dr == "dec"))
            add_key_secrets(s, k2, "K2", dec=False)
            t = aes.encrypt_block(aes.expand_enc(k2), tw)
            chain = []
            for j in range(m // 16 + 10):      # m: the data actually present (len_over_max is rejected)
                s.secret(t, "EK2tweak.a%d" % j)
                chain.append(t)
                t = aes.xts_mul_alpha(t)
            ORACLE["tweaks"][(bytes(k2), bytes(tw))] = chain
        a = [(k2o, 0), (k1o, 0), (two, 0), n, (src, 0), (dst, 0)]
        if cls.startswith("null_"):
            a[["null_k2", "null_k1", "null_tweak", "", "null_in", "null_out"].index(cls)] = None
        s.call(p["sym"], *a, cls=cls, ret="int" if isal else "void", aes=True)
        if cls.startswith("len") and cls not in ("len15", "len_over_max"):
            s.d(dst, 0, n, "out")
        yield s

# ---- hashes

STS_COMPLETE = 4


def hash_L(a):
    A = HASH_A[a]
    L = layout()
    g = lambda k: L["ISAL_%s_%s" % (A, k)]
    return {"A": A, "mgr": g("HASH_CTX_MGR.size"), "ctx": (g("HASH_CTX.size") + 63) // 64 * 64, "job": g("JOB.size"),
            "status": g("HASH_CTX.status"), "error": g("HASH_CTX.error"), "total": g("HASH_CTX.total_length"),
            "digest": g("JOB.result_digest"), "dsize": g("JOB.result_digest.size"), "jbuf": g("JOB.buffer"), "jlen": g("JOB.len"),
            "jlen_size": g("JOB.len.size"), "jstatus": g("JOB.status"), "plen": g("HASH_CTX.partial_block_buffer_length"),
            "B": L[A + ".block"], "lanes": L[A + ".max_lanes"], "mbmgr": g("MB_JOB_MGR.size")}


def hash_syms(a, pre, fam):
    if fam:
        return ["_%s_ctx_mgr_%s_%s" % (a, op, fam) for op in ("init", "submit", "flush")]
    return ["%s%s_ctx_mgr_%s" % (pre or "", a, op) for op in ("init", "submit", "flush")]


def new_ctx_array(s, H, n, J):
    """n contexts in one object: junk everywhere except what isal_hash_ctx_init defines
    (status = COMPLETE, error = NONE)"""
    co = s.o(H["ctx"] * n, 64, J.next() >> 8)
    for i in range(n):
        s.w32(co, H["ctx"] * i + H["status"], STS_COMPLETE)
        s.w32(co, H["ctx"] * i + H["error"], 0)
    return co


def g_hash_ctx(p, D, J, mode, tier="quick"):
    """one family/prefix triple (init, submit, flush) per scenario; generated once, for the
    `init` symbol of the triple"""
    if p["op"] != "init":
        return
    a, pre, fam = p["a"], p.get("pre"), p.get("fam")
    H = hash_L(a)
    B = H["B"]
    isal = pre == "isal_"
    s_init, s_sub, s_fl = hash_syms(a, pre, fam)
    rsub = "int" if isal else "ptr"

    def submit(s, mo, co, i, bo, boff, n, flags, outp, cls):
        ctx = (co, H["ctx"] * i) if i is not None else None
        buf = (bo, boff) if bo is not None else None
        if isal:
            return s.call(s_sub, mo, ctx, outp, buf, n, flags, cls=cls, ret="int")
        return s.call(s_sub, mo, ctx, buf, n, flags, cls=cls, ret="ptr")

    def flush(s, mo, outp, cls):
        if isal:
            return s.call(s_fl, mo, outp, cls=cls, ret="int")
        return s.call(s_fl, mo, cls=cls, ret="ptr")

    def ctx_fields(s, co, i, digest=True, total=True):
        base = H["ctx"] * i
        s.d(co, base + H["status"], 8, "ctx%d status,error" % i)
        if digest:
            s.d(co, base + H["digest"], H["dsize"], "ctx%d digest" % i)
        if total:
            s.d(co, base + H["total"], 8, "ctx%d total_length" % i)

    # A. fill the lanes and drain them: submit occupancy 0..n, flush with k..0 live lanes
    lens_cycle = [B + 1, 0, 1, B - 1, B, 2 * B + 3, 3 * B, 5]
    for variant in range(2 if tier == "quick" else 4):
        n = 2 * H["lanes"] + 2 if variant == 0 else [3, H["lanes"] // 2 + 1, 1][variant - 1]
        n = min(n, 40)
        s = Script("%s.fill%d" % (s_init, variant))
        prologue(s, J)
        mo = s.o(H["mgr"], 64, J.next() >> 8)
        co = new_ctx_array(s, H, n, J)
        outp = s.o(8, 8, J.next() >> 8) if isal else None
        lens = [lens_cycle[(i + variant * 3) % len(lens_cycle)] for i in range(n)]
        bo = s.o(sum(lens) + 64, 64, D.bytes(sum(lens) + 64))
        s.call(s_init, (mo, 0), cls="init", ret="int" if isal else "void")
        pos = 0
        for i in range(n):
            submit(s, (mo, 0), co, i, bo, pos, lens[i], 3, (outp, 0) if isal else None, "submit#%d_len%d_ENTIRE" % (i, lens[i]))
            if isal:
                s.d(outp, 0, 8, "ctx_out after submit#%d" % i)
            pos += lens[i]
        for j in range(n + 1):
            flush(s, (mo, 0), (outp, 0) if isal else None, "flush#%d" % j)
            if isal:
                s.d(outp, 0, 8, "ctx_out after flush#%d" % j)
        for i in range(n):
            ctx_fields(s, co, i)
        yield s
    # B. one context streamed FIRST / UPDATE / UPDATE / LAST with a flush after each
    for variant, segs in enumerate([[B + 5, 3, 2 * B, 7], [0, B, 0, 0], [B - 1, 1, B + 1, B]][: 2 if tier == "quick" else 3]):
        s = Script("%s.stream%d" % (s_init, variant))
        prologue(s, J)
        mo = s.o(H["mgr"], 64, J.next() >> 8)
        co = new_ctx_array(s, H, 1, J)
        outp = s.o(8, 8, J.next() >> 8) if isal else None
        bo = s.o(sum(segs) + 64, 64, D.bytes(sum(segs) + 64))
        s.call(s_init, (mo, 0), cls="init", ret="int" if isal else "void")
        pos = 0
        for k, n in enumerate(segs):
            fl = [1, 0, 0, 2][k]
            submit(s, (mo, 0), co, 0, bo, pos, n, fl, (outp, 0) if isal else None, "stream_%s_len%d" % (["FIRST", "UPDATE", "UPDATE", "LAST"][k], n))
            flush(s, (mo, 0), (outp, 0) if isal else None, "flush_after_stream%d" % k)
            ctx_fields(s, co, 0, digest=(k == 3))
            pos += n
        yield s
    # C. error returns
    errs = [("bad_flags", 0), ("already_processing", 1), ("update_on_complete", 2)]
    if isal:
        errs += [("null_mgr", 3), ("null_ctx", 4), ("null_ctx_out", 5), ("null_buffer", 6)]
    for cls, e in errs:
        s = Script("%s.err_%s" % (s_init, cls))
        prologue(s, J)
        mo = s.o(H["mgr"], 64, J.next() >> 8)
        co = new_ctx_array(s, H, 2, J)
        outp = s.o(8, 8, J.next() >> 8) if isal else None
        bo = s.o(4 * B, 64, D.bytes(4 * B))
        s.call(s_init, (mo, 0), cls="init", ret="int" if isal else "void")
        op = (outp, 0) if isal else None
        if e == 0:
            submit(s, (mo, 0), co, 0, bo, 0, B, 8, op, "err_bad_flags")
        elif e == 1:
            submit(s, (mo, 0), co, 0, bo, 0, 2 * B, 3, op, "submit_held")
            submit(s, (mo, 0), co, 0, bo, 0, B, 3, op, "err_already_processing")
        elif e == 2:
            submit(s, (mo, 0), co, 0, bo, 0, B, 0, op, "err_update_on_complete")
        elif e == 3:
            submit(s, None, co, 0, bo, 0, B, 3, op, "err_null_mgr")
            flush(s, None, op, "flush_null_mgr")
            s.call(s_init, None, cls="init_null_mgr", ret="int")
        elif e == 4:
            submit(s, (mo, 0), co, None, bo, 0, B, 3, op, "err_null_ctx")
        elif e == 5:
            submit(s, (mo, 0), co, 0, bo, 0, B, 3, None, "err_null_ctx_out")
            flush(s, (mo, 0), None, "flush_null_ctx_out")
        elif e == 6:
            submit(s, (mo, 0), co, 0, None, 0, B, 3, op, "err_null_buffer")
        for j in range(2):
            flush(s, (mo, 0), op, "flush_after_err#%d" % j)
        s.d(co, H["status"], 8, "ctx0 status,error")
        yield s


def g_hash_mb(p, D, J, mode, tier="quick"):
    if p["op"] != "flush":
        return
    a, fam, lvl = p["a"], p["fam"], p["lvl"]
    H = hash_L(a)
    L = layout()
    text = set(archive_syms("plain")[0])
    base = "_%s_%s_mgr_" % (a, lvl)
    s_fl = p["sym"]
    s_sub = base + "submit_" + fam
    if s_sub not in text:
        s_sub = base + "submit_" + fam.replace("_ni", "")
    initfam = {"sse": "sse", "avx": "sse", "sse_ni": "sse", "avx2": "avx2", "avx512": "avx512", "avx512_ni": "avx512", "sse4": "sse4"}[fam]
    s_init = base + "init_" + initfam
    if s_init not in text:
        s_init = base + "init_avx2"
    for variant in range(2):
        n = min(2 * H["lanes"] + 2, 40) if variant == 0 else 2
        s = Script("%s.mb%d" % (s_fl, variant))
        prologue(s, J)
        mo = s.o(H["mbmgr"], 64, J.next() >> 8)
        jsz = (H["job"] + 63) // 64 * 64
        jo = s.o(jsz * n, 64, J.next() >> 8)
        lens = [[1, 2, 3, 1, 4][(i + variant) % 5] for i in range(n)]
        bo = s.o(sum(lens) * H["B"] + 64, 64, D.bytes(sum(lens) * H["B"] + 64))
        pos = 0
        for i in range(n):
            s.p(jo, jsz * i + H["jbuf"], (bo, pos))
            s.w(jo, jsz * i + H["jlen"], lens[i].to_bytes(H["jlen_size"], "little"))
            s.w(jo, jsz * i + H["digest"], D.bytes(H["dsize"]))
            s.w32(jo, jsz * i + H["jstatus"], 1)
            pos += lens[i] * H["B"]
        s.call(s_init, (mo, 0), cls="init")
        for i in range(n):
            s.call(s_sub, (mo, 0), (jo, jsz * i), cls="submit#%d_blocks%d" % (i, lens[i]), ret="ptr")
        for j in range(n + 1):
            s.call(s_fl, (mo, 0), cls="flush#%d" % j, ret="ptr")
        for i in range(n):
            s.d(jo, jsz * i + H["digest"], H["dsize"], "job%d digest" % i)
            s.d(jo, jsz * i + H["jstatus"], 4, "job%d status" % i)
        yield s


def g_sha512_sse4(p, D, J, mode, tier="quick"):
    for nb in (0, 1, 2, 5):
        s = Script("%s.blocks%d" % (p["sym"], nb))
        prologue(s, J)
        m = s.o(128 * max(nb, 1), 16, D.bytes(128 * max(nb, 1)))
        dg = s.o(64, 16, D.bytes(64))
        s.call(p["sym"], (m, 0), (dg, 0), nb, cls="blocks%d" % nb)
        s.d(dg, 0, 64, "digest")
        yield s

# ---- multi-hash, murmur

def mh_L(a):
    L = layout()
    st = "struct isal_%s_ctx" % a
    blk = 1024
    d = {"size": L[st + ".size"], "total": L[st + ".total_length"], "partial": L[st + ".partial_block_buffer"],
         "interim": L[st + ".mh_sha1_interim_digests" if "sha1" in a else st + ".mh_sha256_interim_digests"],
         "interim_size": L[(st + ".mh_sha1_interim_digests" if "sha1" in a else st + ".mh_sha256_interim_digests") + ".size"],
         "frame": L[st + ".frame_buffer"], "dwords": 5 if "sha1" in a else 8}
    return d


def mh_syms(a, pre, fam):
    if fam:
        return ("_%s_init" % a, "_%s_update_%s" % (a, fam), "_%s_finalize_%s" % (a, fam))
    return tuple("%s%s_%s" % (pre or "", a, op) for op in ("init", "update", "finalize"))


def g_mh(p, D, J, mode, tier="quick"):
    a, pre, fam, op = p["a"], p.get("pre"), p.get("fam"), p["op"]
    M = mh_L(a)
    isal = pre == "isal_"
    mur = "murmur" in a
    if fam and op == "init":
        return
    s_init, s_upd, s_fin = mh_syms(a, pre, fam)
    if op == "init" and not fam:
        s_upd, s_fin = "_%s_update_base" % a, "_%s_finalize_base" % a
    if fam:
        # the observed symbol is p["sym"] itself (also the legacy un-prefixed *_base names)
        if op == "update":
            s_upd = p["sym"]
        elif op == "finalize":
            s_fin = p["sym"]
    setup_init = "_%s_init" % a
    dsz = 20 if "sha1" in a else 32

    def init_call(s, ctx, observed):
        args = [ctx] + ([D.next() & ((1 << 64) - 1)] if mur else [])
        if observed:
            s.call(s_init, *args, cls="init", ret="int")
        else:
            s.u(setup_init, *args)

    def fin_args(co, dg, mdg):
        return [(co, 0), (dg, 0)] + ([(mdg, 0)] if mur else [])

    lens = [0, 1, 63, 64, 1023, 1024, 1025, 2048 + 5, 3 * 1024]
    if op == "init":
        classes = [("init", 0, 0)]
    elif op == "update":
        classes = [("len%d_prior%d" % (n, pr), n, pr) for n in lens for pr in ((0, 1000) if n in (0, 1, 24, 1024, 1025, 63) else (0,))]
    else:
        classes = [("total%d" % n, n, 0) for n in (0, 1, 55, 56, 63, 64, 960 + 55, 960 + 56, 1023, 1024, 1024 + 500, 2048)]
    for cls, n, prior in classes:
        s = Script("%s.%s" % (p["sym"], cls))
        prologue(s, J)
        co = s.o(M["size"], 64, J.next() >> 8)
        bo = s.o(n + prior + 64, 16, D.bytes(n + prior + 64), off=D.below(16))
        dg = s.o(32, 16, J.next() >> 8)
        mdg = s.o(16, 16, J.next() >> 8)
        if op == "init":
            init_call(s, (co, 0), True)
            s.d(co, 0, M["size"], "whole ctx after init")
            s.u(s_upd, (co, 0), (bo, 0), 37)
            s.u(s_fin, *fin_args(co, dg, mdg))
        elif op == "update":
            init_call(s, (co, 0), False)
            if prior:
                s.u(s_upd, (co, 0), (bo, 0), prior)
            s.call(s_upd, (co, 0), (bo, prior), n, cls=cls, ret="int")
            s.d(co, M["total"], 8, "total_length")
            s.u("_%s_finalize_%s" % (a, fam or "base"), *fin_args(co, dg, mdg))
        else:
            init_call(s, (co, 0), False)
            s.u("_%s_update_%s" % (a, fam or "base"), (co, 0), (bo, 0), n)
            s.call(s_fin, *fin_args(co, dg, mdg), cls=cls, ret="int")
        s.d(dg, 0, dsz, "mh digest")
        if mur:
            s.d(mdg, 0, 16, "murmur digest")
        yield s
    if isal:
        for cls in {"init": ["null_ctx"], "update": ["null_ctx", "null_buffer"], "finalize": ["null_ctx", "null_digest"] + (["null_murmur_digest"] if mur else [])}[op]:
            s = Script("%s.%s" % (p["sym"], cls))
            prologue(s, J)
            co = s.o(M["size"], 64, J.next() >> 8)
            bo = s.o(128, 16, D.bytes(128))
            dg = s.o(32, 16, J.next() >> 8)
            mdg = s.o(16, 16, J.next() >> 8)
            init_call(s, (co, 0), False)
            if op == "init":
                s.call(p["sym"], None, *( [5] if mur else []), cls=cls, ret="int")
            elif op == "update":
                s.call(p["sym"], None if cls == "null_ctx" else (co, 0), None if cls == "null_buffer" else (bo, 0), 100, cls=cls, ret="int")
            else:
                a3 = fin_args(co, dg, mdg)
                a3[["null_ctx", "null_digest", "null_murmur_digest"].index(cls)] = None
                s.call(p["sym"], *a3, cls=cls, ret="int")
            yield s


def g_mh_block(p, D, J, mode, tier="quick"):
    a = p["a"]
    mur = "murmur" in a
    dw = 5 if "sha1" in a else 8
    for nb in (0, 1, 2, 3):
        s = Script("%s.blocks%d" % (p["sym"], nb))
        prologue(s, J)
        inp = s.o(1024 * max(nb, 1), 16, D.bytes(1024 * max(nb, 1)), off=D.below(16))
        dg = s.o(4 * dw * 16, 64, D.bytes(4 * dw * 16))
        fb = s.o(1024 + 64, 64, J.next() >> 8)
        if mur:
            md = s.o(16, 16, D.bytes(16))
            s.call(p["sym"], (inp, 0), (dg, 0), (fb, 0), (md, 0), nb, cls="blocks%d" % nb)
            s.d(md, 0, 16, "murmur state")
        else:
            s.call(p["sym"], (inp, 0), (dg, 0), (fb, 0), nb, cls="blocks%d" % nb)
        s.d(dg, 0, 4 * dw * 16, "segment digests")
        yield s


def g_mh_tail(p, D, J, mode, tier="quick"):
    a = p["a"]
    dw = 5 if "sha1" in a else 8
    for tl in (0, 1, 55, 56, 63, 64, 960 + 55, 960 + 56, 1023, 1024 + 7, 5 * 1024):
        s = Script("%s.total%d" % (p["sym"], tl))
        prologue(s, J)
        part = tl % 1024
        pb = s.o(2048, 64, "z")
        s.w(pb, 0, D.bytes(part))
        s.w(pb, part, J.bytes(2048 - part))      # beyond the partial length: not declared
        dg = s.o(4 * dw * 16, 64, D.bytes(4 * dw * 16))
        fb = s.o(1024 + 64, 64, J.next() >> 8)
        out = s.o(32, 16, J.next() >> 8)
        s.call(p["sym"], (pb, 0), tl, (dg, 0), (fb, 0), (out, 0), cls="total%d" % tl)
        s.d(out, 0, 4 * dw, "digest")
        yield s


def g_mh_single(p, D, J, mode, tier="quick"):
    dw = 5 if "sha1" in p["a"] else 8
    s = Script("%s.one" % p["sym"])
    prologue(s, J)
    inp = s.o(1024, 16, D.bytes(1024))
    dg = s.o(4 * dw * 16, 64, D.bytes(4 * dw * 16))
    fb = s.o(1024 + 64, 64, J.next() >> 8)
    s.call(p["sym"], (inp, 0), (dg, 0), (fb, 0), cls="one")
    s.d(dg, 0, 4 * dw * 16, "segment digests")
    yield s


def g_sha_for_mh(p, D, J, mode, tier="quick"):
    dw = 5 if "sha1" in p["a"] else 8
    for n in (0, 1, 55, 56, 64, 119, 120, 200):
        s = Script("%s.len%d" % (p["sym"], n))
        prologue(s, J)
        inp = s.o(max(n, 1), 16, D.bytes(max(n, 1)))
        dg = s.o(32, 16, J.next() >> 8)
        s.call(p["sym"], (inp, 0), (dg, 0), n, cls="len%d" % n)
        s.d(dg, 0, 4 * dw, "digest")
        yield s


def g_sha256_single_for_mh(p, D, J, mode, tier="quick"):
    s = Script("%s.one" % p["sym"])
    prologue(s, J)
    inp = s.o(64, 16, D.bytes(64))
    dg = s.o(32, 16, D.bytes(32))
    s.call(p["sym"], (inp, 0), (dg, 0), cls="one")
    s.d(dg, 0, 32, "digest")
    yield s


def g_murmur_block(p, D, J, mode, tier="quick"):
    for nb in (0, 1, 3):
        s = Script("%s.blocks%d" % (p["sym"], nb))
        prologue(s, J)
        inp = s.o(16 * max(nb, 1), 16, D.bytes(16 * max(nb, 1)))
        dg = s.o(16, 16, D.bytes(16))
        s.call(p["sym"], (inp, 0), nb, (dg, 0), cls="blocks%d" % nb)
        s.d(dg, 0, 16, "state")
        yield s


def g_murmur_tail(p, D, J, mode, tier="quick"):
    for tl in (0, 1, 7, 8, 9, 15, 16 + 3, 1024 + 15):
        s = Script("%s.total%d" % (p["sym"], tl))
        prologue(s, J)
        inp = s.o(16, 16, D.bytes(tl % 16) + J.bytes(16 - tl % 16))
        dg = s.o(16, 16, D.bytes(16))
        s.call(p["sym"], (inp, 0), tl, (dg, 0), cls="total%d" % tl)
        s.d(dg, 0, 16, "digest")
        yield s

# ---- rolling hash

def rh_state(s, J):
    L = layout()
    return s.o(L["struct isal_rh_state2.size"], 64, J.next() >> 8)


def rh_dump(s, st, w):
    L = layout()
    s.d(st, L["struct isal_rh_state2.table1"], 2048, "table1")
    s.d(st, L["struct isal_rh_state2.table2"], 2048, "table2")
    s.d(st, L["struct isal_rh_state2.hash"], 8, "hash")
    s.d(st, L["struct isal_rh_state2.w"], 4, "w")
    s.d(st, L["struct isal_rh_state2.history"], w, "history[0,w)")


def g_rh(p, D, J, mode, tier="quick"):
    pre = p.get("pre") or ""
    isal = pre == "isal_"
    kind = p["kind"]
    s_init, s_reset, s_run = pre + "rolling_hash2_init", pre + "rolling_hash2_reset", pre + "rolling_hash2_run"
    ws = [1, 2, 15, 16, 17, 32, 48]
    if kind == "rh_init":
        classes = [("w%d" % w, w) for w in ws] + [("w_too_big", 65)] + ([("null_state", 16)] if isal else [])
    elif kind == "rh_reset":
        classes = [("w%d" % w, w) for w in ws] + ([("null_state", 16), ("null_init", 16)] if isal else [])
    else:
        classes = [("w%d_len%d_%s" % (w, n, h), w, n, h) for w in (1, 16, 48) for n in sorted({0, 1, w - 1 if w > 1 else 2, w, w + 1, w + 2, 2 * w + 1, 200, 201})
                   for h in (("nohit", "hit") if n > 0 else ("nohit",))]
        if isal:
            classes += [(c, 16, 64, "nohit") for c in ("null_state", "null_buffer", "null_offset", "null_match")]
    for c in classes:
        cls, w = c[0], c[1]
        s = Script("%s.%s" % (p["sym"], cls))
        prologue(s, J)
        st = rh_state(s, J)
        ib = s.o(64, 16, D.bytes(64))
        if kind == "rh_init":
            s.call(p["sym"], None if cls == "null_state" else (st, 0), w, cls=cls, ret="int")
            if not cls.startswith("null") and cls != "w_too_big":
                s.u(s_reset.replace("isal_", "_") if isal else s_reset, (st, 0), (ib, 0))
                rh_dump(s, st, w)
        elif kind == "rh_reset":
            s.u("_rolling_hash2_init", (st, 0), w)
            a = [(st, 0), (ib, 0)]
            if cls.startswith("null_"):
                a[["null_state", "null_init"].index(cls)] = None
            s.call(p["sym"], *a, cls=cls, ret="int" if isal else "void")
            if not cls.startswith("null"):
                rh_dump(s, st, w)
        else:
            n, hit = c[2], c[3]
            s.u("_rolling_hash2_init", (st, 0), w)
            s.u("_rolling_hash2_reset", (st, 0), (ib, 0))
            buf = s.o(max(n, 1), 16, D.bytes(max(n, 1)), off=D.below(16))
            off = s.o(8, 8, J.next() >> 8)
            mt = s.o(8, 8, J.next() >> 8)
            mask, trig = (0xffffffff, 0x12345) if hit == "nohit" else (0x7, D.below(8))
            if isal:
                a = [(st, 0), (buf, 0), n, mask, trig, (off, 0), (mt, 0)]
                if cls.startswith("null_"):
                    a[{"null_state": 0, "null_buffer": 1, "null_offset": 5, "null_match": 6}[cls]] = None
                s.call(p["sym"], *a, cls=cls, ret="int")
                if not cls.startswith("null_"):
                    s.d(mt, 0, 4, "match")
            else:
                s.call(p["sym"], (st, 0), (buf, 0), n, mask, trig, (off, 0), cls=cls, ret="int")
            if not cls.startswith("null_"):
                s.d(off, 0, 4, "offset")
                rh_dump(s, st, w)
        yield s


def g_rh_until(p, D, J, mode, tier="quick"):
    """uint64 f(uint32 *idx, int max_idx, u64 *t1, u64 *t2, u8 *b1, u8 *b2, u64 h, u64 mask, u64 trigger)"""
    for (n, hit) in [(0, 0), (1, 0), (2, 0), (3, 1), (64, 0), (65, 1), (200, 1), (201, 0)]:
        s = Script("%s.len%d_%s" % (p["sym"], n, "hit" if hit else "nohit"))
        prologue(s, J)
        w = 16
        idx = s.o(8, 8, "z")
        t1 = s.o(2048, 64, D.bytes(2048))
        t2 = s.o(2048, 64, D.bytes(2048))
        buf = s.o(w + max(n, 1) + 8, 16, D.bytes(w + max(n, 1) + 8))
        mask, trig = (0xffffffff, 0x12345) if not hit else (0x7, D.below(8))
        s.call(p["sym"], (idx, 0), n, (t1, 0), (t2, 0), (buf, w), (buf, 0), D.next(), mask, trig, cls="len%d_%s" % (n, "hit" if hit else "nohit"), ret="u64")
        s.d(idx, 0, 4, "idx")
        yield s


def g_maskgen(p, D, J, mode, tier="quick"):
    isal = p.get("pre") == "isal_"
    for mean, shift in [(0, 0), (1, 0), (4096, 5), (65536, 31), (1 << 31, 3)]:
        s = Script("%s.mean%d_shift%d" % (p["sym"], mean, shift))
        prologue(s, J)
        if isal:
            mo = s.o(8, 8, J.next() >> 8)
            s.call(p["sym"], mean, shift, (mo, 0), cls="mean%d" % mean, ret="int")
            s.d(mo, 0, 4, "mask")
        else:
            s.call(p["sym"], mean, shift, cls="mean%d" % mean, ret="u32")
        yield s
    if isal:
        s = Script("%s.null_mask" % p["sym"])
        prologue(s, J)
        s.call(p["sym"], 4096, 3, None, cls="null_mask", ret="int")
        yield s


def g_noarg(p, D, J, mode, tier="quick"):
    s = Script("%s.call" % p["sym"])
    prologue(s, J)
    s.call(p["sym"], cls="first", ret="int" if p["kind"] == "noarg_int" else "ptr")
    if p["sym"] == "asm_check_self_tests_status":
        # the first call claimed the run (NOT_DONE -> RUNNING, returns 2); a second one would spin
        # until the claimant reports: report, then observe the "done" exit
        s.u("asm_set_self_tests_status", 0)
        s.call(p["sym"], cls="after_done", ret="int")
        s.u("asm_set_self_tests_status", 1)
        s.call(p["sym"], cls="after_fail", ret="int")
    else:
        s.call(p["sym"], cls="second", ret="int" if p["kind"] == "noarg_int" else "ptr")
    yield s


def g_set_status(p, D, J, mode, tier="quick"):
    s = Script("%s.call" % p["sym"])
    prologue(s, J)
    for v in (1, 2, 0):
        s.call(p["sym"], v, cls="set%d" % v, ret="void")
        s.u("asm_check_self_tests_status")
    yield s


GEN = {"keyexp": g_keyexp, "keyexp_enc": g_keyexp, "gcm_pre": g_gcm_pre, "gcm_precomp": g_gcm_precomp, "gcm_init": g_gcm_init,
       "gcm_update": g_gcm_update, "gcm_final": g_gcm_final, "gcm_one": g_gcm_one, "cbc": g_cbc, "cbc_precomp": g_cbc_precomp,
       "xts": g_xts, "hash_ctx": g_hash_ctx, "hash_mb": g_hash_mb, "sha512_sse4": g_sha512_sse4, "mh": g_mh, "mh_block": g_mh_block,
       "mh_tail": g_mh_tail, "mh_single": g_mh_single, "sha_for_mh": g_sha_for_mh, "sha256_single_for_mh": g_sha256_single_for_mh,
       "murmur_block": g_murmur_block, "murmur_tail": g_murmur_tail, "rh_init": g_rh, "rh_reset": g_rh, "rh_run": g_rh,
       "rh_until": g_rh_until, "maskgen": g_maskgen, "noarg_int": g_noarg, "noarg_ptr": g_noarg, "set_status": g_set_status}
AES_KINDS = {"keyexp", "keyexp_enc", "gcm_pre", "gcm_precomp", "gcm_init", "gcm_update", "gcm_final", "gcm_one", "cbc", "cbc_precomp", "xts"}
TIERED = {"gcm_init", "gcm_update", "gcm_final", "gcm_one", "cbc", "cbc_precomp", "xts", "hash_ctx", "hash_mb", "sha512_sse4", "mh", "mh_block",
          "mh_tail", "mh_single", "sha_for_mh", "sha256_single_for_mh", "murmur_block", "murmur_tail", "rh_init", "rh_reset", "rh_run",
          "rh_until", "maskgen", "noarg_int", "noarg_ptr", "set_status"}


def scenarios(sym, dseed, jseed, mode="c19", tier="quick"):
    """all scenarios generated for one symbol.  dseed: declared-input seed, jseed: hidden-input seed"""
    p = classify(sym)
    if p is None or p["kind"] not in GEN:
        return []
    h = int(hashlib.sha256(sym.encode()).hexdigest()[:12], 16)
    D = vlib.SplitMix64(dseed * 1000003 + h)
    J = vlib.SplitMix64(jseed * 7919 + h + 1)
    g = GEN[p["kind"]]
    return list(g(p, D, J, mode, tier) if p["kind"] in TIERED else g(p, D, J, mode))

# ----------------------------------------------------------------------------- the two dynamic halves

def _inventory(text):
    typed, untyped, notcalled = {}, [], {}
    for sym in text:
        p = classify(sym)
        if p is None:
            untyped.append(sym)
        elif p["kind"] in WHY_NOT_CALLED:
            notcalled.setdefault(p["kind"], []).append(sym)
        else:
            typed[sym] = p
    return typed, untyped, notcalled


def abi_problems(abi):
    """'rbx:a:b,rsp:..' -> list of (register, before, after)"""
    if abi in ("ok", "?"):
        return []
    return [tuple(x.split(":")) for x in abi.split(",")]


def dynamic_c19(rep, tier, only=None, dispatch=True):
    """the dynamic half of C19: (1) every exported text symbol of the shipped (plain) build x
    argument classes, (2) with the hook build, the first call of every dispatched entry under
    every virtual CPUID preset.  Adds cases / violations / notes to rep."""
    r = dynamic_c19_plain(rep, tier, only)
    if dispatch:
        dynamic_c19_dispatch(rep, tier, only)
    return r


def dynamic_c19_plain(rep, tier, only=None):
    """every exported text symbol x argument classes; adds cases / violations to rep"""
    text, _ = archive_syms("plain")
    typed, untyped, notcalled = _inventory(text)
    exe = driver("plain")
    seed = vlib.seed()
    scripts = []
    for sym in typed:
        if only and not re.search(only, sym):
            continue
        for rnd in range(2 if tier == "quick" else 8):
            for s in scenarios(sym, seed * 31 + rnd, seed * 17 + rnd + 100, "c19", tier):
                if rnd:
                    s.sid += ".r%d" % rnd
                scripts.append(s)
    res = run_scripts(exe, scripts)
    per_sym, classes = {}, {}
    nviol = 0
    for s in scripts:
        r = res[s.sid]
        crashed = "crash" in r["flags"]
        bad = [f for f in r["flags"] if f.startswith(("nosym:", "bad", "arena-full")) or f == "<no-output"]
        if bad:
            rep.violation("trampoline harness error in scenario %s: %s" % (s.sid, bad), {"scenario": s.sid, "script": s.line()[:2000], "flags": bad}, {"kind": "harness", "scenario": s.sid}, no_input=True)
        for i, m in s.meta.items():
            c = r["calls"].get(i)
            if c is None:
                if crashed and i == len(r["calls"]) + len(r["ucalls"]):
                    # the call that never returned: either the callee faulted or it returned to a
                    # corrupted address (rsp not restored)
                    nviol += rep.violation("%s [%s] did not return (crash %s)" % (m["sym"], m["cls"], [f for f in r["flags"] if f.startswith("sig=")]),
                                           {"symbol": m["sym"], "class": m["cls"], "args": m["args"], "scenario": s.sid, "script": s.line()[:4000]},
                                           {"symbol": m["sym"], "what": "crash"})
                continue
            per_sym[m["sym"]] = per_sym.get(m["sym"], 0) + 1
            classes.setdefault(m["sym"], set()).add(re.sub(r"#\d+", "#", m["cls"]) + ("/ret0" if c["ret"] == "0" else "/ret"))
            rep.case((m["sym"], m["cls"], s.sid), True)
            for reg, before, after in abi_problems(c["abi"]):
                nviol += rep.violation("%s [%s]: %s not preserved: %s before, %s after" % (m["sym"], m["cls"], reg, before, after),
                                       {"symbol": m["sym"], "class": m["cls"], "args": m["args"], "register": reg, "before": before, "after": after,
                                        "scenario": s.sid, "call_index": i, "script": s.line()[:4000]},
                                       {"symbol": m["sym"], "what": reg})
    not_exercised = sorted(sym for sym in typed if sym not in per_sym and not (only and not re.search(only, sym)))
    for sym in not_exercised:
        # a symbol of a triple generated from its `init`/`flush` sibling is exercised there
        pass
    rep.notes["c19_dynamic"] = {
        "exported_text_symbols": len(text), "typed_and_called": len(per_sym), "observed_calls": sum(per_sym.values()),
        "scenarios": len(scripts),
        "untyped_uncovered": untyped,
        "typed_but_no_observed_call": not_exercised,
        "not_called_directly": {k: {"why": WHY_NOT_CALLED[k], "count": len(v), "symbols": v if k != "data" else v[:6] + ["..."]} for k, v in notcalled.items()},
        "classes_per_symbol_min_max": [min((len(v) for v in classes.values()), default=0), max((len(v) for v in classes.values()), default=0)],
    }
    if untyped:
        rep.violation("exported text symbols without a prototype in checks/tramp.py (uncovered): %s" % untyped[:20],
                      {"uncovered": untyped}, {"kind": "untyped"}, no_input=True)
    if not_exercised and not only:
        rep.violation("typed symbols no scenario called: %s" % not_exercised[:20], {"not_exercised": not_exercised}, {"kind": "not_exercised"}, no_input=True)
    return per_sym, classes


PRESETS = ["base", "sse", "avx", "avx2", "avx512", "avx512g2", "sse_ni", "avx512_ni", "host"]


def dynamic_c19_dispatch(rep, tier, only=None):
    """dispatcher first call under every virtual CPUID preset (hook build): every dispatched
    entry is called for the first time in a fresh process whose CPUID/XGETBV are presented by
    harness/vcpuid.S, so the observed call runs <entry>_mbinit -> <entry>_dispatch_init (a
    different push/pop ladder and a different exit per preset) -> the bound family routine."""
    text, disp = archive_syms("hook")
    exe = driver("hook")
    seed = vlib.seed()
    entries = [d[:-len("_dispatched")] for d in disp]
    scripts, owner = [], {}
    for e in entries:
        if only and not re.search(only, e):
            continue
        sc = scenarios(e, seed * 53, seed * 59 + 300, "c19", "quick")
        pick = [s for s in sc if not re.search(r"null|err_|bad_|len_not|len15|len_over|w_too_big", s.sid)][: (2 if tier == "quick" else 6)]
        for s in pick:
            for pz in PRESETS:
                import copy
                t = copy.deepcopy(s)
                t.sid = "%s@%s" % (s.sid, pz)
                t.c.insert(0, "v " + pz)
                for sym in sorted({m["sym"] for m in t.meta.values()}):
                    if sym in entries:
                        t.c.append("b " + sym)
                scripts.append(t)
                owner[t.sid] = pz
    res = run_scripts(exe, scripts)
    bound, seen = {}, set()
    for t in scripts:
        r = res[t.sid]
        pz = owner[t.sid]
        if "crash" in r["flags"]:
            rep.violation("dispatcher first call under preset %s: scenario %s crashed %s" % (pz, t.sid, [f for f in r["flags"] if f.startswith("sig=")]),
                          {"scenario": t.sid, "preset": pz, "script": t.line()[:4000]}, {"kind": "dispatch-crash", "scenario": t.sid.split("@")[0], "preset": pz})
        for bsym in r.get("bound", []):
            bound.setdefault(pz, {}).setdefault(bsym.rsplit("_", 1)[-1] if False else bsym, 0)
            bound[pz][bsym] += 1
        first = set()
        for i, m in sorted(t.meta.items()):
            c = r["calls"].get(i)
            if c is None:
                continue
            is_first = m["sym"] in entries and m["sym"] not in first
            first.add(m["sym"])
            if is_first:
                seen.add((m["sym"], pz))
            rep.case((m["sym"], m["cls"], t.sid), True)
            for reg, before, after in abi_problems(c["abi"]):
                rep.violation("%s [%s, %s under CPUID preset %s]: %s not preserved: %s before, %s after" % (
                                  m["sym"], m["cls"], "dispatcher first call" if is_first else "bound call", pz, reg, before, after),
                              {"symbol": m["sym"], "class": m["cls"], "preset": pz, "first_call": is_first, "args": m["args"], "register": reg,
                               "before": before, "after": after, "scenario": t.sid, "script": t.line()[:4000]},
                              {"symbol": m["sym"], "what": reg, "preset": pz})
    missing = sorted(e for e in entries if not (only and not re.search(only, e)) and any((e, pz) not in seen for pz in PRESETS))
    rep.notes["c19_dispatch_first_call"] = {"dispatched_entries": len(entries), "presets": PRESETS, "first_calls_observed": len(seen),
                                            "entries_without_first_call_under_some_preset": missing,
                                            "families_bound_per_preset": {pz: len(v) for pz, v in bound.items()}}
    if missing:
        rep.violation("dispatched entries whose first call was not observed under every preset: %s" % missing[:10], {"missing": missing},
                      {"kind": "dispatch-coverage"}, no_input=True)
    return seen


def leak_where(item):
    """'zmm4.0:K.dec1' -> ('xmm4' | 'zmm4.hi' | 'stack', secret label)"""
    loc, _, lab = item.partition(":")
    if loc.startswith("zmm"):
        r, lane = loc[3:].split(".")
        return ("xmm" + r if lane == "0" else "zmm%s.lane%s" % (r, lane)), lab
    return "stack", lab


def oracle_crosscheck(rep):
    """Tighten the trusted base of the scan: every key-derived secret the Python oracle
    (lib/tramp_aesref.py) produced for this run — encryption schedule, equivalent-inverse-cipher
    decryption schedule, H = E(K,0^128), E(K2,tweak) and its multiples by alpha — must equal what
    the EXTRACTED Coq spec computes (Spec/AES.v key_expansion / dec_schedule / cipher, Spec/XTS.v
    xts_tweak0 / xts_mul_alpha through Extract/Aesmodes.v and ocaml/secrets_driver.ml;
    Spec/GCM.v gcm_hash_key_rk through Extract/Gcm.v and ocaml/secretsh_driver.ml).  Any
    mismatch, missing line or build failure is a broken correspondence, never a pass."""
    name = "c14_secrets_oracle_vs_coq_spec"
    def broken(what, detail):
        rep.violation("%s: %s" % (name, what), dict({"correspondence": name, "what": what}, **detail), {"kind": name}, no_input=True)
    try:
        ok, log = vlib.coq_make(["Extract/Aesmodes.vo", "Extract/Gcm.vo"], timeout=1200)
        if not ok:
            raise RuntimeError("extraction build failed: %s" % vlib.first_coq_error(log))
        exe_a = vlib.ocaml_driver("secrets", "Aesmodes")
        exe_h = vlib.ocaml_driver("secretsh", "Gcm")
    except Exception as e:      # noqa: a check that cannot run proves nothing
        broken("the extracted Coq spec could not be built", {"error": str(e)[-1500:]})
        rep.notes["secrets_oracle_crosschecked_keys"] = 0
        return 0
    keys = sorted(ORACLE["keys"].items())
    hs = sorted(ORACLE["h"].items())
    tws = sorted(ORACLE["tweaks"].items())
    lines = ["K k%d %s" % (i, k.hex()) for i, (k, _) in enumerate(keys)]
    lines += ["T t%d %s %s %d" % (i, k2.hex(), tw.hex(), len(ch) - 1) for i, ((k2, tw), ch) in enumerate(tws)]
    out_a, _ = vlib.run_driver(exe_a, "\n".join(lines), timeout=900) if lines else ({}, "")
    out_h, _ = vlib.run_driver(exe_h, "\n".join("H h%d %s" % (i, k.hex()) for i, (k, _) in enumerate(hs)), timeout=900) if hs else ({}, "")
    nbad = 0
    sizes = {}
    for i, (k, (e, d)) in enumerate(keys):
        sizes[8 * len(k)] = sizes.get(8 * len(k), 0) + 1
        t = out_a.get("k%d" % i, "").split()
        got = dict(zip(t[1::2], t[2::2]))
        exp = {"enc": b"".join(e).hex(), "dec": b"".join(d).hex()}
        for f in ("enc", "dec"):
            if got.get(f) != exp[f] and nbad < 5:
                nbad += 1
                broken("%s schedule of a %d-bit key differs" % (f, 8 * len(k)), {"key": k.hex(), "python_oracle": exp[f], "coq_spec": got.get(f, "<no output: %s>" % " ".join(t)[:200])})
    for i, (k, h) in enumerate(hs):
        t = out_h.get("h%d" % i, "").split()
        if (len(t) != 2 or t[1] != h.hex()) and nbad < 5:
            nbad += 1
            broken("H = E(K,0^128) differs", {"key": k.hex(), "python_oracle": h.hex(), "coq_spec": " ".join(t)[:200]})
    for i, ((k2, tw), ch) in enumerate(tws):
        t = out_a.get("t%d" % i, "").split()[1:]
        if t != [c.hex() for c in ch] and nbad < 5:
            nbad += 1
            j = next((j for j, (a, b) in enumerate(zip(t, ch)) if a != b.hex()), min(len(t), len(ch)))
            broken("E(K2,tweak)*alpha^%d differs" % j, {"k2": k2.hex(), "tweak": tw.hex(), "python_oracle": ch[j].hex() if j < len(ch) else None,
                                                       "coq_spec": t[j] if j < len(t) else "<missing>"})
    rep.notes["secrets_oracle_crosschecked_keys"] = len(keys)
    rep.notes["secrets_oracle_crosscheck"] = {
        "correspondence": name, "keys_by_size_bits": dict(sorted(sizes.items())), "hash_subkeys": len(hs),
        "xts_tweak_chains": len(tws), "xts_tweak_blocks": sum(len(c) for _, c in tws), "mismatches": nbad,
        "coq_side": "extracted Spec/AES.v key_expansion, dec_schedule, cipher; Spec/XTS.v xts_tweak0, xts_mul_alpha (Extract/Aesmodes.v, "
                    "ocaml/secrets_driver.ml); Spec/GCM.v gcm_hash_key_rk (Extract/Gcm.v, ocaml/secretsh_driver.ml)"}
    rep.obligation(name, nbad == 0, "%d keys, %d hash subkeys, %d tweak chains compared with the extracted Coq spec" % (len(keys), len(hs), len(tws)))
    return len(keys)


def dynamic_c14(rep, tier, only=None):
    text, _ = archive_syms("plain")
    typed, untyped, notcalled = _inventory(text)
    exe = driver("plain")
    seed = vlib.seed()
    scripts = []
    for v in ORACLE.values():
        v.clear()
    for sym, p in typed.items():
        if p["kind"] not in AES_KINDS or (only and not re.search(only, sym)):
            continue
        for rnd in range(1 if tier == "quick" else 2):
            for s in scenarios(sym, seed * 37 + rnd, seed * 13 + rnd + 200, "c14", tier):
                if rnd:
                    s.sid += ".r%d" % rnd
                scripts.append(s)
    import concurrent.futures as cf
    with cf.ThreadPoolExecutor(1) as ex:      # the Coq-spec cross-check runs beside the native run
        fut = ex.submit(oracle_crosscheck, rep)
        res = run_scripts(exe, scripts)
        fut.result()
    found = {}
    per_sym = {}
    for s in scripts:
        r = res[s.sid]
        if "crash" in r["flags"]:
            rep.violation("scenario %s crashed %s" % (s.sid, r["flags"]), {"scenario": s.sid, "script": s.line()[:4000]}, {"kind": "crash", "scenario": s.sid}, no_input=True)
        for i, m in s.meta.items():
            c = r["calls"].get(i)
            if c is None or not m.get("aes") or c["leak"] is None:
                continue
            per_sym[m["sym"]] = per_sym.get(m["sym"], 0) + 1
            rep.case((m["sym"], m["cls"], s.sid), True)
            byloc = {}
            for item in c["leak"]:
                loc, lab = leak_where(item)
                cl = "stack" if loc == "stack" else loc
                byloc.setdefault(cl, []).append(item)
            for cl, items in byloc.items():
                key = (m["sym"], cl)
                if key not in found:
                    found[key] = {"symbol": m["sym"], "where": cl, "class": m["cls"], "args": m["args"], "found": items[:12],
                                  "scenario": s.sid, "call_index": i, "script": s.line()[:6000]}
                    found[key]["n_classes"] = 0
                found[key]["n_classes"] += 1
    for (sym, cl), rp in sorted(found.items()):
        rep.violation("%s leaves key material in %s after return (class %s): %s" % (sym, cl, rp["class"], ", ".join(rp["found"][:4])),
                      rp, {"symbol": sym, "where": cl})
    rep.notes["c14_dynamic"] = {"aes_entry_points_scanned": len(per_sym), "observed_calls": sum(per_sym.values()), "scenarios": len(scripts),
                                "distinct_leak_sites": len(found),
                                "leak_sites": [{"symbol": k[0], "where": k[1], "first_class": v["class"], "classes_hit": v["n_classes"], "found": v["found"][:4]}
                                               for k, v in sorted(found.items())],
                                "secrets_oracle": "lib/tramp_aesref.py (plain FIPS-197 reference in Python, self-checked against FIPS-197 "
                                                  "appendix vectors on import, and cross-checked on every key of every run against the extracted "
                                                  "Coq spec: see secrets_oracle_crosscheck): raw key blocks, all round keys of the encryption and the "
                                                  "equivalent-inverse-cipher decryption schedule, H = E(K,0), E(K2,tweak)*alpha^j; GHASH key "
                                                  "powers are taken as every 16-byte block of the key_data the call produced",
                                "scan": "every 16-byte window of zmm0-31 (4 lanes each) and every byte offset of the private stack below the call's rsp (508 KiB)"}
    return found


def main():
    import argparse
    ap = argparse.ArgumentParser()
    ap.add_argument("what", choices=["c19", "c14", "c19d", "list"])
    ap.add_argument("--tier", default=None)
    ap.add_argument("--only", default=None)
    a = ap.parse_args()
    t = vlib.tier(a.tier)
    if a.what == "list":
        text, _ = archive_syms("plain")
        typed, untyped, notcalled = _inventory(text)
        print("typed %d untyped %d %s" % (len(typed), len(untyped), {k: len(v) for k, v in notcalled.items()}))
        print("untyped:", untyped)
        return 0
    pid = {"c19": "C19dyn", "c14": "C14dyn", "c19d": "C19dyn"}[a.what]
    rep = vlib.Report(pid, "exploration", t, "python3 checks/tramp.py " + a.what)
    # known findings are keyed by the real property id
    rep_pid = pid[:3]
    rep.match_known_orig = rep.match_known
    def mk(sig, _rep=rep, _pid=rep_pid):
        for k in _rep.kf.get("known", []):
            if k.get("property") == _pid and all(str(sig.get(x)) == str(y) for x, y in k.get("match", {}).items()):
                return k
        return None
    rep.match_known = mk
    if a.what == "c19":
        dynamic_c19(rep, t, a.only)
    elif a.what == "c19d":
        dynamic_c19_dispatch(rep, t, a.only)
    else:
        dynamic_c14(rep, t, a.only)
    return rep.finish()


if __name__ == "__main__":
    sys.exit(main())
