"""C05 — mh_sha1 / mh_sha256 equal the multi-hash definition for any update segmentation,
alignment and family.

Coq: Properties/C05.v (for every partition of a stream < 2^32 bytes into update calls the model's
init/update*/finalize equals Spec/MH.v's mh_sha1 / mh_sha256; the interleaved block function is 16
independent compression chains on the dealt words; split independence).
Tie: white-box correspondence of the extracted model with _mh_sha{1,256}_{update,finalize}_<family>
for the five families, the public isal_mh_* through the real dispatcher under virtual CPUID
presets, and the legacy names: context fields after every update; digests against the L0 spec."""
import os, sys
sys.path.insert(0, os.path.dirname(os.path.abspath(__file__)))
import mhlib

DRIVERS = [("mh", "Mh")]


def gen():
    return {}


def run(tier, replay=None):
    rep = mhlib.run_property("C05", ["sha1", "sha256"], tier, replay, n_quick=800, n_thorough=16000, rng_salt=5,
                             extra_assumptions=[])
    rep.cov["rule"] = ("cases = (algorithm in {mh_sha1, mh_sha256}, stream <= 8 KiB (thorough 16 KiB), partition into update calls, "
                       "placement of every input and of the context) x families {base,sse,avx,avx2,avx512} direct entry points, and every 3rd "
                       "case also through isal_mh_* under 5 virtual CPUID presets + legacy names; stream lengths from the boundary set "
                       "{0,1,..,1015,1016,1017,1023,1024,1025,2039..2049,3071..3073,4095..4097} mixed with uniform; partitions: single, cuts at "
                       "{0,1,63..65,1007..1025,2047..2049,...}, partial p then 1024-p-1 / 1024-p / 1024-p+1 (also +1024), random cuts, zero-length "
                       "updates, up to 1500 tiny updates, 16-byte-granular cuts; plus 33 state-injection cases per algorithm (total_length around 2^29, 2^30, 2^31, 2^32 - 5 KiB, random interim digests, short suffix) "
                       "and 2 real streams of 2^29 / 2^29 + r bytes per algorithm (thorough: up to 2^32 - 1 KiB) whose expected value is the model "
                       "continued from the context observed after the natively hashed prefix; distinct = distinct (case, family); non-trivial = non-empty stream")
    return rep.finish()
