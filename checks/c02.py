"""C02 — AES-GCM one-shot output equals NIST SP 800-38D for every length, AAD, tag size.

Coq: Properties/C02.v (the model's one-shot = gcm_ae / gcm_ad of Spec/GCM.v for every key of 16
or 32 bytes, 12-byte IV, AAD, data, tag length; decryption inverts encryption).
Tie: every family entry point _aes_gcm_{enc,dec}_{128,256}_<family>[_nt], the public isal_ entry
points through the dispatcher under every virtual CPUID preset and the legacy names, against
the extracted Spec (observable: output, tag, round trip, guard pages, canaries) and against the
extracted model (white-box: context after init and after the update, through the family's
streaming entry points)."""
import json, os, sys
import vlib
sys.path.insert(0, os.path.dirname(os.path.abspath(__file__)))
import gcmlib as G

AAD_SET = list(range(0, 34)) + [47, 48, 49, 63, 64, 65, 127, 128, 129, 255, 256, 257]
LEN_LOOP = sorted({k * b + r for b in (128, 256, 768) for k in (1, 2, 3) for r in range(17)})
COMBOS = [(16, 1), (32, 0), (32, 1), (16, 0)]      # (key bytes, enc)


def mk(rng, n, alen, combo, aim):
    ks, enc = combo
    return {"key": rng.bytes(ks), "iv": rng.bytes(12), "aad": rng.bytes(alen), "data": rng.bytes(n), "enc": enc,
            "tag": rng.choice([8, 12, 16]), "segs": None, "aim": aim}


def pick_aad(rng):
    r = rng.below(10)
    if r < 5:
        return rng.choice(AAD_SET)
    if r < 7:
        return 0
    return rng.below(96)


def gen_cases(rng, tier, scale=1):
    cases = []
    ncombo = 4
    for n in range(0, 17 * 16 + 1):                       # every length 0..272
        for j in range(ncombo * scale):
            cases.append(mk(rng, n, pick_aad(rng), COMBOS[(n + n // 16 + 2 * j + j // 2) % 4], "len 0..272"))
    for idx, n in enumerate(LEN_LOOP):                    # around the by-8 / by-16 / by-48 loops
        for j in range((2 if tier == "quick" else 4) * scale):
            cases.append(mk(rng, n, pick_aad(rng), COMBOS[(idx + j) % 4], "k*{128,256,768}+0..16"))
    for idx, a in enumerate(AAD_SET):                     # every AAD length of the boundary set
        for j in range(2 * scale):
            cases.append(mk(rng, rng.choice([0, 1, 15, 16, 17, 31, 32, 33, 48]) if j else rng.below(49), a,
                            COMBOS[(idx + 2 * j) % 4], "aad boundary set"))
    # counter-byte carry: J0 ends in 00000001, data block i uses counter 1+i, so the LOW BYTE of the
    # big-endian counter wraps at block 255, 511, ...  Every family adds to that byte without carry
    # on a fast path and takes a slow path when a group of 8/16/48 blocks would overflow it: block
    # counts 239..257 and 495..513 put the wrap exactly at the end of the last group, at every
    # position inside it, and inside a main-loop group (tails 0, 1, 15 bytes)
    for base in (239, 495):
        for nb in range(base, base + 19):
            near = nb % 256 in (254, 255, 0, 1)
            tails = (0, 1, 15) if (tier != "quick" or base == 239 or near) else ((0, 1, 15)[nb % 3],)
            for t in tails:
                for j in range((1 if tier == "quick" else 2) * scale):
                    cases.append(mk(rng, 16 * nb + t, rng.choice([0, 0, 5, 16, 20]), COMBOS[(nb + t + j) % 4],
                                    "counter low-byte carry (blocks 239..257, 495..513)"))
    for j in range({"quick": 80, "thorough": 1500}[tier] * scale):
        cases.append(mk(rng, rng.below(4097), pick_aad(rng), COMBOS[j % 4], "len uniform <= 4096"))
    for j in range({"quick": 80, "thorough": 1200}[tier] * scale):
        cases.append(mk(rng, rng.below(200), rng.below(1025), COMBOS[j % 4], "aad uniform <= 1024"))
    return cases


def gen():
    return {}


DRIVERS = [("gcm", "Gcm")]

ORACLE = "Spec.GCM.gcm_ae_rk / gcm_ad_rk (SP 800-38D) extracted from Coq"


def distribution(cases):
    d = {"len_mod_16": {}, "len_bucket": {}, "aad_len_bucket": {}, "tag": {}, "key_bits/dir": {}, "aim": {}}
    for c in cases:
        n, a = len(c["data"]), len(c["aad"])
        G.bump(d["len_mod_16"], n % 16)
        G.bump(d["len_bucket"], "0" if n == 0 else "1-15" if n < 16 else "16-127" if n < 128 else "128-255" if n < 256 else
               "256-767" if n < 768 else "768-2047" if n < 2048 else "2048-3807" if n < 3808 else "3808-4127 (blocks 238..257)" if n < 4128 else
               "4128-7903" if n < 7904 else ">=7904 (blocks 494..513)")
        G.bump(d["aad_len_bucket"], "0" if a == 0 else "1-15" if a < 16 else "16" if a == 16 else "17-63" if a < 64 else
               "64-257" if a < 258 else ">257")
        G.bump(d["tag"], c["tag"])
        G.bump(d["key_bits/dir"], "%d/%s" % (8 * len(c["key"]), "enc" if c["enc"] else "dec"))
        G.bump(d["aim"], c["aim"])
    return {k: dict(sorted(v.items(), key=lambda kv: str(kv[0]))) for k, v in d.items()}


def run(tier, replay=None):
    rep = vlib.Report("C02", "proof", tier, "cd coq && make Properties/C02.vo  (coqc 8.16.1, full .vo build)")
    rng = vlib.SplitMix64(vlib.seed() * 1000003 + 2)
    ok, broken = vlib.coq_step(rep, "C02", gen(), extract="Gcm")
    runner = G.Runner()
    G.family_inventory(rep)
    if replay:
        r = json.load(open(replay))["replay"]
        if "segs" not in r and "aad_len" in r and "zero bytes" in str(r.get("aad")):
            G.long_aad_probe(rep, runner, rng, "C02")
            return rep.finish()
        c, v = G.case_from_json(r)
        c["segs"] = None
        oc = G.evaluate(rep, runner, [c], G._FixedVariant(v), "C02")
        G.report_observables(rep, runner, oc, "C02", ORACLE, max_min=0)
        for c, v, detail in oc.wb[:1]:
            rep.violation("white-box: " + detail, {"correspondence": "context vs model", "detail": detail, "case": G.case_json(c, v)}, no_input=True)
        return rep.finish()
    cases = G.corpus("C02", False) + gen_cases(rng, tier)
    oc = G.evaluate(rep, runner, cases, rng, "C02")
    G.check_bindings(rep, oc)
    nobs = G.report_observables(rep, runner, oc, "C02", ORACLE)
    G.long_aad_probe(rep, runner, rng, "C02")
    searched = len(cases)
    if (not ok or oc.wb) and not rep.violations:
        # an obligation or the white-box tie is broken but the outputs are clean so far: larger search
        more = gen_cases(vlib.SplitMix64(vlib.seed() * 7919 + 202), tier, scale=2)
        oc2 = G.evaluate(rep, runner, more, rng, "C02")
        searched += len(more)
        G.report_observables(rep, runner, oc2, "C02", ORACLE)
    for k, c in enumerate(cases[:400:57]):
        rep.sample({"case": G.model_line("c", c)[:300], "variants": [G.vname(v) for v in G.variants(vlib.SplitMix64(k), c, k)][:6]})
    rep.cov["traces_validated_against_impl"] = oc.nvariants
    rep.cov["rule"] = ("case = (key 128/256, 12-byte IV, AAD, data, enc/dec, tag 8/12/16); every case is run on: each of the 4 families "
                       "(regular entry point with every buffer flush against an inaccessible page, regular with random in-place/offset "
                       "placement, _nt with 64-byte aligned buffers), the public isal_ entry point and the legacy name under a rotating "
                       "virtual CPUID preset (regular and _nt); lengths: every len 0..272, k*{128,256,768}+0..16 (k=1..3), uniform <= 4096, "
                       "block counts 239..257 and 495..513 with tails 0/1/15 (the low byte of the counter wraps at the end of / inside the "
                       "last group / inside a main-loop group); "
                       "AAD lengths: every value of {0..33,47..49,63..65,127..129,255..257}, uniform <= 1024; every encryption is also "
                       "decrypted by the same implementation; plus AAD of 2^29-1 / 2^29 zero bytes on every family; "
                       "distinct = distinct (case, implementation variant, placement); non-trivial = len + aad_len > 0")
    rep.notes["input_distribution"] = dict(distribution(cases), **oc.dist)
    rep.notes["modelled_bytes"] = sum(len(c["data"]) + len(c["aad"]) for c in cases)
    if not ok and not rep.violations:
        rep.violation("Coq obligation no longer checks: %s" % broken,
                      {"theorem_or_file": broken, "correspondence": "outputs clean on %d cases against SP 800-38D" % searched}, no_input=True)
    if oc.wb and not rep.violations:
        c, v, detail = oc.wb[0]
        rep.violation("model/code correspondence broken (context fields) but no wrong output found on %d cases: %s %s" % (searched, G.vname(v), detail),
                      {"correspondence": "isal_gcm_context_data after init / update vs Model.GcmStream", "family": v[0], "detail": detail,
                       "case": G.case_json(c, v), "differences": len(oc.wb)}, no_input=True)
    rep.assumptions = ["the four assembly families are modelled by one Gallina function per entry point; they are tied to it only on the generated cases",
                       "GHASH reduction / carry-less multiply defects that need particular data are sampled (random data), not excluded",
                       "lengths above 8.2 KiB, AAD above 1 KiB (other than the 2^29 zero-byte probe) are not exercised; the 32-bit counter wrap itself needs 2^32 blocks (64 GiB) with a 12-byte IV and is not reachable",
                       "the context left by a one-shot call is not compared (the vaes_avx512 one-shot does not maintain it); the context after finalize is not compared",
                       "a fault, a clobbered canary or a modified input buffer is reported as a violation of this property"]
    return rep.finish()
