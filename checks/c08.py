"""C08 — no access outside caller-supplied byte ranges; inputs never modified.

Two halves (DESIGN §4 C08; the property is `partial`):
 1. Coq (Properties/C08.v): footprint-emitting twins of the C-level index logic (rolling-hash
    indices, memcpy_inline.h size classes regenerated from the header into Gen/MemcpyGen.v,
    hash context layer buffer consumption and hash_pad, multi-hash carry) with theorems for
    ALL lengths that every emitted index/range is inside the caller's buffer.
 2. Guard-page correspondence (harness/guard_drv.c) — the part that reaches the assembly:
    every typed symbol of the freshly built archive (enumerated with nm, typed by naming
    pattern, untyped ones reported) x (length residue, magnitude) x shift x placement with every
    buffer in its own mapping between two PROT_NONE pages.  Enumeration, not proof."""
import hashlib, json, os, re, sys, time
import vlib
sys.path.insert(0, os.path.join(vlib.VERIF, "tr"))
import guard_syms

PID = "C08"
BLOCK = {0: 64, 1: 64, 2: 64, 3: 128, 4: 64}            # md5 sha1 sha256 sha512 sm3
MAXLANES = {0: 32, 1: 16, 2: 16, 3: 8, 4: 16}


def rng_list(*parts):
    """parts: ints or (a,b) inclusive or (a,b,step) -> driver list syntax"""
    out = []
    for p in parts:
        if isinstance(p, int):
            out.append(str(p))
        elif len(p) == 2:
            out.append("%d-%d" % p)
        else:
            out.append("%d-%d/%d" % p)
    return ",".join(out) if out else "-"


def count_list(s):
    if s == "-":
        return 0
    n = 0
    for t in s.split(","):
        m = re.match(r"^(\d+)-(\d+)(?:/(\d+))?$", t)
        if m:
            a, b, st = int(m.group(1)), int(m.group(2)), int(m.group(3) or 1)
            n += (b - a) // st + 1 if b >= a else 0
        else:
            n += 1
    return n


def expand_list(s):
    out = []
    if s == "-":
        return out
    for t in s.split(","):
        m = re.match(r"^(\d+)-(\d+)(?:/(\d+))?$", t)
        if m:
            out += list(range(int(m.group(1)), int(m.group(2)) + 1, int(m.group(3) or 1)))
        else:
            out.append(int(t))
    return out


SHIFTS = {"quick": rng_list((0, 63)), "thorough": rng_list((0, 63))}
SHIFTS_SMALL = {"quick": rng_list(0, 1, 2, 3, 4, 7, 8, 15, 16, 17, 31, 32, 33, 48, 63), "thorough": rng_list((0, 63))}
PLACES = "0,1"


def groups_for(r, tier):
    """-> list of (mode, lens, shifts, places, xa, xb, note) for one typed symbol"""
    op, q = r["op"], tier == "quick"
    sh, shs = SHIFTS[tier], SHIFTS_SMALL[tier]
    g = []
    if op in ("HASH_CTX", "HASH_API"):
        B = BLOCK[r["algo"]]
        nl = MAXLANES[r["algo"]] + 1
        lens0 = rng_list((0, 3 * B - 1), (8 * B - 2, 8 * B + 2)) if q else rng_list((0, 5 * B + 1), (16 * B - 2, 17 * B + 1))
        g.append((0, lens0, sh, PLACES, "-", "-", "one context: ENTIRE + flush"))
        g.append((1, rng_list((B, 2 * B - 1)) if q else rng_list((0, 2 * B - 1)), shs, PLACES, rng_list(2, 5, nl), rng_list(0, 1) if q else rng_list(0, 1, 2, 3),
                  "xa contexts in flight, each buffer in its own guarded mapping"))
        g.append((2, rng_list((0, B - 1)), shs, PLACES, rng_list(1, 17, B - 1, B, B + 1, 2 * B + 7), rng_list(0, 9),
                  "FIRST(len) UPDATE(xa) LAST(xb), flush after each"))
    elif op in ("MH", "MH_API"):
        g.append((0, rng_list((0, 127), (960, 1087), (2000, 2111)) if q else rng_list((0, 3200)), sh, PLACES, "-", "-", "init update(len) finalize"))
        g.append((1, rng_list((0, 63), (480, 543), (961, 1087)) if q else rng_list((0, 1100)), shs, PLACES, rng_list(1, 511, 1023), "-",
                  "init update(xa) update(len) finalize: carry branches"))
        if not q or r["fam"] in ("avx512", "api"):
            # (once the sum is evaluated in 64 bits this case really hashes 4 GiB: quick runs it on the fastest family and the public entry only)
            g.append((2, "4294967295", "0", "0" if q else PLACES, "1", "-", "uint32_t wrap of len + partial_block_len: update(xa = 1 byte) then update(len = 2^32-1 bytes of a read-only zero mapping)"))
    elif op == "MH_BLOCK":
        g.append((0, rng_list(0, 1024, 2048, 3072), rng_list((0, 63)), PLACES, "-", "-", "len/1024 blocks"))
    elif op == "MH_TAIL":
        g.append((0, rng_list((0, 63), (960, 1087), (2040, 2050)) if q else rng_list((0, 2100)), "0", PLACES, "-", "-", "total_len = len"))
    elif op == "SHA_FOR_MH":
        g.append((0, rng_list((0, 200)), sh, PLACES, "-", "-", ""))
    elif op == "MURMUR_BLOCK":
        g.append((0, rng_list((0, 160, 16)), rng_list((0, 63)), PLACES, "-", "-", ""))
    elif op == "MURMUR_TAIL":
        g.append((0, rng_list((0, 47)), rng_list((0, 63)), PLACES, "-", "-", ""))
    elif op in ("ROLL_UNTIL", "ROLL_API"):
        ws = rng_list(1, 2, 3, 8, 15, 16, 17, 31, 32, 47, 48) if q else rng_list((1, 48))
        xb = rng_list(0, 1, 2) if op == "ROLL_API" else "-"
        lens = rng_list((0, 200)) if q else rng_list((0, 330))
        for mode, note in ((0, "no hit"), (1, "hit at the last byte"), (2, "hit in the middle"), (3, "trigger 0")):
            g.append((mode, lens, shs if q else rng_list(0, 1, 8, 16, 32, 63), PLACES, ws, xb, note + "; xa = w" + ("; xb = scan kernel base/00/04" if xb != "-" else "")))
    elif op == "GCM_ONESHOT":
        lens = rng_list((0, 320), (760, 840), (1530, 1560)) if q else rng_list((0, 1700), (3060, 3110))
        if r["nt"]:
            g.append((0, lens, rng_list(0, 64), PLACES, rng_list(0, 13), rng_list(16, 12, 8), "NT: in/out 64-byte aligned; xa = aad_len, xb = tag_len"))
        else:
            g.append((0, lens, shs if q else sh, PLACES, rng_list(0, 13), rng_list(16, 12, 8), "xa = aad_len, xb = tag_len"))
    elif op == "GCM_INIT":
        g.append((0, rng_list((0, 200), (250, 260), (1020, 1030)) if q else rng_list((0, 1100)), sh, PLACES, "-", "-", "len = aad_len"))
    elif op == "GCM_UPDATE":
        lens = rng_list((0, 320), (768, 832)) if q else rng_list((0, 1700))
        if r["nt"]:
            g.append((0, lens, rng_list(0, 64), PLACES, rng_list(0, 64, 128), "-", "NT; xa = first piece (multiple of 64)"))
        else:
            g.append((0, lens, shs, PLACES, rng_list(0, 1, 15, 16, 17, 31), "-", "xa = first piece"))
    elif op == "GCM_FINALIZE":
        g.append((0, rng_list((0, 40)), shs, PLACES, rng_list(8, 12, 16), "-", "xa = tag_len"))
    elif op == "GCM_PRECOMP":
        g.append((0, "0", "0", PLACES, "-", "-", ""))
    elif op == "GCM_PRE":
        g.append((0, "0", rng_list((0, 63)), PLACES, "-", "-", "shift = key alignment"))
    elif op == "XTS":
        g.append((0, rng_list((16, 300), (512, 530), (1024, 1050)) if q else rng_list((16, 2100)), shs if q else sh, PLACES, "-", "-", ""))
    elif op in ("CBC_ENC", "CBC_DEC"):
        lens = rng_list((16, 640, 16), 1024, 2064) if q else rng_list((16, 2560, 16))
        g.append((0, lens, rng_list((0, 16)) if q else rng_list((0, 63)), PLACES, "-", "-", ""))
        g.append((0, "0", "0", PLACES, "-", "-", "len = 0"))
    elif op in ("KEYEXP", "KEYEXP_ENC"):
        g.append((0, "0", rng_list((0, 63)), PLACES, "-", "-", "shift = key alignment"))
    elif op == "CBC_PRECOMP":
        g.append((0, "0", rng_list((0, 63)), PLACES, rng_list(128, 192, 256), "-", "xa = key_size"))
    return g


def ncases(g):
    mode, lens, sh, pl, xa, xb, _ = g
    return count_list(lens) * count_list(sh) * count_list(pl) * max(1, count_list(xa)) * max(1, count_list(xb))


def split_group(g, maxc):
    """split a group's length list so that no driver line has more than ~maxc cases"""
    n = ncases(g)
    if n <= maxc:
        return [g]
    lens = expand_list(g[1])
    per = max(1, len(lens) * maxc // n)
    out = []
    for i in range(0, len(lens), per):
        out.append((g[0], ",".join(str(x) for x in lens[i:i + per])) + tuple(g[2:]))
    return out


def prepare(variant="hook"):
    """build, enumerate, type, generate the C tables, compile the driver"""
    d = vlib.build(variant)
    syms = guard_syms.nm_text_symbols(os.path.join(d, "isa-l_crypto.a"))
    rows, markers, untyped, helpers = guard_syms.classify(syms, vlib.REPO)
    calls, refs = guard_syms.call_graph(os.path.join(d, "obj"), syms)
    typed = [r for r in rows if r.get("op")]
    init_helpers = [r["sym"] for r in rows if not r.get("op")]
    call_targets = set().union(*calls.values()) if calls else set()
    trace = [u for u in untyped if u in call_targets or u.startswith("_") or u.startswith("isal_") or u.islower()]
    trace = [u for u in trace if not re.match(r"^[A-Z_0-9]+$", u)]
    gen = os.path.join(d, "guard_gen")
    os.makedirs(gen, exist_ok=True)
    t1, t2 = guard_syms.c_table(rows), guard_syms.c_trace(trace)
    vlib.write_if_changed(os.path.join(gen, "guard_syms.h"), t1)
    vlib.write_if_changed(os.path.join(gen, "guard_trace.h"), t2)
    h = hashlib.sha256((t1 + t2).encode()).hexdigest()[:12]
    exe = vlib.cc_harness("guard", ["guard_drv.c", "vcpuid.S"], variant, extra=("-I", gen, "-DGUARD_GEN_" + h, "-Wno-deprecated-declarations"))
    return {"dir": d, "syms": syms, "typed": typed, "markers": markers, "untyped": untyped, "helpers": helpers + init_helpers,
            "calls": calls, "refs": refs, "trace": trace, "exe": exe}


def parse_line(l):
    """driver output line -> dict"""
    parts = l.split(" | ")
    head = parts[0].split()
    res = {"gid": head[0], "viol": [], "hits": [], "n": 0, "calls": 0, "nviol": 0, "raw": l}
    for t in head[1:]:
        if "=" in t:
            k, v = t.split("=", 1)
            if k in ("n", "calls"):
                res[k] = int(v)
            elif k == "viol":
                res["nviol"] = int(v)
            else:
                res[k] = v
    if "<no-output" in l or "badsym" in l:
        res["nviol"] = 1
        res["viol"].append({"kind": "driver", "detail": l})
    for p in parts[1:]:
        if p.startswith("V "):
            res["viol"].append(dict(t.split("=", 1) for t in p[2:].split() if "=" in t))
        elif p.startswith("H "):
            res["hits"] = [] if p[2:].strip() == "-" else p[2:].strip().split(",")
    return res


def layer_of(r):
    if r["fam"] in ("api",):
        return "api"
    if r["fam"].startswith("legacy"):
        return "legacy"
    if r["fam"].startswith("dispatched") or r["fam"] == "internal":
        return "dispatched"
    return "family"


def signature(r, v):
    sig = {"op": r["op"], "entry": r["sym"], "family": r["fam"], "layer": layer_of(r), "kind": v.get("kind"),
           "buf": v.get("buf"), "side": v.get("side"), "access": v.get("access")}
    try:
        sig["len"] = int(v.get("len", -1))
    except ValueError:
        sig["len"] = -1
    return sig


class _Counted:
    def __init__(self, n):
        self.n = n
    def __len__(self):
        return self.n
    def add(self, x):
        self.n += 1


def run_lines(exe, lines, timeout=900):
    """dynamic scheduling: small batches of group lines, NCPU driver processes at a time (each
    group is a forked child of its driver process)"""
    import concurrent.futures as cf, subprocess
    batches = [lines[i:i + 2] for i in range(0, len(lines), 2)]
    def one(b):
        try:
            p = subprocess.run([exe, "trace"], input="\n".join(b) + "\n", stdout=subprocess.PIPE, stderr=subprocess.PIPE,
                               text=True, timeout=timeout, errors="replace")
            return p.returncode, p.stdout, p.stderr
        except subprocess.TimeoutExpired:
            return -9, "", "timeout"
    out, err = {}, []
    with cf.ThreadPoolExecutor(vlib.NCPU) as ex:
        for b, (rc, so, se) in zip(batches, ex.map(one, batches)):
            err.append(se)
            got = {}
            for l in so.split("\n"):
                if l.strip():
                    got.setdefault(l.split()[0], l)
            for l in b:
                gid = l.split()[1]
                out[gid] = got.get(gid, gid + " <no-output rc=%d %s>" % (rc, se[-100:].replace("\n", " ")))
    return out, "".join(err)


def run_guard(rep, P, tier, replay=None, scale=1):
    typed = P["typed"]
    lines, meta = [], {}
    if replay:
        rp = replay
        idx = [i for i, r in enumerate(typed) if r["sym"] == rp["entry"]]
        if not idx:
            rep.violation("replay names a symbol that is no longer in the archive: %s" % rp["entry"], {"entry": rp["entry"]}, no_input=True)
            return {}
        gid = "r0"
        lines.append("G %s %d %d %s %s %s %s %s" % (gid, idx[0], rp["mode"], rp["len"], rp["shift"], rp["place"], rp.get("xa", 0), rp.get("xb", 0)))
        meta[gid] = (typed[idx[0]], (rp["mode"], str(rp["len"]), str(rp["shift"]), str(rp["place"]), str(rp.get("xa", 0)), str(rp.get("xb", 0)), "replay"))
    else:
        k = 0
        for i, r in enumerate(typed):
            for g in groups_for(r, tier):
                for sg in split_group(g, 25000 if tier == "quick" else 100000):
                    gid = "g%d" % k
                    k += 1
                    lines.append("G %s %d %d %s %s %s %s %s" % (gid, i, sg[0], sg[1], sg[2], sg[3], sg[4], sg[5]))
                    meta[gid] = (r, sg)
        # heaviest first so the shards finish together
        order = sorted(range(len(lines)), key=lambda j: -ncases(meta[lines[j].split()[1]][1]))
        lines = [lines[j] for j in order]
    t0 = time.time()
    out, err = run_lines(P["exe"], lines)
    wall = time.time() - t0
    per_sym, hits = {}, set()
    total = 0
    found = []
    for gid, (r, sg) in meta.items():
        res = parse_line(out[gid])
        total += res["n"]
        hits.update(res["hits"])
        ps = per_sym.setdefault(r["sym"], {"op": r["op"], "family": r["fam"], "layer": layer_of(r), "cases": 0, "lib_calls": 0, "violations": 0})
        ps["cases"] += res["n"]
        ps["lib_calls"] += res["calls"]
        ps["violations"] += res["nviol"]
        for v in res["viol"]:
            found.append((r, sg, v, signature(r, v), res["raw"]))
    # one report per class of failure (operation, what was touched, where, during which call,
    # zero-length or not); the replay is the smallest failing case of the class and lists every
    # entry point that shows it.  Known findings are matched per entry point.
    classes = {}
    for r, sg, v, sig, raw in found:
        key = (r["op"], v.get("kind"), v.get("buf"), v.get("side"), v.get("access"), v.get("call"), sig["len"] == 0)
        classes.setdefault(key, []).append((r, sg, v, sig, raw))
    for key, members in sorted(classes.items(), key=lambda kv: str(kv[0])):
        unknown = []
        for m in members:
            k = rep.match_known(m[3])
            if k is None:
                unknown.append(m)
            elif k["id"] not in [x["id"] for x in rep.known_hits]:
                rep.known_hits.append(k)
        if not unknown:
            continue
        unknown.sort(key=lambda m: (m[3]["len"] if m[3]["len"] >= 0 else 1 << 30, m[0]["sym"]))
        r, sg, v, sig, raw = unknown[0]
        entries = sorted({m[0]["sym"] for m in unknown})
        if v.get("kind") in ("driver", "crash"):
            rp = {"entry": r["sym"], "op": r["op"], "family": r["fam"], "group": {"mode": sg[0], "lens": sg[1], "shifts": sg[2], "places": sg[3], "xa": sg[4], "xb": sg[5]},
                  "driver_output": raw[:400], "entries_affected": entries,
                  "note": "the group's child process died or printed nothing (unattributed fault, hang or wild write)"}
            rep.violation("%s (%s, %s): group child crashed: %s" % (r["sym"], r["op"], r["fam"], raw[:200]), rp, sig)
            continue
        rp = {"entry": r["sym"], "op": r["op"], "family": r["fam"], "mode": sg[0], "len": int(v["len"]), "shift": int(v["shift"]),
              "place": int(v["place"]), "placement": ("buffer END %s bytes before a PROT_NONE page" if v["place"] == "0" else "buffer START %s bytes after a PROT_NONE page") % v["shift"],
              "xa": int(v["xa"]), "xb": int(v["xb"]), "observed": {k2: v[k2] for k2 in ("kind", "buf", "side", "dist", "access", "call")},
              "group_note": sg[6], "entries_affected": entries, "failing_cases_seen": len(unknown), "signature": sig}
        what = "%s (%s, family %s): %s %s of buffer '%s', %s bytes %s it, during %s; len=%s shift=%s place=%s xa=%s xb=%s; %d entry point(s) affected: %s" % (
            r["sym"], r["op"], r["fam"], v["kind"], v["access"], v["buf"], v["dist"], v["side"], v["call"], v["len"], v["shift"], v["place"], v["xa"], v["xb"],
            len(entries), " ".join(entries)[:400])
        rep.violation(what, rp, sig)
    rep.cov["evaluations"] += total
    return {"per_sym": per_sym, "hits": hits, "total": total, "wall": wall, "groups": len(lines), "stderr": err[-2000:]}


def coverage_tables(P, G):
    typed = P["typed"]
    direct = {r["sym"] for r in typed}
    for r in typed:
        direct.update(a for a in r["aux"] if a)
    direct.update(P["helpers"])
    calls = P["calls"]
    reach = guard_syms.reach(calls, direct)
    hits = G.get("hits", set())
    cats = {"direct": [], "entered_indirectly": [], "static_reach_only": [], "marker": sorted(P["markers"]), "uncovered": []}
    for s in sorted(P["syms"]):
        if s in P["markers"]:
            continue
        if s in direct:
            cats["direct"].append(s)
        elif s in hits:
            cats["entered_indirectly"].append(s)
        elif s in reach:
            cats["static_reach_only"].append(s)
        else:
            cats["uncovered"].append(s)
    table = {}
    for r in typed:
        ps = G.get("per_sym", {}).get(r["sym"], {})
        e = table.setdefault(r["op"], {})
        e.setdefault(r["fam"], {"symbols": 0, "cases": 0})
        e[r["fam"]]["symbols"] += 1
        e[r["fam"]]["cases"] += ps.get("cases", 0)
    return cats, table


def gen():
    """Gen/*.v files this property regenerates from /repo's current tree"""
    try:
        import memcpy_classes
    except ImportError:
        return {}
    import mh_carry
    return {"Gen/MemcpyGen.v": memcpy_classes.generate(vlib.REPO), "Gen/MhCarryGen.v": mh_carry.generate(vlib.REPO)}


DRIVERS = []


def run(tier, replay=None):
    rep = vlib.Report(PID, "proof", tier, "cd coq && make Properties/C08.vo  (coqc 8.16.1, full .vo build) ; harness/guard_drv.c over the grid below")
    # ---- Coq half
    ok, broken = True, None
    gen_err = None
    try:
        g = gen()
    except Exception as e:                                   # header shape not recognised: fail closed
        g, gen_err = {}, "%s" % e
    if os.path.exists(os.path.join(vlib.COQ, "Properties", "C08.v")):
        if gen_err is None:
            ok, broken = vlib.coq_step(rep, PID, g)
        else:
            ok, broken = False, {"file": "tr/memcpy_classes.py", "line": 0, "error": "include/memcpy_inline.h is not of the recognised shape: " + gen_err}
            for n in vlib.coq_obligations("Properties/C08.v"):
                rep.obligation(n, False, "not checked: " + broken["error"][:200])
            rep.cov["trusted_base"] = list(vlib.TRUSTED_BASE)
    else:
        rep.cov["trusted_base"] = list(vlib.TRUSTED_BASE)
    # ---- guard-page half; a broken obligation widens the search
    P = prepare("hook")
    gtier = tier if ok else "thorough"
    rp = json.load(open(replay))["replay"] if replay else None
    if rp is not None and "entry" not in rp:
        # a no-input replay (names a theorem): rerun everything
        rp = None
    G = run_guard(rep, P, gtier, rp)
    cats, table = coverage_tables(P, G)
    rep.distinct = _Counted(G.get("total", 0))
    rep.cov["traces_validated_against_impl"] = G.get("total", 0)
    rep.cov["exhaustive"] = True
    rep.cov["exhaustive_of"] = {"of": "the grid enumerated below only (length list x shift list x placement x xa x xb per typed symbol); not a proof over all lengths",
                                "grid_tier": gtier}
    rep.cov["rule"] = ("one case = one typed symbol x one (mode, len, shift, placement, xa, xb); every buffer of the call is in its own mapping between two PROT_NONE "
                       "pages, END `shift` bytes before the trailing one (place 0) or START `shift` bytes after the leading one (place 1); fixed-size buffers (IV, tag, "
                       "tweak, keys, schedules, contexts) are always flush; lengths: every residue mod 64 (mod 128 for SHA-512) at 2-3 magnitudes chosen from each "
                       "family's main-loop widths; distinct = all cases (the grid has no repetitions); all are non-trivial (each performs >= 1 library call on guarded buffers)")
    rep.notes["grid"] = {r_op: [{"mode": g[0], "lens": g[1], "shifts": g[2], "places": g[3], "xa": g[4], "xb": g[5], "note": g[6]} for g in groups_for(r0, gtier)]
                         for r_op, r0 in {r["op"] + ("_nt" if r["nt"] else ""): r for r in P["typed"]}.items()}
    rep.notes["input_distribution"] = {"operation_x_family": table, "groups": G.get("groups"), "guard_wall_s": round(G.get("wall", 0), 1)}
    rep.notes["symbols"] = {"text_symbols_in_archive": len(P["syms"]),
                            "called_directly": len(cats["direct"]), "entered_indirectly_observed_by_entry_trap": cats["entered_indirectly"],
                            "reachable_statically_but_never_entered": cats["static_reach_only"],
                            "uncovered_untyped": cats["uncovered"], "markers_not_operations": len(cats["marker"])}
    rep.notes["per_symbol"] = G.get("per_sym", {})
    for i, r in enumerate(P["typed"][:3]):
        rep.sample({"symbol": r["sym"], "op": r["op"], "family": r["fam"], "groups": [list(g[:6]) for g in groups_for(r, gtier)]})
    # a broken obligation / unrecognised source shape with no concrete failing input among the
    # operations it is about -> the no-failing-input-found verdict (findings in unrelated
    # operations do not hide it)
    def related_found(what):
        w = str(what)
        ops = None
        if "Memcpy" in w or "memcpy" in w or "FootprintCtx" in w or "FootprintPad" in w:
            ops = ("HASH_CTX", "HASH_API")
        elif "Mh" in w or "mh_" in w:
            ops = ("MH", "MH_API", "MH_BLOCK", "MH_TAIL")
        elif "Roll" in w:
            ops = ("ROLL_API", "ROLL_UNTIL")
        for _, rp_, no_input in rep.violations:
            if no_input:
                continue
            if ops is None or rp_.get("op") in ops:
                return True
        return False
    if gen_err and not related_found(gen_err):
        rep.violation("a source file no longer has the shape its C08 translator recognises (%s); guard-page grid (%s tier, %d cases) found no out-of-range access in the operations concerned" % (gen_err, gtier, G.get("total", 0)),
                      {"theorem_or_file": "Gen/MemcpyGen.v / Gen/MhCarryGen.v (tr/memcpy_classes.py, tr/mh_carry.py)", "error": gen_err, "guard_cases": G.get("total", 0)}, no_input=True)
    elif not ok and gen_err is None and not related_found(broken):
        rep.violation("Coq obligation no longer checks: %s; guard-page grid (%s tier, %d cases) found no out-of-range access in the operations concerned" % (broken, gtier, G.get("total", 0)),
                      {"theorem_or_file": broken, "guard_cases": G.get("total", 0)}, no_input=True)
    rep.assumptions = [
        "partial: the Coq theorems cover the C-level index logic of the models (rolling-hash indices, inline-copy size classes, context-layer buffer consumption, hash_pad, multi-hash carry); "
        "the assembly is covered by enumeration of (length residue, magnitude, shift, placement) classes with guard pages - exhaustive over that grid, not a proof",
        "a read over-run shorter than `shift` bytes is invisible at shift > 0 (only the flush placements see 1-byte over-reads); writes are seen at every shift (canaries)",
        "NT GCM variants are run under their documented alignment rule (64-byte aligned in/out), so their buffer ends are flush only when len is a multiple of 64",
        "in-place (in == out) calls are not generated",
        "symbols matching no naming pattern are listed under symbols.uncovered_untyped; internal routines are counted as covered only when the entry trap saw them entered",
    ]
    return rep.finish()
