"""C11 — a rejected hash submit changes nothing and poisons no later call.

Same machinery as C01 (checks/hashcommon.py, checks/c01.py); the conditions that belong to this
property: a submit the specification rejects (flags outside FIRST|LAST, context in flight,
UPDATE/LAST on a completed or fresh context) is handed straight back with the matching error
and return code and the status/digest the caller saw before; byte images of the manager and of
every other context taken before and after the call are equal and of its own context only the
error field differs (harness); every LATER valid call returns 0 and hands back contexts whose
own error is clear when they are the submitted one (acceptor, over the rest of the history,
which also still checks every digest).  About a third of the histories go through the isal_
wrappers under a virtual CPUID so that the wrapper's return-code mapping is what is observed."""
from checks import c01, hashcommon as hc

gen = hc.gen
DRIVERS = hc.DRIVERS
PROFILE = {"mix": 2, "occ": 1, "reject": 6, "inflight": 3, "pad": 1}


def run(tier, replay=None):
    return c01.run(tier, replay, pid="C11", profile=PROFILE, k=111)
