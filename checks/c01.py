"""C01 — multi-buffer hash digests equal the standard hash for every submission history.

Coq: Properties/C01.v (hash-proof vertical): the L1 context-layer model over an abstract
manager with an arbitrary scheduling oracle refines the L0 trace acceptor Spec.HashApiSpec
for every algorithm, history and schedule.
Tie: Gen/HashCfgGen.v regenerated from the headers / manager init files / built archive
(obligations by vm_compute); every (algorithm, family) pair of the archive driven through its
own entry points (and through the isal_ wrappers under a virtual CPUID) on generated
histories; the extracted acceptor decides on the REAL observed trace (digest of every context
handed back complete = md_hash of the concatenation of its accepted segments); the extracted
L1 model is replayed with the observed manager-level schedule and diffed white-box."""
import vlib
from checks import hashcommon as hc

gen = hc.gen
DRIVERS = hc.DRIVERS
PID = "C01"
PROFILE = {"mix": 6, "occ": 3, "reject": 1, "inflight": 1, "pad_fixed": 1}


def run(tier, replay=None, pid=PID, profile=PROFILE, k=101, nq=16, nt=400, extra=None):
    try:
        # kernel level (checks/ckernels.py, docs/ckernels.md): the translated <alg>_single base block functions
        from checks import ckernels
    except ImportError:
        ckernels = None
    if replay and pid == PID and ckernels is not None:
        rc = ckernels.maybe_replay(pid, tier, replay)      # None unless the file is a kernel replay
        if rc is not None:
            return rc
    rep = vlib.Report(pid, "proof", tier, "cd coq && make Properties/%s.vo Gen/HashCfgGen.vo  (coqc 8.16.1, full .vo build)" % pid)
    rng = vlib.SplitMix64(vlib.seed() * 1000003 + k)
    ok, broken = hc.coq_step(rep, pid)
    dist = {}
    failures = []
    wb = None
    if replay:
        cases = [hc.replay_case(replay)]
        failures, wb = hc.run_engine(rep, pid, cases, "01", dist, "replay")
    else:
        # 1. corpus of minimised failures first
        f0, w0 = hc.run_engine(rep, pid, hc.corpus_cases(), "01", None, "corpus")
        # 1b. the systematic histories: every pair, both entry layers, every in-flight stage x flags
        sysc = hc.systematic_cases(rng)
        fs, ws = hc.run_engine(rep, pid, sysc, "01", dist, "systematic")
        f0, w0 = f0 + fs, w0 or ws
        rep.notes["systematic_histories"] = len(sysc)
        n = {"quick": nq, "thorough": nt}[tier]
        cases = hc.gen_cases(rng, n, profile)
        if pid == "C01":
            # a share of histories that continue from a mid-stream state just below 2^29 / 2^32 /
            # 2^32+2^29 (the digest of a long stream is C01's as much as C15's; see checks/c15.py)
            for algo, family in hc.pairs():
                for T in hc.THRESHOLDS.values():
                    for _ in range(max(1, n // 16)):
                        cases.append(hc.gen_inject(rng, algo, family, "D", T))
        f1, w1 = hc.run_engine(rep, pid, cases, "01", dist)
        failures = f0 + f1
        wb = w0 or w1
        mine = [x for x in failures if pid in x[1]["prop"] or x[1]["prop"] == "ALL"]
        if (not ok or wb) and not mine:
            # an obligation or the white-box correspondence broke: search harder with the
            # direct oracle only (no L1 run), 5x (quick) the cases, all families
            more = hc.gen_cases(vlib.SplitMix64(vlib.seed() * 7919 + k), n * (5 if tier == "quick" else 2), profile)
            f2, _ = hc.run_engine(rep, pid, more, "0", dist, "search")
            failures += f2
            rep.notes["search_harder_cases"] = len(more)
    by_prop = hc.report(rep, pid, failures)
    rep.notes["failures_by_property"] = by_prop
    others = {p: c for p, c in by_prop.items() if p not in (pid, "ALL")}
    if others:
        rep.notes["note_other_properties"] = "observed-trace failures attributed to other hash properties (reported by their own checks): %s" % others
    rep.cov["traces_validated_against_impl"] = rep.cov["evaluations"]
    rep.cov["rule"] = ("one evaluation = one history (list of submit/flush/re-init calls over up to 3*lanes contexts) run on one (algorithm, family) "
                       "pair of the %d in the archive, through the family entry points or (35%%) the isal_ wrappers under a virtual CPUID; segment lengths "
                       "from {0,1,B-1,B,B+1,2B-1,kB+r,...} mixed 70/30 with uniform < 3B; first segments mostly not whole blocks; flushes anywhere, storms, "
                       "empty-manager flushes; lane occupancy cycled through 0..lanes; context reuse and re-init; rejected submits injected; plus, in every run and "
                       "for every pair and entry layer, the systematic histories (each in-flight stage x each flags value x bystander, zero-length LAST filling the "
                       "manager, full-submit-then-flush, one-live-lane flush, empty flush, context reuse) and the padding residues; "
                       "distinct = distinct (pair, mode, history); non-trivial = some context handed back complete after a non-empty segment"
                       % len(hc.pairs()))
    rep.notes["input_distribution"] = {k2: dict(sorted(v.items(), key=lambda kv: str(kv[0]))) for k2, v in dist.items()}
    wok = hc.wrapper_pairs()
    rep.notes["dispatcher_binding_under_family_preset"] = {"%s/%s" % k2: v for k2, v in wok.items() if v != "ok"} or "every family is bound under its preset"
    bad = {"%s/%s" % (f["algo"], f["fam"]): f["why"] for f in hc.cfg()["fams"] if not f["understood"]}
    if bad:
        rep.notes["lane_configuration_not_understood"] = dict(bad, _consequence="header bound MAX_LANES used for these families; obligation gen_hfams_ok reported broken")
    rep.notes["pairs"] = ["%s/%s lanes=%d" % (f["algo"], f["fam"], f["lanes"]) for f in hc.cfg()["fams"]]
    mine = [v for v in rep.violations]
    if not ok and not mine:
        rep.violation("Coq obligation no longer checks: %s" % broken,
                      {"theorem_or_file": broken, "correspondence": "L0 acceptor clean on %d histories" % rep.cov["evaluations"]}, no_input=True)
    if wb and not rep.violations:
        c, w, nline, mline = wb
        rep.violation("model/code correspondence broken (white-box) but the code still satisfies the specification on the larger search: %s/%s call #%d %s"
                      % (c["algo"], c["fam"], w["call"], w["what"][:300]),
                      {"correspondence": "L1 model (Model.HashCtx.step, schedule replayed) vs context fields after every call",
                       "algo": c["algo"], "fam": c["fam"], "mode": c["mode"], "nctx": c["nctx"], "ops": hc.concrete_ops(hc.parse_native(nline)),
                       "first_difference": w}, no_input=True)
    rep.assumptions = list(hc.ASSUMPTIONS)
    if pid == PID and not replay:
        # the BASE family against its own model (Model/HashBase.v, not the generic one) and the
        # obligations of Properties/C01_base.v (checks/hashbase.py, docs/hash-base.md)
        try:
            from checks import hashbase
        except ImportError:
            hashbase = None
        if hashbase is not None:
            hashbase.base_whitebox(rep, tier)
        if ckernels is not None:
            ckernels.kernels_c01(rep, tier)      # obligations of Properties/C01_kernels.v + translator cross-check + protocol
    if extra:
        # hook for a check that extends this one (e.g. C06's lane-level white-box): runs after
        # everything above, before the verdict is written; may add obligations / violations to rep
        extra(rep, tier)
    return rep.finish()
