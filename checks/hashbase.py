"""The BASE family of the multi-buffer hash API (the five <algo>_ctx_base.c files) tied to
its own model Model/HashBase.v (NOT the generic context-layer model of Model/HashCtx.v).

Coq: Properties/C01_base.v (obligations counted into C01): the base model refines the L0
trace acceptor with K = 1 (C01 C06 C11 C15 for the base family), its final-block construction
is md_pad, it is observationally equal to the generic model with K = 1; refuted variants.
Tie (white-box): for the five `_<algo>_ctx_mgr_{init,submit,flush}_base` entry-point families
(and the isal_ wrappers under the virtual CPUID preset "base") real histories are run by
harness/hash_drv.c and, after EVERY call, every context field the code owns (status, error,
total_length, partial_block_buffer_length, digest words, partial_block_buffer[0, length)) of
every context is compared with the extracted base model (ocaml/hashbase_driver.ml).  The
extracted L0 acceptor (ocaml/hash_driver.ml, K = 1) runs over the same real traces and decides
whether a difference is an observable failure (replay = the history) or only a broken
correspondence (no-failing-input-found after a larger acceptor-only search).

`base_whitebox(rep, tier)` is called by checks/c01.py; `./check hashbase` runs it standalone
with the scratch report id C01base."""
import hashlib, json, os, re
import vlib
from checks import hashcommon as hc

PID = "C01base"
DRIVERS = [("hashbase", "HashBase")]
PROPFILE = "C01_base"
ALGOS = ["sha1", "sha256", "sha512", "md5", "sm3"]
THRESHOLDS = hc.THRESHOLDS


def gen():
    return hc.gen()


def base_driver():
    return vlib.ocaml_driver("hashbase", "HashBase")


# ----------------------------------------------------------------------------- histories

def _sd(rng):
    return rng.next() & 0xffffffffffff


def _cut(rng, total, nseg):
    cuts = sorted(rng.below(total + 1) for _ in range(nseg - 1))
    return [b - a for a, b in zip([0] + cuts, cuts + [total])]


def _msg(rng, c, lens, op="S"):
    """one message on context c: ENTIRE when one segment, else FIRST UPDATE* LAST"""
    fl = [3] if len(lens) == 1 else [1] + [0] * (len(lens) - 2) + [2]
    return ["%s%d,%x,%d,%s,%x" % (op, c, f, l, hc.place(rng), _sd(rng)) for f, l in zip(fl, lens)]


def residues(algo):
    """every residue of the total around the one/two-pad-block decision and the block end:
    B-F-2 .. B+1 (mod B)"""
    B = hc.block(algo)
    F = hc.cfg()["algos"][algo]["lenfld"]
    return list(range(B - F - 2, B + 2))


def gen_pad(rng, algo, mode):
    """every pad residue, as ENTIRE, as FIRST+empty LAST, as LAST carrying everything after an
    empty FIRST, and cut into 2-4 segments at random; totals r, r+B, r+2B"""
    B = hc.block(algo)
    out = []
    rs = residues(algo)
    for style in range(4):
        ops = []
        for c, r in enumerate(rs):
            total = r + (style % 3) * B if r >= 0 else r + B
            if style == 0:
                lens = [total]
            elif style == 1:
                lens = [total, 0]
            elif style == 2:
                lens = [0, total]
            else:
                lens = _cut(rng, total, 2 + rng.below(3))
            ops += _msg(rng, c, lens)
        out.append({"algo": algo, "fam": "base", "mode": mode, "nctx": len(rs), "tmo": 20, "ops": ops + ["F"],
                    "aim": "base:pad-residues.%d" % style})
    return out


def gen_segm(rng, algo, mode):
    """multi-call segmentations aimed at the update function: partial buffer fill to exactly B,
    past B, whole blocks straight from the user buffer, remainder copy, empty segments; two
    contexts interleaved; context reuse after completion"""
    B = hc.block(algo)
    pool = [0, 1, B - 1, B, B + 1, 2 * B - 1, 2 * B, 2 * B + 1, B // 2, 3 * B + 7]
    streams = []
    for c in range(2):
        s = []
        for _ in range(2):
            n = 2 + rng.below(5)
            lens = [rng.choice(pool) if rng.below(3) else rng.below(3 * B) for _ in range(n)]
            # make some partial fills land exactly on the block boundary
            if rng.below(2) and n >= 3:
                lens[1] = (B - lens[0] % B) % B
            s += _msg(rng, c, lens)
        streams.append(s)
    ops = hc.interleave(rng, streams)
    ops = hc.sprinkle_flush(rng, ops, 10)
    return [{"algo": algo, "fam": "base", "mode": mode, "nctx": 2, "tmo": 20, "ops": ops, "aim": "base:segmentations"}]


def gen_reject(rng, algo, mode):
    """a valid two-message history with a rejected submit inserted at EVERY point (one history per
    point): invalid flags anywhere; UPDATE / LAST where the context is fresh or complete; the
    history continues, so every later accepted call must show error NONE again"""
    B = hc.block(algo)
    base = _msg(rng, 0, [B // 2, B, 5, 0]) + _msg(rng, 0, [B + 3]) + _msg(rng, 0, [7, 2 * B])
    complete_at = {0, 4, 5, 7}        # positions where context 0 is fresh or complete
    out = []
    for pos in range(len(base) + 1):
        kinds = ["bad"]
        if pos in complete_at:
            kinds += ["upd", "last"]
        for k in kinds:
            if k == "bad":
                fl = rng.choice(hc.BAD_FLAGS)
            else:
                fl = 0 if k == "upd" else 2
            inj = "S0,%x,%d,%s,%x" % (fl, rng.choice([0, 1, B, B + 1]), hc.place(rng), _sd(rng))
            ops = base[:pos] + [inj] + base[pos:]
            out.append({"algo": algo, "fam": "base", "mode": mode, "nctx": 1, "tmo": 20, "ops": ops + ["F"],
                        "aim": "base:reject-%s@%d" % (k, pos)})
    # several rejections in a row, two contexts
    ops = ["S0,4,3,e,%x" % _sd(rng), "S1,0,3,e,%x" % _sd(rng), "S0,1,%d,e,%x" % (B + 1, _sd(rng)), "S0,8,0,e,%x" % _sd(rng),
           "S0,ffffffff,9,e,%x" % _sd(rng), "S1,2,0,e,%x" % _sd(rng), "S0,0,1,e,%x" % _sd(rng), "S1,3,2,e,%x" % _sd(rng),
           "S1,0,2,e,%x" % _sd(rng), "S0,2,0,e,%x" % _sd(rng), "F"]
    out.append({"algo": algo, "fam": "base", "mode": mode, "nctx": 2, "tmo": 20, "ops": ops, "aim": "base:reject-burst"})
    return out


def gen_inject(rng, algo, mode, T, name):
    """state injection: contexts written IDLE with total_length = T - k*B + plen (so that
    total = plen mod B), plen over the pad residues, then straight into final (empty LAST), or a
    few UPDATE segments across T and a LAST"""
    B = hc.block(algo)
    F = hc.cfg()["algos"][algo]["lenfld"]
    plens = sorted({p % B for p in [0, 1, B - F - 2, B - F - 1, B - F, B - F + 1, B - 1, B // 2, rng.below(B)]})
    out = []
    for k in (0, 1, 3):
        cseed = _sd(rng)
        pre = T - k * B
        ops = []
        for c, p in enumerate(plens):
            ops.append("J%d,%x,%d,%x" % (c, pre + p, p, cseed))
        for c, p in enumerate(plens):
            style = (c + k) % 3
            if style == 0:
                ops.append("S%d,2,0,e,%x" % (c, _sd(rng)))
            elif style == 1:
                ops.append("S%d,2,%d,%s,%x" % (c, rng.choice([1, B - p, B - p + 1, k * B + 9]), hc.place(rng), _sd(rng)))
            else:
                ops.append("S%d,0,%d,%s,%x" % (c, k * B + rng.below(2 * B), hc.place(rng), _sd(rng)))
                ops.append("S%d,0,0,e,%x" % (c, _sd(rng)))
                ops.append("S%d,2,%d,%s,%x" % (c, rng.below(B + 2), hc.place(rng), _sd(rng)))
        out.append({"algo": algo, "fam": "base", "mode": mode, "nctx": len(plens), "tmo": 30, "ops": ops + ["F"],
                    "aim": "base:inject@%s-%dB" % (name, k), "T": T})
    return out


def base_cases(rng, tier):
    wok = hc.wrapper_pairs()
    have = set(hc.pairs())
    out = []
    reps = 1 if tier == "quick" else 6
    for algo in ALGOS:
        if (algo, "base") not in have:
            continue
        wmode = "W" if wok.get((algo, "base")) == "ok" else "D"
        for rnd in range(reps):
            out += gen_pad(rng, algo, "D" if rnd % 2 == 0 else wmode)
            out += gen_segm(rng, algo, "D") + gen_segm(rng, algo, wmode)
            out += gen_reject(rng, algo, wmode if rnd % 2 == 0 else "D")
            for name, T in THRESHOLDS.items():
                out += gen_inject(rng, algo, "D", T, name)
    return out


def search_cases(rng, n):
    """the larger acceptor-only search after a broken correspondence: random base histories incl.
    rejections and injections"""
    out = []
    have = set(hc.pairs())
    for algo in ALGOS:
        if (algo, "base") not in have:
            continue
        for i in range(n):
            k = i % 4
            if k == 0:
                out.append(hc.gen_mix(rng, algo, "base", "D"))
            elif k == 1:
                out.append(hc.gen_reject(rng, algo, "base", "D"))
            elif k == 2:
                out.append(hc.gen_padcases(rng, algo, "base", "D"))
            else:
                out.append(hc.gen_inject(rng, algo, "base", "D", rng.choice(list(THRESHOLDS.values()))))
    return out


# ----------------------------------------------------------------------------- running

_NORM = re.compile(r"(=[0-9a-f]+:\d+:[0-9a-f]+:\d+:)[^:]*:")


def run_base(cases, prefix="b", with_model=True):
    """native driver, L0 acceptor (hash driver, K = 1) and base model over the cases"""
    nexe, aexe = hc.native_driver(), hc.model_driver()
    ids = ["%s%d" % (prefix, k) for k in range(len(cases))]
    ntxt = "\n".join(hc.case_line(i, c) for i, c in zip(ids, cases))
    nout, _ = vlib.run_driver(nexe, ntxt, timeout=1200)
    mtxt = "\n".join("T %s %s 1 0 %d %s" % (i, c["algo"], c["nctx"], nout[i]) for i, c in zip(ids, cases))
    aout, _ = vlib.run_driver(aexe, mtxt, timeout=1200)
    bout = {}
    if with_model:
        bout, _ = vlib.run_driver(base_driver(), mtxt, timeout=1200)
    return ids, nout, aout, bout


def whitebox_diff(nat, bmod):
    """first difference between the code and the base model: every observed field of the call and
    the white-box record of every context whose fields changed"""
    mc = bmod["calls"]
    for k, r in enumerate(nat["calls"]):
        if k >= len(mc):
            return {"call": k, "what": "the model driver stopped before call #%d" % k, "op": " ".join(r["call"])}
        m = mc[k]
        for key in ("r", "rc", "st", "er", "tl", "dg", "w"):
            a, b = r["kv"].get(key), m["kv"].get(key)
            if key == "w" and a is not None and b is not None:
                # incoming_buffer_length: never written by the base code, not part of the model
                a, b = _NORM.sub(r"\1-:", a), _NORM.sub(r"\1-:", b)
            if a != b:
                return {"call": k, "what": "field %s: code %s base-model %s" % (key, a, b), "op": " ".join(r["call"])}
    return None


def examine_all(rep, cases, ids, nout, aout, bout, dist=None, count=True):
    failures, wb_first, fields = [], None, 0
    for i, c in zip(ids, cases):
        fails, _, nat, mod = hc.examine(c, nout[i], aout[i])
        if count:
            rep.case(hashlib.sha256(("base " + hc.case_line("x", c)).encode()).hexdigest(), hc.nontrivial(nat))
            rep.cov["calls_observed"] = rep.cov.get("calls_observed", 0) + len(nat["calls"])
        for f in fails:
            failures.append((c, f, nat, nout[i], aout[i]))
        if i in bout:
            wb = whitebox_diff(nat, hc.parse_model(bout[i]))
            fields += sum(1 for r in nat["calls"] for key in ("r", "rc", "st", "er", "tl", "dg", "w") if key in r["kv"])
            if wb and wb_first is None:
                wb_first = (c, wb, nout[i], bout[i])
        if dist is not None:
            dist[c["aim"].split("@")[0].split(".")[0]] = dist.get(c["aim"].split("@")[0].split(".")[0], 0) + 1
    return failures, wb_first, fields


def slice_to_context(c, f, nat, nline, mline, ops):
    """the base code keeps no state outside the contexts, so a failure on one context is
    reproduced by that context's calls alone: keep them (renumbered to context 0), re-run, and
    use the shorter history as the replay when the same failure shows"""
    try:
        k = f["call"]
        if not (0 <= k < len(nat["calls"])) or nat["calls"][k]["call"][0] != "S":
            return c, f, nat, nline, mline, ops
        cid = nat["calls"][k]["call"][1]
        keep = [re.sub(r"^([SIJ])\d+", r"\g<1>0", o) for o in ops[:k + 1] if re.match(r"[SIJ]%s(,|$)" % cid, o)]
        if len(keep) == len(ops):
            return c, f, nat, nline, mline, ops
        c2 = dict(c, ops=keep, nctx=1, aim="replay")
        ids, nout, aout, _ = run_base([c2], prefix="bm", with_model=False)
        fl, _, nat2, _ = hc.examine(c2, nout[ids[0]], aout[ids[0]])
        same = [x for x in fl if x["reason"].split(":")[0] == f["reason"].split(":")[0]]
        if same:
            return c2, same[0], nat2, nout[ids[0]], aout[ids[0]], keep
    except Exception:
        pass
    return c, f, nat, nline, mline, ops


def _mine(rep, f):
    """is this observable failure one the calling check reports?  Standalone (C01base): all of
    them (the base theorems cover C01 C06 C11 C15); under C01: digests and faults"""
    if rep.pid == PID:
        return True
    return rep.pid in f["prop"] or f["prop"] == "ALL"


def _assumptions(vfile):
    """`Print Assumptions` of every theorem of the property file (vlib.coq_assumptions: one coqc
    run, ~13 s for this file), cached under the content hash of the compiled .vo - which changes
    whenever the file or anything it imports is rebuilt differently"""
    vo = os.path.join(vlib.COQ, vfile + "o")
    with open(vo, "rb") as fh:
        key = hashlib.sha256(fh.read()).hexdigest()[:20]
    cache = os.path.join(vlib.CACHE, "pa_cache_%s_%s.json" % (PROPFILE, key))
    try:
        with open(cache) as fh:
            return json.load(fh)
    except (FileNotFoundError, ValueError):
        pass
    ass = vlib.coq_assumptions(vfile)
    if "<error>" not in ass:
        with open(cache + ".%d" % os.getpid(), "w") as fh:
            json.dump(ass, fh)
        os.replace(cache + ".%d" % os.getpid(), cache)
    return ass


def coq_obligations(rep):
    """build Extract/HashBase.vo (model only: still builds when a proof is broken) and
    Properties/C01_base.v; count its theorems as obligations of the calling report (adds to the
    caller's axioms entry, does not replace it)"""
    os.makedirs(os.path.join(vlib.COQ, "Extract", "out"), exist_ok=True)
    okx, logx = vlib.coq_make(["Extract/HashBase.vo"])
    if not okx:
        raise RuntimeError("base model/extraction build failed: %s" % vlib.first_coq_error(logx))
    vfile = "Properties/%s.v" % PROPFILE
    ok, log = vlib.coq_make([vfile + "o"])
    names = vlib.coq_obligations(vfile)
    broken = None
    if ok:
        ass = _assumptions(vfile)
        for n in names:
            a = ass.get(n, "?")
            closed = "Closed under the global context" in a
            rep.obligation(PROPFILE + ":" + n, closed or a != "?", a if not closed else "closed under the global context")
        rep.cov["axioms"] = sorted(set(rep.cov.get("axioms", [])) | {a for a in ass.values() if "Closed under the global context" not in a})
    else:
        broken = vlib.first_coq_error(log)
        for n in names:
            rep.obligation(PROPFILE + ":" + n, False, "not checked: %s:%d %s" % (broken["file"], broken["line"], broken["error"][:200]))
    if not rep.cov.get("trusted_base"):
        rep.cov["trusted_base"] = list(vlib.TRUSTED_BASE)
    return ok, broken


def base_whitebox(rep, tier):
    """the whole base-family part: Coq obligations of Properties/C01_base.v, white-box tie, verdict"""
    ok, broken = coq_obligations(rep)
    rng = vlib.SplitMix64(vlib.seed() * 1000003 + 4177)
    cases = base_cases(rng, tier)
    dist = {}
    ids, nout, aout, bout = run_base(cases)
    failures, wb, fields = examine_all(rep, cases, ids, nout, aout, bout, dist)
    rep.notes["base_family"] = {
        "histories": len(cases), "by_aim": dist, "fields_compared_with_Model.HashBase": fields,
        "entry_points": "_<algo>_ctx_mgr_{init,submit,flush}_base of sha1 sha256 sha512 md5 sm3 (mode D) and the isal_ wrappers under the virtual CPUID preset base (mode W)",
        "compared_after_every_call": "returned context, return code (W), status, error, total_length, digest words, partial_block_buffer_length, partial_block_buffer[0,length) of every context",
        "pad_residues": "total mod B in B-F-2 .. B+1, as ENTIRE / FIRST+empty LAST / empty FIRST+LAST / 2-4 random segments",
        "injected_totals": "2^29-kB+p, 2^32-kB+p, 2^32+2^29-kB+p for k in {0,1,3}, p over the pad residues (total = partial length mod B)",
        "rejections": "invalid flags at every point of a 3-message history; UPDATE/LAST on a fresh/complete context; the history continues",
    }
    mine = [x for x in failures if _mine(rep, x[1])]
    if (wb or not ok) and not mine:
        more = search_cases(vlib.SplitMix64(vlib.seed() * 7919 + 4177), 40 if tier == "quick" else 200)
        ids2, nout2, aout2, _ = run_base(more, prefix="bs", with_model=False)
        f2, _, _ = examine_all(rep, more, ids2, nout2, aout2, {}, None)
        failures += f2
        mine = [x for x in failures if _mine(rep, x[1])]
        rep.notes["base_family"]["search_harder_cases"] = len(more)
    by_prop = {}
    seen = set()
    for c, f, nat, nline, mline in failures:
        by_prop[f["prop"]] = by_prop.get(f["prop"], 0) + 1
    for c, f, nat, nline, mline in sorted(mine, key=lambda x: len(x[2]["calls"])):
        sig = hc.signature(c, f, nat)
        key = (sig["kind"], c["algo"])
        if key in seen:
            continue
        seen.add(key)
        ops = hc.concrete_ops(nat) if nat["calls"] and not nat["abort"] else c["ops"]
        c, f, nat, nline, mline, ops = slice_to_context(c, f, nat, nline, mline, ops)
        rep.violation("%s/base (%s): call #%d %s — %s %s" % (
            c["algo"], "isal_ wrapper via dispatcher" if c["mode"] == "W" else "family entry points", f["call"],
            hc.describe_call(nat, f["call"]), hc.explain(f["reason"]), f.get("detail", "")),
            {"algo": c["algo"], "fam": "base", "mode": c["mode"], "nctx": c["nctx"], "ops": ops, "failure": f["reason"],
             "failing_call": f["call"], "observed": nline[:4000], "acceptor": mline.split(" | ")[0],
             "oracle": "Spec.HashApiSpec.spec_check (extracted, K = 1) over the observed trace"}, sig)
    rep.notes["base_family"]["failures_by_property"] = by_prop
    if not ok and not rep.violations:
        rep.violation("Coq obligation no longer checks: %s" % broken,
                      {"theorem_or_file": broken, "correspondence": "L0 acceptor clean on the base histories"}, no_input=True)
    if wb and not rep.violations:
        c, w, nline, bline = wb
        rep.violation("base family: model/code correspondence broken (white-box) but the code still satisfies the specification on the larger search: "
                      "%s/base call #%d `%s` %s" % (c["algo"], w["call"], w.get("op", ""), w["what"][:300]),
                      {"correspondence": "Model.HashBase.base_step (extracted) vs every context field after every call",
                       "algo": c["algo"], "fam": "base", "mode": c["mode"], "nctx": c["nctx"],
                       "ops": hc.concrete_ops(hc.parse_native(nline)), "first_difference": w,
                       "other_properties_failing_observably": {p: n for p, n in by_prop.items()}}, no_input=True)
    return ok, wb, failures


def run(tier, replay=None):
    rep = vlib.Report(PID, "proof", tier, "cd coq && make Properties/C01_base.vo Extract/HashBase.vo  (coqc 8.16.1, full .vo build)")
    for path, content in gen().items():
        vlib.write_if_changed(os.path.join(vlib.COQ, path), content)
    if replay:
        c = hc.replay_case(replay)
        ids, nout, aout, bout = run_base([c])
        failures, wb, _ = examine_all(rep, [c], ids, nout, aout, bout)
        for cc, f, nat, nline, mline in failures:
            rep.violation("%s/base: call #%d %s" % (cc["algo"], f["call"], hc.explain(f["reason"])),
                          {"algo": cc["algo"], "fam": "base", "mode": cc["mode"], "nctx": cc["nctx"], "ops": cc["ops"],
                           "failure": f["reason"], "observed": nline[:4000]}, hc.signature(cc, f, nat))
        if wb and not rep.violations:
            rep.violation("white-box difference on the replay: %s" % wb[1]["what"][:300], {"ops": c["ops"], "first_difference": wb[1]}, no_input=True)
    else:
        base_whitebox(rep, tier)
    rep.cov["traces_validated_against_impl"] = rep.cov["evaluations"]
    rep.cov["rule"] = ("one evaluation = one history on one algorithm's base entry points (family symbols or isal_ wrappers under the base CPUID "
                       "preset); distinct = distinct (algorithm, mode, history); non-trivial = some context handed back complete after a non-empty segment")
    rep.notes["input_distribution"] = rep.notes.get("base_family", {}).get("by_aim", {})
    rep.assumptions = ["<algo>_single (the C block function) is modelled by the algorithm's compression function a_compress, not verified; "
                       "tied through the digests of every history",
                       "caller buffers hold len readable bytes (API contract)"]
    return rep.finish()
