"""C14 — SAFE_DATA: no key material left in registers or dead stack after AES calls.

Static, Coq-verified half (register part): on every path to every `ret` of every AES entry point (all family
symbols and public stubs of the aes/ objects) every vector register the function wrote has been cleared again
(check_c14, soundness Properties/C14.v; CFGs regenerated from the built objects).  Dynamic half (registers AND
dead stack against the secrets set): checks/tramp.py `dynamic_c14(rep, tier)`, if present."""
from checks import abistatic


def gen():
    return abistatic.gen()


DRIVERS = []


def run(tier, replay=None):
    return abistatic.run_check("C14", tier, replay)
