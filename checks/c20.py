"""C20 — results depend on declared inputs only, never on stale memory or registers.

Coq (Properties/C20.v): non-interference of the executable models in their explicit junk
parameters — hash context layer (every well-formed algorithm, every oracle, every operation list:
the observations from `ctx_init junk1` and `ctx_init junk2` coincide for junk arbitrary in every
field incl. the partial block buffer contents), rolling hash (init+reset define every field run
observes), GCM (init defines every API-defined context field; a whole session is independent of
the junk vaes leaves in partial_block_enc_key), and the output-buffer convention.

Tie / the part only execution can observe: paired execution through the call_observed
trampoline (harness/tramp.S).  Every scenario of checks/tramp.py is built twice from the same
declared-input seed D and two different hidden-input seeds J1, J2, so that the two runs differ in
EVERY hidden input at once: junk in rax rcx rdx rsi rdi r8-r11 beyond the arguments, zmm0-31,
k0-7, arithmetic flags, the 508 KiB of dead stack below rsp, MXCSR/x87 control words, output
buffer prefill, and object memory outside API-defined fields (manager memory before init, context
memory before FIRST/init, GCM context and key_data before init/precomp, mh context before init,
rolling state before init).  All return values (at their declared width), all outputs and the
API-defined part of every object are compared byte-wise, in call order."""
import json, os, re, sys
import vlib
sys.path.insert(0, os.path.dirname(os.path.abspath(__file__)))
import tramp


def gen():
    return {}


DRIVERS = []


def ret_view(ret, typ):
    """the part of rax a prototype defines"""
    if typ == "void":
        return None
    if typ in ("int", "u32"):
        if re.fullmatch(r"[0-9a-f]+", ret):
            return "%x" % (int(ret, 16) & 0xffffffff)
        return ret
    return ret


def compare(sa, ra, rb):
    """first observable difference between the paired runs of one scenario, or None"""
    for tag, r in (("A", ra), ("B", rb)):
        if "crash" in r["flags"]:
            # a fault/hang on valid declared inputs: reported even when both runs fault alike
            # (junk that is dereferenced usually faults under every junk value)
            first = next(iter(sa.meta.values())) if sa.meta else {"sym": "?", "cls": "?"}
            done = len(r["calls"]) + len(r["ucalls"])
            m = sa.meta.get(done, first)
            return {"what": "run %s crashed (%s) in call %d" % (tag, [f for f in r["flags"] if f.startswith("sig=")], done),
                    "symbol": m["sym"], "class": m["cls"]}
    fa = [f for f in ra["flags"] if not f.startswith("sig=")]
    fb = [f for f in rb["flags"] if not f.startswith("sig=")]
    if fa != fb:
        return {"what": "run status", "A": ra["flags"], "B": rb["flags"], "symbol": next(iter(sa.meta.values()))["sym"] if sa.meta else "?", "class": "?"}
    for i, m in sorted(sa.meta.items()):
        ca, cb = ra["calls"].get(i), rb["calls"].get(i)
        if (ca is None) != (cb is None):
            return {"what": "call %d returned in one run only" % i, "symbol": m["sym"], "class": m["cls"]}
        if ca is None:
            continue
        va, vb = ret_view(ca["ret"], m["ret"]), ret_view(cb["ret"], m["ret"])
        if va != vb:
            return {"what": "return value (%s)" % m["ret"], "symbol": m["sym"], "class": m["cls"], "call_index": i, "A": va, "B": vb}
    da, db = ra.get("dumpseq", []), rb.get("dumpseq", [])
    names = [w for _, w in sa.dumps]
    for k, (x, y) in enumerate(zip(da, db)):
        if x != y:
            first = next(iter(sa.meta.values()))
            return {"what": "object/output bytes: %s" % (names[k] if k < len(names) else x[0]), "symbol": first["sym"], "class": first["cls"],
                    "dump": x[0], "A": x[1][:256], "B": y[1][:256]}
    if len(da) != len(db):
        return {"what": "number of dumps", "symbol": "?", "class": "?"}
    return None


def paired(rep, tier, only=None, replay=None):
    text, _ = tramp.archive_syms("plain")
    typed, untyped, notcalled = tramp._inventory(text)
    exe = tramp.driver("plain")
    seed = vlib.seed()
    rounds = 3 if tier == "quick" else 12
    A, B, info = [], [], {}
    if replay:
        r = replay
        todo = [(r["symbol_generated_from"], r["dseed"], r["jseedA"], r["jseedB"], r["scenario"])]
    else:
        todo = [(sym, seed * 41 + rnd, seed * 43 + 2 * rnd + 1000, seed * 47 + 2 * rnd + 2001, None)
                for sym in typed if not (only and not re.search(only, sym)) for rnd in range(rounds)]
    for sym, ds, ja, jb, want in todo:
        sa = tramp.scenarios(sym, ds, ja, "c20", tier)
        sb = tramp.scenarios(sym, ds, jb, "c20", tier)
        for x, y in zip(sa, sb):
            if want and x.sid != want:
                continue
            key = "%s.d%d" % (x.sid, ds)
            info[key] = (sym, ds, ja, jb, x, y)
            x.sid0, y.sid0 = x.sid, y.sid
            x.sid, y.sid = key + ".A", key + ".B"
            A.append(x)
            B.append(y)
    res = tramp.run_scripts(exe, A + B)
    kinds, per_sym = {}, {}
    for key, (sym, ds, ja, jb, x, y) in info.items():
        ra, rb = res[x.sid], res[y.sid]
        bad = [f for f in ra["flags"] + rb["flags"] if f.startswith(("nosym:", "bad", "arena-full", "<no-output"))]
        if bad:
            rep.violation("trampoline harness error in %s: %s" % (key, bad), {"scenario": key, "flags": bad}, {"kind": "harness"}, no_input=True)
            continue
        p = tramp.classify(sym)
        kinds[p["kind"]] = kinds.get(p["kind"], 0) + 1
        for m in x.meta.values():
            per_sym[m["sym"]] = per_sym.get(m["sym"], 0) + 1
        rep.case(key, bool(x.meta))
        diff = compare(x, ra, rb)
        if diff is not None:
            rep.violation(("%s [%s]: %s" if diff["what"].startswith("run ") else
                           "%s [%s]: paired runs that differ only in hidden inputs disagree on %s") % (diff.get("symbol"), diff.get("class"), diff["what"]),
                          {"symbol": diff.get("symbol"), "class": diff.get("class"), "difference": diff, "symbol_generated_from": sym,
                           "scenario": x.sid0, "dseed": ds, "jseedA": ja, "jseedB": jb,
                           "scriptA": x.line()[:6000], "scriptB": y.line()[:6000]},
                          {"symbol": diff.get("symbol"), "what": diff["what"]})
    if len(rep.cov["samples"]) < 3:
        for key in list(info)[:3]:
            rep.sample({"scenario": key, "A": info[key][4].line()[:300]})
    return kinds, per_sym


def run(tier, replay=None):
    rep = vlib.Report("C20", "proof", tier, "cd coq && make Properties/C20.vo  (coqc 8.16.1, full .vo build)")
    ok, broken = vlib.coq_step(rep, "C20", gen())
    rp = json.load(open(replay))["replay"] if replay else None
    if rp is not None and "scenario" not in rp:
        rp = None
    kinds, per_sym = paired(rep, tier, replay=rp)
    text, _ = tramp.archive_syms("plain")
    rep.cov["traces_validated_against_impl"] = rep.cov["evaluations"]
    rep.cov["rule"] = ("every scenario of checks/tramp.py (577 callable exported text symbols x argument classes: hash managers of the 5 algorithms "
                       "x all families at ctx and mb level with fill/drain, streamed and rejected histories; GCM precomp/init/update/finalize/one-shot "
                       "x 4 families + NT; XTS 8 kinds x 3 families; CBC; key expansion; mh_sha1/mh_sha256/mh_sha1_murmur3 init/update/finalize/"
                       "block/tail; rolling init/reset/run/run_until) executed twice with equal declared-input seed and different hidden-input "
                       "seeds; distinct = distinct (scenario, declared seed); non-trivial = at least one observed call")
    rep.notes["input_distribution"] = {"scenarios_by_prototype_kind": dict(sorted(kinds.items())),
                                       "symbols_with_observed_calls": len(per_sym), "observed_calls_per_run": sum(per_sym.values())}
    rep.notes["hidden_inputs_varied"] = ["rax rcx rdx rsi rdi r8-r11 beyond the arguments", "zmm0-31 (512 bits)", "k0-k7", "CF PF AF ZF SF OF",
                                         "508 KiB of stack below rsp", "MXCSR / x87 CW (masked-exception values)", "output buffer prefill",
                                         "manager / context / key_data / mh ctx / rolling state memory before the call that defines it"]
    rep.assumptions = ["paired execution samples the hidden-input space (two seeds per scenario and round); it cannot prove absence of a dependence",
                       "API-defined part of an object = the fields listed in checks/tramp.py next to each dump (GCM partial_block_enc_key and the "
                       "opaque GCM key_data are compared through the behaviour they induce: a probe encryption / finalize)",
                       "Coq theorems are about the executable models; the assembly kernels are modelled, not verified"]
    if not ok and not rep.violations:
        rep.violation("Coq obligation no longer checks: %s" % broken, {"theorem_or_file": broken, "paired_execution": "clean on %d scenario pairs" % rep.cov["evaluations"]}, no_input=True)
    return rep.finish()


if __name__ == "__main__":
    import argparse
    ap = argparse.ArgumentParser()
    ap.add_argument("--tier", default=None)
    ap.add_argument("--only", default=None)
    a = ap.parse_args()
    rep = vlib.Report("C20dyn", "exploration", vlib.tier(a.tier), "python3 checks/c20.py")
    paired(rep, vlib.tier(a.tier), a.only)
    sys.exit(rep.finish())
