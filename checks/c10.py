"""C10 — mh_sha1_murmur3_x64_128 returns both digests as if computed separately.

Coq: Properties/C10.v (for every 64-bit seed, every stream < 2^32 bytes, every partition into update
calls: the stitched model returns (Spec mh_sha1 stream, Spec murmur3_x64_128 seed stream)).
Tie: white-box correspondence of the extracted model with
_mh_sha1_murmur3_x64_128_{update,finalize}_<family> for the five families, the public isal_* entry
points through the real dispatcher under virtual CPUID presets and the legacy names: context fields
(incl. the murmur state words) after every update; both digests against the L0 specs."""
import os, sys
sys.path.insert(0, os.path.dirname(os.path.abspath(__file__)))
import mhlib

DRIVERS = [("mh", "Mh")]


def gen():
    return {}


def run(tier, replay=None):
    try:
        # kernel level (checks/ckernels.py, docs/ckernels.md): the translated murmur3 C kernels proved equal to the spec
        from checks import ckernels
    except ImportError:
        ckernels = None
    if replay and ckernels is not None:
        rc = ckernels.maybe_replay("C10", tier, replay)      # None unless the file is a kernel replay
        if rc is not None:
            return rc
    rep = mhlib.run_property("C10", ["mur"], tier, replay, n_quick=800, n_thorough=16000, rng_salt=10,
                             extra_assumptions=["_murmur3_x64_128_block / _tail (C) are modelled by Spec/Murmur3.v's mur_body / mur_tail"])
    rep.cov["rule"] = ("cases = (seed, stream <= 8 KiB (thorough 16 KiB), partition into update calls, placements) x families "
                       "{base,sse,avx,avx2,avx512} direct entry points, every 3rd case also through isal_* under 5 virtual CPUID presets + legacy "
                       "names; half of the stream lengths from the grid (len mod 16 = 0..15) x (whole 16-byte blocks in the partial buffer in "
                       "{0,1,2,31,62,63,uniform}) x (0..3 whole 1024-byte blocks), the rest from the C05 boundary set / uniform; seeds from "
                       "{0, 2^64-1, 2^32-1, 2^32, 1, 0x9747b28c, 2^63} or uniform 64-bit; partitions as in C05 (incl. 16-byte-granular cuts +-1); "
                       "plus 33 state-injection cases per algorithm (total_length around 2^29, 2^30, 2^31, 2^32 - 5 KiB, random interim digests, short suffix) "
                       "and 2 real streams of 2^29 / 2^29 + r bytes per algorithm (thorough: up to 2^32 - 1 KiB) whose expected value is the model "
                       "continued from the context observed after the natively hashed prefix; distinct = distinct (case, family); non-trivial = non-empty stream")
    if ckernels is not None and not replay:
        ckernels.kernels_c10(rep, tier)      # obligations of Properties/C10_kernels.v + translator cross-check + protocol
    return rep.finish()
