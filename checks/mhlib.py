"""Shared by checks/c05.py and checks/c10.py (multi-hash vertical): case generation, the
model / native runs, comparison (white-box after every update, L0 oracle at finalize),
minimisation, verdicts."""
import json, os, struct, subprocess, sys
import vlib

FAMS = ["base", "sse", "avx", "avx2", "avx512"]
DISP = ["d:base", "d:sse", "d:avx", "d:avx2", "d:avx512", "legacy", "legacy_base"]
NW = {"sha1": 5, "sha256": 8, "mur": 5}
PREFIX = {"sha1": "_mh_sha1", "sha256": "_mh_sha256", "mur": "_mh_sha1_murmur3_x64_128"}
M64 = (1 << 64) - 1

# ----------------------------------------------------------------------------- generation

LEN_BOUNDARY = [0, 1, 2, 3, 4, 15, 16, 17, 55, 56, 63, 64, 65, 127, 128, 1007, 1008, 1014, 1015, 1016, 1017,
                1022, 1023, 1024, 1025, 1026, 1039, 1040, 1041, 2039, 2040, 2041, 2047, 2048, 2049, 3071, 3072,
                3073, 4095, 4096, 4097]
CUTS = [0, 1, 2, 63, 64, 65, 1007, 1008, 1015, 1016, 1017, 1023, 1024, 1025, 2047, 2048, 2049, 3071, 3072, 3073, 4096]


def gen_stream(rng, n):
    k = rng.below(12)
    if k == 0:
        return bytes([rng.choice([0, 0xff, 0x80, 0x01])]) * n
    return rng.bytes(n)


def gen_segmentation(rng, L, maxlen):
    """-> (kind, lens) with sum(lens) == L"""
    kind = rng.below(10)
    if kind == 0 or L == 0 and kind < 5:
        return "single", [L]
    if kind in (1, 2):     # cuts at block boundary points
        pts = sorted({p for p in CUTS if p <= L and rng.below(3) == 0} | {0, L})
        lens = [b - a for a, b in zip(pts, pts[1:])]
        if rng.below(2):
            lens.insert(rng.below(len(lens) + 1), 0)
        return "boundary_cuts", lens or [0]
    if kind in (3, 4, 5):  # partial p, then a second update with p + len2 = 1024 - 1 / exactly / + 1, then the rest
        pre = rng.choice([0, 1024, 2048]) if rng.below(3) == 0 else 0
        p = rng.choice([1, 2, 15, 16, 17, 511, 512, 1007, 1008, 1015, 1016, 1022, 1023]) if rng.below(2) else 1 + rng.below(1023)
        d = rng.choice([-1, 0, 0, 1, 1024 - 1, 1024, 1024 + 1])
        l2 = 1024 - p + d
        lens = ([pre] if pre else []) + [p, l2]
        if sum(lens) > L:             # stream too short for this shape: lengthen it (the caller draws the bytes afterwards)
            L = min(maxlen, sum(lens) + rng.choice([0, 0, 1, 7, 1023, 1024, rng.below(1500)]))
        rest = L - sum(lens)
        while rest > 0:
            x = min(rest, rng.choice([1, 1023, 1024, 1025, rest, 1 + rng.below(rest)]))
            lens.append(x)
            rest -= x
        return "straddle%+d" % (d if d < 512 else d - 1024) + ("_x2" if d >= 512 else ""), lens
    if kind == 6:          # uniform random cuts
        nseg = 1 + rng.below(8)
        pts = sorted([rng.below(L + 1) for _ in range(nseg - 1)] + [0, L])
        return "random_cuts", [b - a for a, b in zip(pts, pts[1:])]
    if kind == 7:          # zero-length updates everywhere
        nseg = 1 + rng.below(4)
        pts = sorted([rng.below(L + 1) for _ in range(nseg - 1)] + [0, L])
        lens = []
        for a, b in zip(pts, pts[1:]):
            lens += [0, b - a, 0]
        return "zero_len_updates", lens
    if kind == 8:          # many tiny updates (only worthwhile on short streams)
        lens, rest = [], L
        hi = rng.choice([2, 3, 5, 17, 70])
        while rest > 0 and len(lens) < 1500:
            x = min(rest, rng.below(hi + 1))
            lens.append(x)
            rest -= x
        if rest:
            lens.append(rest)
        return "many_tiny", lens
    # 16-byte-granular cuts (murmur block edges) +-1
    lens, rest = [], L
    while rest > 0 and len(lens) < 40:
        x = min(rest, 16 * (1 + rng.below(70)) + rng.choice([-1, 0, 0, 1]))
        lens.append(x)
        rest -= x
    if rest:
        lens.append(rest)
    return "mur16_cuts", lens


def gen_len(rng, k, maxlen, alg):
    if alg == "mur" and k % 2 == 0:
        # stream length mod 16 x mod 1024 grid: every residue mod 16 against partial lengths on
        # both sides of the 16-byte and 1024-byte edges, total below / above 1024
        r16 = (k // 2) % 16
        q = rng.choice([0, 0, 1, 2, 31, 62, 63]) if rng.below(2) else rng.below(64)
        blocks = rng.choice([0, 0, 1, 1, 2, 3]) if maxlen >= 4096 else rng.below(2)
        return min(maxlen, blocks * 1024 + q * 16 + r16)
    m = rng.below(11)
    if m == 10:
        # the residues where the tail needs a second padding block (total mod 1024 in 1016..1023), and the last one-block ones
        return min(maxlen, rng.choice([0, 0, 1, 2, 3]) * 1024 + rng.choice([1007, 1008, 1014, 1015, 1016, 1017, 1018, 1019, 1020, 1021, 1022, 1023]))
    if m < 4:
        return min(maxlen, rng.choice(LEN_BOUNDARY))
    if m < 6:
        return rng.below(1200)
    if m < 9:
        return rng.below(min(maxlen, 4200) + 1)
    return rng.below(maxlen + 1)


def gen_place(rng):
    return "e" if rng.below(2) else "a%d" % rng.below(64)


SEEDS = [0, M64, 0xffffffff, 1 << 32, 1, 0x9747b28c, 1 << 63]


def gen_cases(rng, n, alg, maxlen):
    cases = []
    for k in range(n):
        L = gen_len(rng, k, maxlen, alg)
        kind, lens = gen_segmentation(rng, L, maxlen)
        if kind == "many_tiny" and L > 1400:
            L = 1000 + rng.below(400)
            kind, lens = "many_tiny", []
            rest = L
            hi = rng.choice([1, 2, 3, 5, 17])
            while rest > 0:
                x = min(rest, rng.below(hi + 1))
                lens.append(x)
                rest -= x
        lens = lens or [0]
        L = sum(lens)
        seed = 0
        if alg == "mur":
            seed = rng.choice(SEEDS) if rng.below(2) else rng.next()
        cases.append({"alg": alg, "seed": seed, "stream": gen_stream(rng, L), "lens": lens,
                      "places": [gen_place(rng) for _ in lens],
                      "ctxp": "e" if rng.below(2) else "a%d" % (8 * rng.below(8)), "aim": kind})
    return cases


def case_line(cid, fam, c):
    tail = "%s %s %d %s" % (c["stream"].hex() or "-", c["ctxp"], len(c["lens"]),
                            " ".join("%d:%s" % (l, p) for l, p in zip(c["lens"], c["places"])))
    if c.get("inject"):
        j = c["inject"]
        return "J %s %s %s %x %x %s %s %x %x %s" % (cid, fam, c["alg"], c["seed"], j["total0"], j["partial"] or "-", j["interim"],
                                                     j["h1"], j["h2"], tail)
    if c.get("big"):
        b = c["big"]
        return "B %s %s %s %x %x %d %d %s" % (cid, fam, c["alg"], c["seed"], b["patseed"], b["prefix_len"], b["chunk"], tail)
    return "U %s %s %s %x %s" % (cid, fam, c["alg"], c["seed"], tail)


def gen_inject_cases(rng, alg, n):
    """state injection: total_length around 2^29, 2^30, 2^31 and just below 2^32 (where 32-bit length arithmetic would
    wrap), arbitrary interim digests / partial bytes / murmur words, then a short suffix fed through update + finalize"""
    cases = []
    blocks0 = [(1 << 19) - 2, (1 << 19) - 1, 1 << 19, (1 << 19) + 1, (1 << 20) - 1, 1 << 20, (1 << 21) - 1, 1 << 21,
               (1 << 21) + (1 << 19), (1 << 22) - 5, (1 << 22) - 4]
    for k in range(n):
        plen = rng.choice([0, 1, 15, 16, 17, 1007, 1008, 1015, 1016, 1017, 1023]) if rng.below(2) else rng.below(1024)
        total0 = blocks0[k % len(blocks0)] * 1024 + plen
        sl = rng.choice([0, 1, max(0, 1024 - plen - 1), 1024 - plen, 1024 - plen + 1, 2048 - plen, rng.below(2100)])
        kind, lens = gen_segmentation(rng, sl, 4096)
        lens = lens or [0]
        sl = sum(lens)
        if total0 + sl >= 1 << 32:
            lens, sl = [0], 0
        cases.append({"alg": alg, "seed": rng.next() if alg == "mur" else 0, "stream": rng.bytes(sl), "lens": lens,
                      "places": [gen_place(rng) for _ in lens], "ctxp": "e", "aim": "inject:" + kind,
                      "inject": {"total0": total0, "partial": rng.bytes(plen).hex(),
                                 "interim": rng.bytes(4 * 16 * NW[alg]).hex(),
                                 "h1": rng.next() if alg == "mur" else 0, "h2": rng.next() if alg == "mur" else 0}})
    return cases


def gen_big_cases(rng, alg, tier):
    """real streams of 2^29 bytes and more (thorough: 2^31, 2^32 - small): the first prefix_len bytes are a periodic
    pattern hashed natively only; the model continues from the context observed after the prefix"""
    shapes = [((1 << 29) - 1024, (1 << 20) - 7, 1024 + 1 + rng.below(1000)),        # total = 2^29 + r
              (1 << 29, 1 << 20, 0)]                                                   # total = 2^29 exactly
    if tier == "thorough":
        shapes += [((1 << 31) - 5, (1 << 22) + 3, 5 + 1016), ((1 << 31) + (1 << 29), 1 << 24, 17),
                   ((1 << 32) - 4096, (1 << 24) - 1, 4095), ((1 << 32) - 2048 - 9, 1 << 23, 1033)]
    cases = []
    for prefix_len, chunk, sl in shapes:
        a = rng.below(sl + 1)
        kind, lens = ("single", [sl]) if rng.below(2) or sl == 0 else ("two", [a, sl - a])
        cases.append({"alg": alg, "seed": rng.next() if alg == "mur" else 0, "stream": rng.bytes(sum(lens)), "lens": lens,
                      "places": [gen_place(rng) for _ in lens], "ctxp": "e", "aim": "big:" + kind,
                      "big": {"patseed": rng.next(), "prefix_len": prefix_len, "chunk": chunk}})
    return cases

# ----------------------------------------------------------------------------- output parsing / comparison


def parse_out(line, alg):
    """-> dict(u=[tuple per update], f=tuple|None, s=tuple|None, g=str|None, flags=[...])"""
    t = line.split()[1:]
    nu = 5 if alg == "mur" else 3
    nf = 3 if alg == "mur" else 1
    r = {"u": [], "k": None, "f": None, "s": None, "g": None, "flags": []}
    i = 0
    while i < len(t):
        if t[i] == "u" and i + nu < len(t) + 0 and len(t) >= i + 1 + nu:
            r["u"].append(tuple(t[i + 1:i + 1 + nu]))
            i += 1 + nu
        elif t[i] == "k" and len(t) >= i + 1 + nu:
            r["k"] = tuple(t[i + 1:i + 1 + nu])
            i += 1 + nu
        elif t[i] in ("f", "s") and len(t) >= i + 1 + nf:
            r[t[i]] = tuple(t[i + 1:i + 1 + nf])
            i += 1 + nf
        elif t[i] == "g" and len(t) >= i + 2:
            r["g"] = t[i + 1]
            i += 2
        else:
            r["flags"].append(t[i])
            i += 1
    return r


def compare(c, mline, iline):
    """-> (kind, detail): kind None | 'observable' | 'whitebox' | 'internal'"""
    alg = c["alg"]
    m, i = parse_out(mline, alg), parse_out(iline, alg)
    if m["flags"] or m["s"] is None or m["f"] is None:
        return "internal", "model driver output malformed: %s" % mline[:200]
    if m["f"] != m["s"]:
        return "internal", "model finalize %s differs from the L0 spec %s" % (m["f"], m["s"])
    if i["flags"]:
        return "observable", "flags %s" % i["flags"]
    if i["f"] is None:
        return "observable", "no digest produced: %s" % iline[:200]
    if i["f"] != m["s"]:
        what = []
        if i["f"][0] != m["s"][0]:
            what.append("mh digest %s, multi-hash definition %s" % (i["f"][0], m["s"][0]))
        if alg == "mur" and i["f"][1:] != m["s"][1:]:
            what.append("murmur3 (h1,h2) %s, MurmurHash3_x64_128 %s" % (i["f"][1:], m["s"][1:]))
        return "observable", "; ".join(what)
    if len(i["u"]) != len(m["u"]):
        return "whitebox", "number of update records %d vs %d" % (len(i["u"]), len(m["u"]))
    for k, (a, b) in enumerate(zip(m["u"], i["u"])):
        if a != b:
            names = ["total_length", "partial_block_buffer[0..total%1024)", "interim digests", "murmur h1", "murmur h2"]
            bad = [names[j] for j in range(len(a)) if a[j] != b[j]]
            nseg = len(c["lens"])
            ku = k if nseg <= 64 else (nseg - 1 if k == len(m["u"]) - 1 else 16 * k + 15)
            return "whitebox", "context after update #%d (len %d): %s differ" % (ku, c["lens"][ku], ", ".join(bad))
    if i["g"] != m["g"]:
        return "whitebox", "interim digests after the tail blocks differ"
    return None, ""


# SHA-256 compression, only to *classify* a failing sha256 digest (known-finding signature)
_K256 = [0x428a2f98, 0x71374491, 0xb5c0fbcf, 0xe9b5dba5, 0x3956c25b, 0x59f111f1, 0x923f82a4, 0xab1c5ed5, 0xd807aa98,
         0x12835b01, 0x243185be, 0x550c7dc3, 0x72be5d74, 0x80deb1fe, 0x9bdc06a7, 0xc19bf174, 0xe49b69c1, 0xefbe4786,
         0x0fc19dc6, 0x240ca1cc, 0x2de92c6f, 0x4a7484aa, 0x5cb0a9dc, 0x76f988da, 0x983e5152, 0xa831c66d, 0xb00327c8,
         0xbf597fc7, 0xc6e00bf3, 0xd5a79147, 0x06ca6351, 0x14292967, 0x27b70a85, 0x2e1b2138, 0x4d2c6dfc, 0x53380d13,
         0x650a7354, 0x766a0abb, 0x81c2c92e, 0x92722c85, 0xa2bfe8a1, 0xa81a664b, 0xc24b8b70, 0xc76c51a3, 0xd192e819,
         0xd6990624, 0xf40e3585, 0x106aa070, 0x19a4c116, 0x1e376c08, 0x2748774c, 0x34b0bcb5, 0x391c0cb3, 0x4ed8aa4a,
         0x5b9cca4f, 0x682e6ff3, 0x748f82ee, 0x78a5636f, 0x84c87814, 0x8cc70208, 0x90befffa, 0xa4506ceb, 0xbef9a3f7,
         0xc67178f2]


def _rr(x, n):
    return ((x >> n) | (x << (32 - n))) & 0xffffffff


def _sha256_compress(h, b):
    w = list(struct.unpack(">16I", b))
    for i in range(16, 64):
        s0 = _rr(w[i - 15], 7) ^ _rr(w[i - 15], 18) ^ (w[i - 15] >> 3)
        s1 = _rr(w[i - 2], 17) ^ _rr(w[i - 2], 19) ^ (w[i - 2] >> 10)
        w.append((w[i - 16] + s0 + w[i - 7] + s1) & 0xffffffff)
    a, b_, c, d, e, f, g, hh = h
    for i in range(64):
        t1 = (hh + (_rr(e, 6) ^ _rr(e, 11) ^ _rr(e, 25)) + ((e & f) ^ (~e & g)) + _K256[i] + w[i]) & 0xffffffff
        t2 = ((_rr(a, 2) ^ _rr(a, 13) ^ _rr(a, 22)) + ((a & b_) ^ (a & c) ^ (b_ & c))) & 0xffffffff
        hh, g, f, e, d, c, b_, a = g, f, e, (d + t1) & 0xffffffff, c, b_, a, (t1 + t2) & 0xffffffff
    return [(x + y) & 0xffffffff for x, y in zip(h, [a, b_, c, d, e, f, g, hh])]


_zl_cache = {}


def sha256_zero_length_field(interim_hex):
    """SHA-256 of the interim-digest memory image padded 0x80, zeros, and a ZERO length field"""
    if interim_hex in _zl_cache:
        return _zl_cache[interim_hex]
    words = [int(interim_hex[i:i + 8], 16) for i in range(0, len(interim_hex), 8)]
    msg = b"".join(struct.pack("<I", w) for w in words) + b"\x80" + b"\0" * 63
    h = [0x6a09e667, 0xbb67ae85, 0x3c6ef372, 0xa54ff53a, 0x510e527f, 0x9b05688c, 0x1f83d9ab, 0x5be0cd19]
    for i in range(0, len(msg), 64):
        h = _sha256_compress(h, msg[i:i + 64])
    r = "".join("%08x" % x for x in h)
    _zl_cache[interim_hex] = r
    return r


def signature(c, fam, mline, iline):
    alg = c["alg"]
    m, i = parse_out(mline, alg), parse_out(iline, alg)
    sig = {"alg": alg, "family": fam, "kind": "other"}
    if "fault" in i["flags"]:
        sig["kind"] = "fault"
    elif i["flags"]:
        sig["kind"] = "flags"
    elif i["f"] and m["s"] and i["f"] != m["s"]:
        ctx_ok = (i["u"] == m["u"] and i["g"] == m["g"])
        if alg == "sha256" and ctx_ok and i["g"] and sha256_zero_length_field(i["g"]) == i["f"][0]:
            sig["kind"] = "final_hash_zero_length_field"
        elif alg == "mur" and i["f"][0] == m["s"][0]:
            sig["kind"] = "murmur_only" + ("" if ctx_ok else "_ctx_differs")
        else:
            sig["kind"] = "digest" + ("" if ctx_ok else "_ctx_differs")
    return sig

# ----------------------------------------------------------------------------- running


def build_drivers():
    impl = vlib.cc_harness("mh", ["mh_drv.c", "vcpuid.S"], "hook", extra=("-Wno-deprecated-declarations",))
    model = vlib.ocaml_driver("mh", "Mh")
    return impl, model


def archive_families():
    """family suffixes of the update/finalize entry points present in the built archive"""
    d = vlib.build("hook")
    rc, out = vlib.sh(["nm", os.path.join(d, "isa-l_crypto.a")], check=False)
    found = {}
    for l in out.split("\n"):
        t = l.split()
        if len(t) == 3 and t[1] == "T":
            for alg, pre in PREFIX.items():
                for op in ("update", "finalize"):
                    p = "%s_%s_" % (pre, op)
                    if t[2].startswith(p) and not t[2].endswith(("_mbinit", "_slver")) and "slver" not in t[2]:
                        found.setdefault((alg, op), set()).add(t[2][len(p):])
    return found


def fams_for(k, with_dispatch_every):
    return FAMS + (DISP if with_dispatch_every and k % with_dispatch_every == 0 else [])


def run_cases(cases, impl_exe, model_exe, disp_every=3, fams=None):
    mtxt = "\n".join(case_line("c%d" % k, "model", c) for k, c in enumerate(cases))
    itxt = "\n".join(case_line("c%d.%s" % (k, f), f, c) for k, c in enumerate(cases)
                     for f in (fams or fams_for(k, disp_every)))
    mout, merr = vlib.run_driver(model_exe, mtxt, shards=min(vlib.NCPU, max(1, len(cases))))
    iout, ierr = vlib.run_driver(impl_exe, itxt)
    return mout, iout, ierr


def run_big(cases, impl_exe, model_exe, fams):
    """long real streams: native first (B lines, every family), then the model continued (J line) from the context the
    `base` family shows after the prefix; returns (model out, impl out, {case index: families whose context after the
    prefix differs from base's})"""
    itxt = "\n".join(case_line("c%d.%s" % (k, f), f, c) for k, c in enumerate(cases) for f in fams)
    iout, ierr = vlib.run_driver(impl_exe, itxt, shards=min(vlib.NCPU, max(1, len(cases) * len(fams))), timeout=3000)
    mlines, kdiff = [], {}
    for k, c in enumerate(cases):
        ks = {f: parse_out(iout["c%d.%s" % (k, f)], c["alg"])["k"] for f in fams}
        ref = ks.get("base") or next((v for v in ks.values() if v), None)
        bad = [f for f in fams if ks[f] != ref]
        if bad:
            kdiff[k] = bad
        if ref is None:
            ref = ("0", "-", "0" * (8 * 16 * NW[c["alg"]]), "0", "0")
        cj = dict(c, big=None, inject={"total0": int(ref[0], 16), "partial": "" if ref[1] == "-" else ref[1], "interim": ref[2],
                                       "h1": int(ref[3], 16) if len(ref) > 3 else 0, "h2": int(ref[4], 16) if len(ref) > 4 else 0})
        mlines.append(case_line("c%d" % k, "model", cj))
    mout, _ = vlib.run_driver(model_exe, "\n".join(mlines), shards=min(vlib.NCPU, max(1, len(cases))))
    return mout, iout, kdiff


def minimise(c, fam, impl_exe, model_exe, budget=36):
    """greedy shrinking of a failing (observable) case: one update, fewer updates, shorter stream"""
    def fails(cc):
        mo, io, _ = run_cases([cc], impl_exe, model_exe, fams=[fam])
        kind, _ = compare(cc, mo["c0"], io["c0.%s" % fam])
        return kind == "observable"

    def with_lens(cc, lens):
        L = sum(lens)
        return dict(cc, lens=lens, places=(cc["places"] + ["e"] * len(lens))[:len(lens)], stream=cc["stream"][:L])
    cur = c
    changed = True
    while changed and budget > 0:
        changed = False
        lens = cur["lens"]
        cands = []
        if len(lens) > 1:
            cands.append(with_lens(cur, [sum(lens)]))
            cands.append(with_lens(cur, lens[:-1]))
            cands.append(with_lens(cur, lens[:len(lens) // 2 + 1]))
            for i in range(min(len(lens) - 1, 6)):
                cands.append(with_lens(cur, lens[:i] + [lens[i] + lens[i + 1]] + lens[i + 2:]))
            nz = [l for l in lens if l]
            if len(nz) < len(lens) and nz:
                cands.append(with_lens(cur, nz))
        if lens and lens[-1] > 1:
            cands.append(with_lens(cur, lens[:-1] + [lens[-1] // 2]))
            cands.append(with_lens(cur, lens[:-1] + [lens[-1] - 1]))
        if lens and lens[0] > 1024:
            cands.append(dict(with_lens(cur, [lens[0] - 1024] + lens[1:]), stream=cur["stream"][1024:]))
        if any(p != "e" for p in cur["places"]) or cur["ctxp"] != "e":
            cands.append(dict(cur, places=["e"] * len(lens), ctxp="e"))
        if cur["alg"] == "mur" and cur["seed"] != 0:
            cands.append(dict(cur, seed=0))
        for cc in cands:
            budget -= 1
            if budget <= 0:
                break
            if fails(cc):
                cur = cc
                changed = True
                break
    return cur


def replay_dict(c, fam, mline, iline, detail):
    extra = {}
    if c.get("big"):
        extra = {"big": c["big"], "long_stream": "prefix_len bytes of the periodic pattern (period chunk; byte i = top byte of x_i, "
                 "x_0 = patseed, x_{i+1} = x_i*6364136223846793005+1442695040888963407 mod 2^64) fed in chunk-byte updates, "
                 "then `stream` cut as `lens`; oracle = model continued from the context observed after the prefix"}
    if c.get("inject"):
        extra = {"inject": c["inject"]}
    return {**extra, "alg": c["alg"], "family": fam, "seed": "%x" % c["seed"], "stream": c["stream"].hex(),
            "lens": c["lens"], "places": c["places"], "ctxp": c["ctxp"], "detail": detail,
            "spec_and_model": mline[-400:], "impl": iline[-400:],
            "oracle": "L0 spec Spec/MH.v mh_sha1|mh_sha256 (+ Spec/Murmur3.v murmur3_x64_128) evaluated by the extracted OCaml"}


def case_from_replay(r):
    c = {"alg": r["alg"], "seed": int(r["seed"], 16), "stream": bytes.fromhex(r["stream"]), "lens": r["lens"],
         "places": r["places"], "ctxp": r.get("ctxp", "e"), "aim": "replay"}
    for k in ("big", "inject"):
        if r.get(k):
            c[k] = r[k]
    return c


def hist_add(h, k):
    h[k] = h.get(k, 0) + 1


def run_property(pid, algs, tier, replay, n_quick, n_thorough, rng_salt, extra_assumptions):
    rep = vlib.Report(pid, "proof", tier, "cd coq && make Properties/%s.vo  (coqc 8.16.1, full .vo build)" % pid)
    rng = vlib.SplitMix64(vlib.seed() * 1000003 + rng_salt)
    ok, broken = vlib.coq_step(rep, pid, {}, extract="Mh")
    impl_exe, model_exe = build_drivers()
    n = {"quick": n_quick, "thorough": n_thorough}[tier]
    maxlen = {"quick": 8192, "thorough": 16384}[tier]
    if not ok:
        n *= 2
    # the family set the harness drives must be the family set the archive has
    found = archive_families()
    for alg in algs:
        for op in ("update", "finalize"):
            have = found.get((alg, op), set())
            if have != set(FAMS):
                rep.violation("entry points %s_%s_* in the archive are %s, the harness drives %s" % (PREFIX[alg], op, sorted(have), FAMS),
                              {"correspondence": "family table", "alg": alg, "op": op, "archive": sorted(have), "harness": FAMS}, no_input=True)
    replay_fam = None
    if replay:
        r = json.load(open(replay))["replay"]
        cases = [case_from_replay(r)]
        replay_fam = r.get("family")
    else:
        cases = []
        for alg in algs:
            cases += gen_cases(rng, n // len(algs), alg, maxlen)
    state = {"wb": None, "nviol": 0, "internal": None}
    dist = {"alg": {}, "segmentation": {}, "stream_len_class": {}, "len_mod_1024": {}, "len_mod_16": {}, "n_updates": {},
            "seed_class": {}, "placement": {}, "mh_blocks": {}}

    def evaluate(cases, tag, disp_every, record, big=False):
        if big:
            bfams = [replay_fam] if replay_fam else FAMS
            mout, iout, kdiff = run_big(cases, impl_exe, model_exe, bfams)
            ierr = ""
            for k, bad in kdiff.items():
                if state["wb"] is None:
                    c = cases[k]
                    state["wb"] = (bad[0], c, "context after the %d-byte prefix differs from the base family's in %s" % (c["big"]["prefix_len"], bad),
                                   mout["c%d" % k], iout["c%d.%s" % (k, bad[0])])
        else:
            mout, iout, ierr = run_cases(cases, impl_exe, model_exe, disp_every,
                                         fams=[replay_fam] if replay_fam else None)
        bound = {}
        for l in ierr.split("\n"):
            if " bound=" in l:
                cid, b = l.split(" bound=")
                fam = cid.split(".", 1)[1]
                alg = cases[int(cid.split(".")[0][1:])]["alg"]
                bound.setdefault((alg, fam), set()).add(b)
        for (alg, fam), bs in sorted(bound.items()):
            if fam.startswith("d:"):
                want = fam[2:] + "/" + fam[2:]
                if bs != {want}:
                    rep.violation("virtual CPUID preset %s bound %s for %s (expected %s): family not exercised through the dispatcher" % (fam[2:], sorted(bs), alg, want),
                                  {"correspondence": "dispatch preset", "alg": alg, "family": fam, "bound": sorted(bs)}, no_input=True)
        if record:
            rep.notes.setdefault("families_bound_by_dispatcher", {}).update({"%s %s" % k: sorted(v) for k, v in bound.items()})
        for k, c in enumerate(cases):
            m = mout["c%d" % k]
            L = len(c["stream"])
            if record:
                hist_add(dist["alg"], c["alg"])
                hist_add(dist["segmentation"], c["aim"])
                hist_add(dist["stream_len_class"], ">=2^29 (long stream)" if c.get("big") else "injected total 2^29..2^32" if c.get("inject") else "0" if L == 0 else "<1024" if L < 1024 else "=1024" if L == 1024 else "<=4096" if L <= 4096 else ">4096")
                hist_add(dist["len_mod_1024"], "0" if L % 1024 == 0 else "1..1006" if L % 1024 < 1007 else "1007..1015" if L % 1024 <= 1015 else "1016..1023")
                hist_add(dist["len_mod_16"], L % 16)
                nu = len(c["lens"])
                hist_add(dist["n_updates"], "1" if nu == 1 else "2-4" if nu <= 4 else "5-16" if nu <= 16 else "17-255" if nu < 256 else ">=256")
                hist_add(dist["mh_blocks"], min(L // 1024, 9))
                if c["alg"] == "mur":
                    hist_add(dist["seed_class"], "0" if c["seed"] == 0 else "2^64-1" if c["seed"] == M64 else "<2^32" if c["seed"] < 1 << 32 else ">=2^32")
                for p in c["places"]:
                    hist_add(dist["placement"], "end-flush" if p == "e" else "after-guard+offset")
                if k < 3:
                    rep.sample({"case": case_line("c%d" % k, "*", c)[:300], "spec_and_model": m[-200:]})
            for f in ([replay_fam] if replay_fam else (FAMS if big else fams_for(k, disp_every))):
                i = iout["c%d.%s" % (k, f)]
                rep.case((tag, c["alg"], c["seed"], c["stream"], tuple(c["lens"]), tuple(c["places"]), f,
                          json.dumps(c.get("inject") or c.get("big"), sort_keys=True)), L > 0 or big or bool(c.get("inject")))
                kind, detail = compare(c, m, i)
                if c.get("inject") and kind == "observable" and not parse_out(i, c["alg"])["flags"]:
                    # an injected state need not be reachable from init: a difference is a broken model/code tie, not a failing input
                    kind, detail = "whitebox", "state injection total_length=0x%x: %s" % (c["inject"]["total0"], detail)
                if big and kind == "observable":
                    detail = "long stream (prefix %d + %d bytes; expected value = model continued from the context after the prefix): %s" % (c["big"]["prefix_len"], L, detail)
                if kind == "internal":
                    state["internal"] = state["internal"] or detail
                elif kind == "observable":
                    sig = signature(c, f, m, i)
                    if rep.match_known(sig) is not None or state["nviol"] >= 3 or big or c.get("inject"):
                        cm, m2, i2 = c, m, i
                    else:
                        cm = minimise(c, f, impl_exe, model_exe)
                        mo, io, _ = run_cases([cm], impl_exe, model_exe, fams=[f])
                        m2, i2 = mo["c0"], io["c0.%s" % f]
                        _, detail = compare(cm, m2, i2)
                        sig = signature(cm, f, m2, i2)
                    if rep.violation("%s family %s: %s" % (c["alg"], f, detail), replay_dict(cm, f, m2, i2, detail), sig):
                        state["nviol"] += 1
                elif kind == "whitebox" and state["wb"] is None:
                    state["wb"] = (f, c, detail, m, i)
        return len(cases)

    if replay and cases[0].get("big"):
        total = evaluate(cases, "replay-big", 0, True, big=True)
    else:
        total = evaluate(cases, "main", 3, True)
    if not replay:
        # 32-bit length arithmetic: injected contexts with total_length around 2^29 .. 2^32, and real streams >= 2^29 bytes
        inj, bigs = [], []
        for alg in algs:
            inj += gen_inject_cases(rng, alg, {"quick": 33, "thorough": 660}[tier])
            bigs += gen_big_cases(rng, alg, tier)
        total += evaluate(inj, "inject", 3, True)
        total += evaluate(bigs, "long-stream", 0, True, big=True)
        rep.notes["state_injection_cases"] = len(inj)
        rep.notes["long_stream_cases"] = [{"alg": c["alg"], "total": c["big"]["prefix_len"] + len(c["stream"])} for c in bigs]
    if (state["wb"] or not ok) and not rep.violations and not replay:
        # model/code tie or an obligation is broken but nothing observable yet: larger search
        # against the L0 oracle before reporting no-failing-input-found
        more = []
        for alg in algs:
            more += gen_cases(vlib.SplitMix64(vlib.seed() * 7919 + rng_salt + 1), (2 * n) // len(algs), alg, maxlen)
        total += evaluate(more, "larger-search", 2, False)
        rep.notes["larger_search_cases"] = len(more)
    rep.cov["traces_validated_against_impl"] = rep.cov["evaluations"]
    rep.notes["input_distribution"] = {k: dict(sorted(v.items(), key=lambda kv: str(kv[0]))) for k, v in dist.items()}
    if state["internal"]:
        rep.violation("internal: " + state["internal"], {"theorem_or_file": "Properties/%s.v" % pid, "detail": state["internal"]}, no_input=True)
    if not ok and not rep.violations:
        rep.violation("Coq obligation no longer checks: %s" % broken,
                      {"theorem_or_file": broken, "correspondence": "clean on %d cases against the L0 spec" % total}, no_input=True)
    if state["wb"] and not rep.violations:
        f, c, detail, m, i = state["wb"]
        rep.violation("model/code correspondence broken (context contents after an update) but no wrong digest found: %s family %s: %s" % (c["alg"], f, detail),
                      {"correspondence": "ctx after update (total_length, partial prefix, interim digests, murmur words)",
                       "alg": c["alg"], "family": f, "detail": detail, "case": case_line("c", f, c)[:4000]}, no_input=True)
    rep.assumptions = [
        "the block kernels (_mh_*_block_<family>, 16 interleaved SHA lanes; murmur stitched in) are modelled by one Gallina function (16 x the compression function of Spec/SHA1.v / SHA256.v on the dealt words; 64 x mur_body) and tied to it only on the generated cases",
        "sha1_for_mh_sha1 / sha256_for_mh_sha256 are modelled by md_hash of the interim-digest memory image",
        "inputs are copied next to an inaccessible page (end flush, or start right after one at a chosen offset 0..63); a fault or a modified input is reported as a violation",
        "ordinary cases use streams <= 16 KiB; totals of 2^29 bytes and more are exercised by (a) real streams whose periodic prefix is hashed natively only, the model continuing from the context the base family shows after the prefix (all five families must show the same context), and (b) contexts written directly (state injection) with total_length around 2^29..2^32",
    ] + list(extra_assumptions)
    return rep
