"""C18 — no hidden shared state: independent objects are usable from different threads.  PARTIAL.

Coq (Properties/C18.v): (1) the inventory regenerated from the BUILT plain library (tr/statics.py ->
Gen/StaticsGen.v) satisfies the rules by computation: every statically visible store into a writable
section is a dispatch pointer written inside its own dispatcher or the self-test status word; no
zero-initialised writable storage except version stamps; writable data of the C objects pinned;
pointers 8-byte sized at 8-aligned offsets; (2) generic commutation theorem for threads on private
objects (every interleaving = running alone); (3) first-call race of a dispatch stub, any number of
threads, any interleaving.
Run-time half (harness/statics_drv.c): the hook+FIPS library linked as its own shared object; after
the bindings are made and the self-test verdict is published all of its writable pages are
mprotect'ed read-only and N threads x M mixed operations on private objects must finish with the
sequential results (a write into a library static faults -> address -> symbol); then all 64
bindings are re-armed and 16 threads race through every entry's first call, many rounds; final
addresses of the dispatch pointers must be 8-byte aligned in the linked artefact."""
import hashlib, json, os, re, subprocess, sys
import vlib
sys.path.insert(0, os.path.join(vlib.VERIF, "tr"))
import statics as tr_statics

DRIVERS = []
_info = {}


def gen():
    d = vlib.build("plain")
    txt, info = tr_statics.generate(os.path.join(d, "obj"), vlib.REPO)
    _info.clear()
    _info.update(info)
    return {"Gen/StaticsGen.v": txt}


def build_so_and_harness():
    """the hook+FIPS archive as a shared object (own RW mapping), and the driver linked against it"""
    d = vlib.build("fips")
    h = hashlib.sha256()
    for f in ("statics_drv.c", "common.h", "vcpuid.S"):
        with open(os.path.join(vlib.VERIF, "harness", f), "rb") as fh:
            h.update(fh.read())
    tag = h.hexdigest()[:12]
    sodir = os.path.join(d, "so-" + tag)
    so = os.path.join(sodir, "libisalverif.so")
    exe = os.path.join(sodir, "statics_drv")
    with vlib.Lock("cc-statics"):
        if not os.path.exists(exe):
            os.makedirs(sodir, exist_ok=True)
            vlib.sh(["gcc", "-shared", "-o", so + ".tmp", "-Wl,-z,now", "-Wl,-z,relro", "-Wl,-Bsymbolic", "-Wl,-z,notext",
                     "-Wl,--whole-archive", os.path.join(d, "isa-l_crypto.a"), "-Wl,--no-whole-archive",
                     os.path.join(vlib.VERIF, "harness", "vcpuid.S")], timeout=600)
            os.rename(so + ".tmp", so)
            incs = []
            for sub in ("include", "", "mh_sha1", "mh_sha256", "mh_sha1_murmur3_x64_128", "rolling_hash"):
                incs += ["-I", os.path.join(vlib.REPO, sub)]
            vlib.sh(["gcc", "-O1", "-g", "-Wall", "-Wno-unused", "-Wno-deprecated-declarations", "-DSAFE_PARAM", "-DSAFE_DATA", "-DFIPS_MODE",
                     "-D" + vlib.GUARD] + incs + ["-I", os.path.join(vlib.VERIF, "harness"),
                     os.path.join(vlib.VERIF, "harness", "statics_drv.c"), "-L", sodir, "-lisalverif", "-Wl,-rpath," + sodir,
                     "-lpthread", "-ldl", "-o", exe + ".tmp"], timeout=600)
            os.rename(exe + ".tmp", exe)
    return so, exe


def so_symbols(so):
    rc, out = vlib.sh(["nm", "-n", so])
    syms = []
    for l in out.split("\n"):
        m = re.match(r"^([0-9a-f]{16}) (\w) (\S+)$", l)
        if m:
            syms.append((int(m.group(1), 16), m.group(2), m.group(3)))
    return syms


def sym_at(syms, off, kinds="dDbB"):
    best = None
    for a, k, n in syms:
        if a <= off and k in kinds:
            best = (a, k, n)
        if a > off:
            break
    return best


def code_at(syms, off):
    best = None
    for a, k, n in syms:
        if a <= off and k in "tT":
            best = (a, k, n)
        if a > off:
            break
    return best


KIND_OF_ENTRY = [("_sha1_", "sha1"), ("_sha256_", "sha256"), ("_sha512_", "sha512"), ("_md5_", "md5"), ("_sm3_", "sm3"), ("_mh_", "mh"),
                 ("_aes_cbc_", "cbc"), ("_aes_keyexp_", "cbc"), ("_aes_gcm_", "gcm"), ("_XTS_", "xts"), ("_rolling_", "roll")]
KIND_OF_OBJ = [("mh_sha", "mh"), ("murmur", "mh"), ("sha1", "sha1"), ("sha256", "sha256"), ("sha512", "sha512"), ("md5", "md5"), ("sm3", "sm3"),
               ("gcm", "gcm,cbc"), ("cbc", "cbc"), ("keyexp", "cbc,gcm,xts"), ("xts", "xts"), ("XTS", "xts"), ("rolling", "roll")]
ALL_PRESETS = ["host", "base", "sse", "avx", "avx2", "avx512", "avx512g2", "sse_ni", "avx512_ni"]
PRESET_OF_SUFFIX = [("_avx512_ni", ["avx512_ni", "host"]), ("_sse_ni", ["sse_ni"]), ("_avx512", ["avx512", "avx512g2"]), ("_vaes", ["avx512g2", "host"]),
                    ("_avx2", ["avx2"]), ("_avx_gen4", ["avx2", "avx512"]), ("_avx_gen2", ["avx"]), ("_avx", ["avx"]), ("_sse", ["sse", "sse_ni"]),
                    ("_base", ["base"]), ("_04", ["avx2", "avx512"]), ("_02", ["avx"]), ("_01", ["sse"]), ("_00", ["sse"])]


def sweep_targets(info, objs, entries):
    """which operation kinds / family presets reach code of the given objects: backward closure over
    "object A has a relocation to a symbol defined in object B", then the dispatchers
    (<entry>_dispatch_init in the multibinary objects) that select a family symbol defined inside
    the closure give (entry, family symbol) -> (operation kind, CPUID preset)"""
    g = info.get("graph", {})
    defined_in = {}
    for obj, d in g.items():
        for sym in d["defs"]:
            defined_in.setdefault(sym, obj)
    callers = {}
    for obj, d in g.items():
        for lab, sym in d["refs"]:
            o2 = defined_in.get(sym)
            if o2 and o2 != obj and "multibinary" not in obj:
                callers.setdefault(o2, set()).add(obj)
    closure, todo = set(objs), list(objs)
    while todo:
        o = todo.pop()
        for c in callers.get(o, ()):
            if c not in closure:
                closure.add(c)
                todo.append(c)
    kinds, presets, via = set(), set(), []
    for obj, d in g.items():
        if "multibinary" not in obj:
            continue
        for lab, sym in d["refs"]:
            if defined_in.get(sym) in closure:
                cands = [e for e in entries if e.lstrip("_") in lab]
                if not cands:
                    continue
                e = max(cands, key=len)
                k = [kk for pre, kk in KIND_OF_ENTRY if e.startswith(pre)]
                if k:
                    kinds.add(k[0])
                ps = [p for suf, p in PRESET_OF_SUFFIX if sym.endswith(suf)]
                presets.update(ps[0] if ps else ALL_PRESETS)
                via.append((e, sym))
    for o in objs:      # code that is not behind a dispatcher (C wrappers, precomputation): by object name
        for key, kk in KIND_OF_OBJ:
            if key in o:
                kinds.update(kk.split(","))
                break
    if not via:
        presets.update(ALL_PRESETS)
    if not kinds:
        kinds.update(k for _, k in KIND_OF_ENTRY)
    return sorted(kinds), [p for p in ALL_PRESETS if p in presets], sorted(set(via))[:40], sorted(closure)


def run_sweep(exe, entries, kinds, presets, seed, timeout=600):
    try:
        p = subprocess.run([exe, "1", "1", "1", str(seed), "sweep", ",".join(kinds), ",".join(presets)], input="\n".join(entries) + "\n",
                           stdout=subprocess.PIPE, stderr=subprocess.PIPE, text=True, timeout=timeout)
        return p.returncode, p.stdout, p.stderr
    except subprocess.TimeoutExpired as e:
        return 124, "", "timeout"


def run_rt(exe, entries, nth, nops, rounds, seed, timeout=900):
    try:
        p = subprocess.run([exe, str(nth), str(nops), str(rounds), str(seed)], input="\n".join(entries) + "\n",
                           stdout=subprocess.PIPE, stderr=subprocess.PIPE, text=True, timeout=timeout)
        return p.returncode, p.stdout, p.stderr
    except subprocess.TimeoutExpired as e:
        return 124, (e.stdout or b"").decode() if isinstance(e.stdout, bytes) else (e.stdout or ""), "timeout"


def evaluate_rt(rep, so, rc, out, err, params, info):
    """-> list of (what, replay, sig, no_input)"""
    syms = so_symbols(so)
    res = []
    f = {}
    desc = ([l[5:] for l in out.split("\n") if l.startswith("DESC ")] or [""])[0]
    for l in out.split("\n"):
        t = l.split()
        if not t:
            continue
        if t[0] == "B":
            f["B"] = dict(x.split("=", 1) for x in t[1:] if "=" in x)
        elif t[0] == "A":
            d = dict(x.split("=", 1) for x in t[1:] if "=" in x)
            f.setdefault("A_families", []).append(d)
            if "A" not in f:
                f["A"] = dict(d)
            else:
                f["A"]["result_mismatches"] = str(int(f["A"]["result_mismatches"]) + int(d["result_mismatches"]))
        elif t[0] == "FAULT":
            d = dict(x.split("=", 1) for x in t[2:] if "=" in x)
            if t[1] == "write-to-library-static":
                off = int(d["addr"], 16)
                tgt = sym_at(syms, off)
                pc = code_at(syms, int(d["pc"], 16))
                name = tgt[2] if tgt else "?"
                res.append(("write into library static `%s` (+%d) by `%s` during [%s] (%s)"
                            % (name, off - tgt[0] if tgt else 0, pc[2] if pc else "?", desc,
                               params.get("how", "%s threads x %s operations on private objects, library data write-protected" % (params.get("nth"), params.get("nops")))),
                            dict(params, kind=params.get("kind", "runtime"), fault=l, operation=desc, static=name, writer=pc[2] if pc else "?",
                                 families_completed_before_the_fault=[x.split("family=")[1].split()[0] for x in out.split("\n") if x.startswith("A family=")],
                                 family_order=["host", "base", "sse", "avx", "avx2", "avx512", "avx512g2", "sse_ni", "avx512_ni"]),
                            {"kind": "write_to_static", "static": re.sub(r"\.\d+$", "", name)}, False))
            else:
                pc = code_at(syms, int(d["pc"], 16)) if d.get("pc") else None
                res.append(("fault outside the library statics during the threaded run: %s in `%s`" % (l, pc[2] if pc else "?"),
                            dict(params, kind="runtime", fault=l), {"kind": "fault"}, False))
    # bindings the harness made late (an unbound dispatch slot written under protection): a harness defect that
    # is counted, not a property violation - unless the writer is not that entry's own dispatcher
    for l in out.split("\n"):
        if l.startswith("LATEBIND "):
            t = l.split()
            wr = code_at(syms, int(t[2].split("=")[1], 16))
            f.setdefault("late_binds", []).append({"entry": t[1], "writer": wr[2] if wr else "?", "where": " ".join(t[3:])})
            if not (wr and t[1].lstrip("_") in wr[2]):
                res.append(("dispatch slot of `%s` written by `%s`, which is not its dispatcher (%s)" % (t[1], wr[2] if wr else "?", " ".join(t[3:])),
                            dict(params, kind=params.get("kind", "runtime"), event=l), {"kind": "foreign_write_to_dispatch_slot"}, False))
        elif l.startswith("UNBOUND "):
            f.setdefault("unbound_after_binding_pass", []).append(l[8:])
    mis = [l for l in out.split("\n") if l.startswith("PTR") and int(l.split()[2], 16) % 8]
    if mis:
        res.append(("dispatch pointers not 8-byte aligned in the linked shared object: %s" % [l.split()[1] for l in mis][:5],
                    dict(params, kind="alignment", ptrs=mis[:8]), {"kind": "ptr_misaligned"}, True))
    nosym = [l for l in out.split("\n") if l.startswith("NOSYM")]
    if nosym:
        res.append(("dispatch symbols not found in the shared object: %s" % nosym[:4], dict(params, kind="harness"), {"kind": "harness"}, True))
    if not any(r[2]["kind"] in ("write_to_static", "fault", "foreign_write_to_dispatch_slot") for r in res):
        if params.get("kind") == "sweep":
            pass
        elif "A" not in f:
            res.append(("run-time half did not complete phase A (rc=%d): %s %s" % (rc, out[-300:], err[-300:]), dict(params, kind="runtime"), {"kind": "harness"}, True))
        else:
            if int(f["A"]["result_mismatches"]):
                res.append(("%s of the concurrent operations on private objects gave a result different from the sequential run" % f["A"]["result_mismatches"],
                            dict(params, kind="runtime", A=f["A"]), {"kind": "interference"}, False))
            if "B" not in f:
                res.append(("first-call race phase did not complete (rc=%d): %s" % (rc, (out + err)[-300:]), dict(params, kind="runtime"), {"kind": "race_crash"}, False))
            else:
                if int(f["B"]["result_mismatches"]) or int(f["B"]["bound_to_other_target"]):
                    res.append(("first-call race: %s wrong results, %s pointers bound to a different target than sequentially"
                                % (f["B"]["result_mismatches"], f["B"]["bound_to_other_target"]), dict(params, kind="runtime", B=f["B"]), {"kind": "race"}, False))
    return res, f


def run(tier, replay=None):
    rep = vlib.Report("C18", "proof", tier, "cd coq && make Properties/C18.vo  (coqc 8.16.1, full .vo build; obligation c_statics_ok = vm_compute on Gen/StaticsGen.v)")
    g = gen()
    info = dict(_info)
    ok, broken = vlib.coq_step(rep, "C18", g, timeout=900)
    so, exe = build_so_and_harness()
    entries = sorted({s["name"][:-len("_dispatched")] for s in info.get("dispatch_ptrs", [])})
    rep.notes["inventory"] = {"objects": info.get("n_objects"), "stores_into_writable_sections": len(info.get("stores", [])),
                              "distinct_store_targets": len({s["target"] for s in info.get("stores", [])}),
                              "bss_symbols": len(info.get("bss", [])), "data_symbols": info.get("n_data_syms"),
                              "data_symbols_by_object_top": sorted(info.get("data_syms_by_obj", {}).items(), key=lambda kv: -kv[1])[:12],
                              "c_objects_writable_symbols": len(info.get("c_statics_nonconst", [])),
                              "const_relro_symbols_not_counted_as_writable": info.get("relro_const_symbols"),
                              "instructions_taking_the_address_of_writable_data": info.get("addr_taken"),
                              "dispatch_pointers": len(entries), "translate_error": info.get("error"),
                              "dispatch_pointer_section_alignment_log2": sorted({s.get("align") for s in info.get("dispatch_ptrs", [])})}
    for s in info.get("stores", [])[:3]:
        rep.sample({"store": s})
    if info.get("dispatch_ptrs") and min(s.get("align", 0) for s in info["dispatch_ptrs"]) < 3:
        rep.notes["finding_alignment_by_layout_only"] = ("the .data sections holding the dispatch pointers are only 2**%d aligned in the objects (nasm default): "
                                                          "8-byte alignment of the pointers in a final link is a matter of layout, not of construction; checked in the "
                                                          "linked shared object on every run; see fixes/dispatch-ptr-align.patch" % min(s.get("align", 0) for s in info["dispatch_ptrs"]))

    seed = vlib.seed()
    if replay:
        r = json.load(open(replay))["replay"]
        params = {"nth": r.get("nth", 16), "nops": r.get("nops", 40), "rounds": r.get("rounds", 20), "seed": r.get("seed", seed)}
    else:
        params = {"quick": {"nth": 16, "nops": 60, "rounds": 60, "seed": seed},
                  "thorough": {"nth": 32, "nops": 600, "rounds": 1500, "seed": seed}}[tier]
    if replay and r.get("kind") == "sweep":
        src, sout, serr = run_sweep(exe, entries, r["opkinds"], r["presets"], r.get("seed", seed))
        sfound, _ = evaluate_rt(rep, so, src, sout, serr, {k: r[k] for k in ("kind", "opkinds", "presets", "seed", "how") if k in r}, info)
        rep.case(("replay", json.dumps(r.get("operation", ""))), True)
        for what, rp, sig, no_input in [x for x in sfound if x[2]["kind"] in ("write_to_static", "fault")][:2]:
            rep.violation(what, rp, sig)
        return rep.finish()
    rc, out, err = run_rt(exe, entries, params["nth"], params["nops"], params["rounds"], params["seed"])
    found, f = evaluate_rt(rep, so, rc, out, err, params, info)
    nops_kinds = 10
    for fam in range(9):
        for t in range(params["nth"]):
            rep.case(("A", fam, t, params["seed"]), True)
    for r_ in range(params["rounds"]):
        rep.case(("B", r_, params["seed"]), True)
    rep.cov["traces_validated_against_impl"] = 9 * params["nth"] * params["nops"] + params["rounds"] * 16 * nops_kinds
    rep.notes["runtime"] = {"phase_A_per_family": f.get("A_families"), "phase_B": f.get("B"), "entries_given": len(entries),
                            "bindings_made_late_by_the_harness": f.get("late_binds", []), "unbound_after_binding_pass": f.get("unbound_after_binding_pass", [])}
    if f.get("A_families") is not None and len(f["A_families"]) < 9 and not found:
        found.append(("run-time half covered only %d of 9 implementation families" % len(f["A_families"]), dict(params, kind="runtime"), {"kind": "harness"}, True))
    if f.get("A"):
        rep.sample({"phase_A": f["A"], "phase_B": f.get("B")})
    real = [x for x in found if not x[3]]
    soft = [x for x in found if x[3]]
    for what, rp, sig, no_input in real[:4]:
        rep.violation(what, rp, sig)
    if not ok:
        # which rule rejects what (for the replay file)
        bad = []
        for s in info.get("stores", []):
            e = s["target"][:-len("_dispatched")].lstrip("_") if s["target"].endswith("_dispatched") else None
            if not ((e and "multibinary" in s["obj"] and e in s["func"]) or (s["target"] == "self_test_status" and s["obj"] == "asm_self_tests.o")):
                bad.append({"rule": "written_statics_allowed", **{k: s[k] for k in ("obj", "func", "target", "section", "insn")}})
        for w in info.get("bss", []):
            if "_slver" not in w["name"]:
                bad.append({"rule": "bss_allowed", "obj": w["obj"], "symbol": w["name"], "size": w["size"]})
        pinned = {"gcm_vectors", "xts_vectors", "cbc_vectors", "aes_gcm_256_tag", "aes_gcm_256_iv", "aes_gcm_128_tag", "aes_gcm_128_iv",
                  "aes_xts_256_ciphertext", "aes_xts_256_plaintext", "aes_xts_256_tweak", "aes_xts_256_key2", "aes_xts_256_key1",
                  "aes_xts_128_ciphertext", "aes_xts_128_plaintext", "aes_xts_128_tweak", "aes_xts_128_key2", "aes_xts_128_key1",
                  "aes_cbc_256_iv", "aes_cbc_192_iv", "aes_cbc_128_iv", "rolling_hash2_table1", "msg_sha512", "expResultDigest_sha512",
                  "isal_crypto_version_str"}
        for w in info.get("c_statics_nonconst", []):
            if "_slver" not in w["name"] and w["name"] not in pinned and not w.get("bss"):
                bad.append({"rule": "c_statics_allowed", "obj": w["obj"], "symbol": w["name"], "size": w["size"]})
        if bad and not replay:
            # targeted search: drive exactly the operation kinds / families that reach the offending code,
            # over a grid of alignments x length classes x variants, library data write-protected
            objs = sorted({b["obj"] for b in bad})
            kinds, presets, via, closure = sweep_targets(info, objs, entries)
            rep.notes["targeted_search"] = {"offending_objects": objs, "reached_from": via, "operation_kinds": kinds, "family_presets": presets,
                                            "objects_in_backward_closure": len(closure)}
            src, sout, serr = run_sweep(exe, entries, kinds, presets, params["seed"])
            sp = {"kind": "sweep", "opkinds": kinds, "presets": presets, "seed": params["seed"],
                  "how": "targeted sweep: alignments 0..63 x 28 length classes x all variants, single thread, library data write-protected"}
            sfound, _ = evaluate_rt(rep, so, src, sout, serr, sp, info)
            sreal = [x for x in sfound if x[2]["kind"] in ("write_to_static", "fault", "foreign_write_to_dispatch_slot")]
            real = real + sreal
            rep.notes["targeted_search"]["completed_without_fault"] = [l for l in sout.split("\n") if l.startswith("S ")]
            rep.notes["targeted_search"]["bindings_made_late_by_the_harness"] = [l for l in sout.split("\n") if l.startswith("LATEBIND ")]
            for k_ in range(len([l for l in sout.split("\n") if l.startswith("S ")]) + 1):
                rep.case(("sweep", k_, tuple(kinds), tuple(presets)), True)
            for what, rp, sig, no_input in sreal[:2]:
                rep.violation(what, dict(rp, offending=bad[:6]), sig)
        if not real:
            rep.violation("Coq obligation no longer checks (%s); offending inventory entries: %s; the write-protected run of %d threads x %d operations and %d race rounds and the targeted sweep (%s) find no failure"
                          % ((broken or {}).get("error", "")[:200], bad[:4], params["nth"], params["nops"], params["rounds"], rep.notes.get("targeted_search", {}).get("operation_kinds")),
                          {"theorem_or_file": broken, "theorem": "C18_written_statics_allowed_partial", "offending": bad[:20], "translate_error": info.get("error")}, no_input=True)
        else:
            rep.notes["static_half_offending"] = bad[:20]
    for what, rp, sig, no_input in soft[:3]:
        if not rep.violations:
            rep.violation(what, rp, sig, no_input=True)
    rep.cov["rule"] = ("static half: one obligation over the whole regenerated inventory (all %s objects). run-time half: evaluations = threads of phase A x 9 implementation families selected through the real dispatchers by virtual CPUID (each = M mixed operations: "
                       "sha1/sha256/sha512/md5/sm3 managers with 1-5 contexts and split submissions, mh_sha1/mh_sha256/mh_sha1_murmur3, key expansion + CBC 128/192/256 round trip, "
                       "GCM one-shot/streaming/nt/streaming-nt 128/256 round trip, XTS 128/256 plain and expanded-key round trips, rolling hash) + race rounds of phase B "
                       "(16 threads x 10 operation kinds, all bindings re-armed)" % info.get("n_objects"))
    rep.notes["input_distribution"] = {"phase_A": params, "operation_kinds": ["sha1", "sha256", "sha512", "md5", "sm3", "mh*3", "keyexp+cbc", "gcm(4 modes x 2 key sizes)", "xts(2 key sizes x plain/expanded)", "rolling"],
                                       "data_pointer_alignment": "every operation: 0 (25%), 1, 2, 3 mod 64 (12.5% each), random odd, random 0..63, random multiple of 4 (12.5% each); outputs at other derived offsets; nt GCM variants 64-aligned as documented",
                                       "in_place": "CBC, GCM, XTS: in-place and out-of-place variants",
                                       "lengths": "hash 0..699 (25%: ..2999) first context, mh 0..2999 (25%: ..5999, whole-block and mid-block split points), cbc 16..640 (..6400), gcm 0..899 (..3999), xts 16..915 (..2415), rolling 64..3063 (..7063), windows 1..48"}
    rep.level = "proof"
    rep.assumptions = ["PARTIAL: stores into library statics through computed pointers (326 instructions take the address of writable data, nearly all constant tables) are excluded only on the paths executed under write protection",
                       "the generic commutation theorem's hypotheses (an operation writes only its own objects and reads only them and never-written data) are observed for the code (results equal the sequential run), not proved; C08 bounds the write footprints",
                       "first-call race model: the dispatcher's choice is a function of CPUID/XCR0 only (C12) and identical on all cores; an aligned 8-byte store/load is atomic; sequentially consistent memory",
                       "the run-time half links the hook+FIPS archive as a shared object (-Bsymbolic, text relocations): same code, different data layout than a static link"]
    return rep.finish()
