"""checks/abistatic.py — static half of C19 and C14: drives tr/abicfg.py, emits coq/Gen/AbiGen*.v,
reads the verdicts computed INSIDE Coq by the verified checkers (Model/AbiCfg.v, soundness in
Proofs/AbiCfg*.v, statements in Properties/C19.v, C14.v), and searches witness paths.

The Python functions `g_*` / `v_*` below are a line-by-line port of the Coq transfer functions.
They decide nothing: they (a) infer the claim (preserved GPR mask, vector dirt left behind) that
each function is then *checked* against by Coq, and (b) replay single paths without joins to turn a
failing Coq obligation into a concrete path (sequence of branch decisions).  If the port and the
Coq checker disagreed, the Coq obligation for the inferred claim would fail and be reported."""
import hashlib, json, os, pickle, re, sys, time
import vlib
sys.path.insert(0, os.path.join(vlib.VERIF, "tr"))
import abicfg

RSP = 4
ABI_SAVED = sum(1 << r for r in (3, 5, 12, 13, 14, 15))
ALL16 = (1 << 16) - 1
GPR = abicfg.GPR64

# ------------------------------------------------------------------ port of the GPR/stack machine

def SymI(r, k=0):
    return ("S", ("I", r), k)


def stackish_base(b):
    return b[0] == "A" or b[1] == RSP


def stackish(v):
    return v == "ST" or (v != "T" and stackish_base(v[1]))


def aval_leq(a, b):
    if b == "ST":
        return True
    if b == "T":
        return not stackish(a)
    return a == b


def aval_join(a, b):
    if a == b:
        return a
    return "ST" if stackish(a) or stackish(b) else "T"


class G:
    __slots__ = ("ar", "sl", "bd", "df")

    def __init__(self, ar, sl, bd, df):
        self.ar, self.sl, self.bd, self.df = ar, sl, bd, df

    def copy(self):
        return G(list(self.ar), dict(self.sl), dict(self.bd), self.df)


def g_init():
    return G([SymI(r) for r in range(16)], {}, {}, True)


def upper(s, b, k):
    if b[0] == "I":
        return k if b[1] == RSP else None
    c = s.bd.get(b[1])
    return None if c is None else c + k


def disjoint(s, b, k, sz, b2, k2):
    if b == b2:
        return k2 + 8 <= k or k + sz <= k2
    if b[0] == "A" and b2 == ("I", RSP):
        u = upper(s, b, k)
        return u is not None and u + sz <= k2
    return False


def kill_overlap(s, b, k, sz):
    return {(b2, k2): v for (b2, k2), v in s.sl.items() if disjoint(s, b, k, sz, b2, k2)}


def below_frame(s, b, k, sz):
    u = upper(s, b, k)
    return u is not None and u + sz <= 0


def any_stackish(s, m):
    return any((m >> r) & 1 and stackish(s.ar[r]) for r in range(16))


def load_val(s, b, k):
    v = s.sl.get((b, k))
    if v is not None:
        return v
    if b == ("I", RSP) and k >= 8:
        return "T"
    return "ST"


OPTIMISTIC = [False]     # claim inference only: a store through a computed stack address is taken
                         # to stay inside the scratch part of the frame (the strict Coq check then
                         # rejects the function, which is listed as dynamic-only; its callers are
                         # checked against the claim inferred this way, and say so)


def g_tf(i, s, claims):
    """-> new state or None (the Coq gtf); s is not modified"""
    op = i[0]
    s = s.copy()
    if op in ("GPush", "GPushX"):
        v = s.ar[RSP]
        if v in ("T", "ST") or not stackish_base(v[1]) or not below_frame(s, v[1], v[2] - 8, 8):
            return None
        val = s.ar[i[1]] if op == "GPush" else ("ST" if any_stackish(s, i[1]) else "T")
        s.sl = kill_overlap(s, v[1], v[2] - 8, 8)
        s.sl[(v[1], v[2] - 8)] = val
        s.ar[RSP] = ("S", v[1], v[2] - 8)
        return s
    if op == "GPop":
        v = s.ar[RSP]
        if v in ("T", "ST") or not stackish_base(v[1]):
            return None
        val = load_val(s, v[1], v[2])
        if i[1] == RSP:
            s.ar[RSP] = val
        else:
            s.ar[RSP] = ("S", v[1], v[2] + 8)
            s.ar[i[1]] = val
        return s
    if op == "GMov":
        s.ar[i[1]] = s.ar[i[2]]
        return s
    if op == "GLea":
        v = s.ar[i[2]]
        s.ar[i[1]] = v if v in ("T", "ST") else ("S", v[1], v[2] + i[3])
        return s
    if op == "GLoad":
        v = s.ar[i[2]]
        if v == "T":
            s.ar[i[1]] = "T"
        elif v == "ST":
            s.ar[i[1]] = "ST"
        elif stackish_base(v[1]):
            s.ar[i[1]] = load_val(s, v[1], v[2] + i[3])
        else:
            s.ar[i[1]] = "T"
        return s
    if op == "GAlign":
        d, aid = i[1], i[2]
        v = s.ar[d]
        u = None if v in ("T", "ST") else upper(s, v[1], v[2])
        ment = lambda x: x not in ("T", "ST") and x[1] == ("A", aid)
        s.ar = ["ST" if ment(x) else x for x in s.ar]
        s.sl = {(b, k): x for (b, k), x in s.sl.items() if b != ("A", aid) and not ment(x)}
        s.bd = {a: c for a, c in s.bd.items() if a != aid}
        if v in ("T", "ST"):
            s.ar[d] = v
        elif not stackish_base(v[1]):
            s.ar[d] = "T"
        elif u is None:
            s.ar[d] = "ST"
        else:
            s.ar[d] = ("S", ("A", aid), 0)
            s.bd[aid] = u
        return s
    if op == "GStore":
        b, k, sz, src = i[1], i[2], i[3], i[4]
        v = s.ar[b]
        if v == "T":
            return s
        if v == "ST":
            return s if OPTIMISTIC[0] else None
        if not stackish_base(v[1]):
            return s
        if not (sz > 0 and below_frame(s, v[1], v[2] + k, sz)):
            return None
        if src is not None and sz == 8:
            val = s.ar[src]
            s.sl = kill_overlap(s, v[1], v[2] + k, 8)
            s.sl[(v[1], v[2] + k)] = val
        else:
            s.sl = kill_overlap(s, v[1], v[2] + k, sz)
        return s
    if op == "GStoreNS":
        return None if any_stackish(s, i[1]) and not OPTIMISTIC[0] else s
    if op == "GClob":
        val = "ST" if any_stackish(s, i[2]) else "T"
        s.ar = [val if (i[1] >> r) & 1 else s.ar[r] for r in range(16)]
        return s
    if op == "GCall":
        v = s.ar[RSP]
        if v in ("T", "ST") or not stackish_base(v[1]) or not below_frame(s, v[1], v[2] - 8, 8):
            return None
        if any(r != RSP and stackish(s.ar[r]) for r in range(16)):
            return None
        pres = claims[i[1]]["pres"] if i[1] in claims else 0
        u = upper(s, v[1], v[2])
        keep = {}
        for (b2, k2), x in s.sl.items():
            if b2 == v[1]:
                ok = v[2] <= k2
            else:
                ok = b2 == ("I", RSP) and u is not None and u <= k2
            if ok:
                keep[(b2, k2)] = x
        s.sl = keep
        s.ar = [s.ar[r] if r == RSP or (pres >> r) & 1 else "T" for r in range(16)]
        return s
    if op == "GStd":
        s.df = False
        return s
    if op == "GCld":
        s.df = True
        return s
    return None       # GCtl, GUnknown


def g_leq(a, b):
    if not all(aval_leq(a.ar[r], b.ar[r]) for r in range(16)):
        return False
    for key, v in b.sl.items():
        va = a.sl.get(key)
        if va is None or not aval_leq(va, v):
            return False
    for aid, c in b.bd.items():
        ca = a.bd.get(aid)
        if ca is None or not ca <= c:
            return False
    return (not b.df) or a.df


def g_join(a, b):
    sl = {key: aval_join(v, b.sl[key]) for key, v in a.sl.items() if key in b.sl}
    bd = {aid: max(c, b.bd[aid]) for aid, c in a.bd.items() if aid in b.bd}
    return G([aval_join(a.ar[r], b.ar[r]) for r in range(16)], sl, bd, a.df and b.df)


def restored_mask(s):
    """registers holding their entry value"""
    m = 0
    for r in range(16):
        if s.ar[r] == SymI(r):
            m |= 1 << r
    return m


def g_exit_problems(s, pres):
    out = []
    if s.ar[RSP] != SymI(RSP):
        out.append("rsp = %s at exit, not entry rsp" % show(s.ar[RSP]))
    for r in range(16):
        if (pres >> r) & 1 and r != RSP and s.ar[r] != SymI(r):
            out.append("%s = %s at exit, not its entry value" % (GPR[r], show(s.ar[r])))
    if not s.df:
        out.append("DF possibly set at exit")
    return out


def show(v):
    if v == "T":
        return "unknown"
    if v == "ST":
        return "unknown(stack-derived)"
    b = ("entry_%s" % GPR[v[1][1]]) if v[1][0] == "I" else "aligned_%x" % v[1][1]
    return b + ("%+d" % v[2] if v[2] else "")

# ------------------------------------------------------------------ port of the vector machine

def v_tf(i, s, claims):
    op = i[0]
    s = list(s)
    if op == "VW":
        merge, w, m = i[1], i[2], i[3]
        for r in range(32):
            if (m >> r) & 1:
                s[r] = max(s[r], w) if merge else w
        return s
    if op == "VClr":
        merge, w, r = i[1], i[2], i[3]
        s[r] = (0 if s[r] <= w else s[r]) if merge else 0
        return s
    if op == "VMov":
        merge, w, d, src = i[1], i[2], i[3], i[4]
        v = min(s[src], w)
        s[d] = (v if s[d] <= w else s[d]) if merge else v
        return s
    if op == "VZeroAll":
        return [0 if r < 16 else s[r] for r in range(32)]
    if op == "VZeroUpper":
        return [min(s[r], 1) if r < 16 else s[r] for r in range(32)]
    if op == "VCall":
        vd = claims[i[1]]["vd"] if i[1] in claims else [3] * 32
        return [max(s[r], vd[r]) for r in range(32)]
    return None


def v_leq(a, b):
    return all(x <= y for x, y in zip(a, b))


def v_join(a, b):
    return [max(x, y) for x, y in zip(a, b)]

# ------------------------------------------------------------------ generic solver (for claim inference)

def succs(t):
    return [t[1]] if t[0] == "TJmp" else ([t[1], t[2]] if t[0] == "TJcc" else [])


def solve(f, which, claims):
    """Kildall; -> ({block index: out-state at the end of the block}, failure or None)"""
    tf, join, leq, init = ((g_tf, g_join, g_leq, g_init()) if which == "g" else (v_tf, v_join, v_leq, [0] * 32))
    inv = {0: init}
    wl = [0]
    outs = {}
    fuel = (len(f.blocks) + 1) * 200
    while wl:
        fuel -= 1
        if fuel < 0:
            return outs, ("fuel", None, None)
        b = wl.pop(0)
        s = inv[b]
        blk = f.blocks[b]
        for n, i in enumerate(blk[which]):
            s2 = tf(i, s, claims)
            if s2 is None:
                return outs, ("insn", b, (n, i, s))
            s = s2
        outs[b] = s
        if blk["term"][0] == "TBad":
            return outs, ("term", b, None)
        for t in succs(blk["term"]):
            if t not in inv:
                inv[t] = s
                wl.insert(0, t)
            elif not leq(s, inv[t]):
                inv[t] = join(inv[t], s)
                wl.insert(0, t)
    return outs, None


def infer_claim(f, claims):
    """the strongest claim the port can justify: GPRs restored at every exit, vector dirt at exits"""
    gouts, gfail = solve(f, "g", claims)
    strict_fail = gfail
    if gfail:
        OPTIMISTIC[0] = True
        try:
            gouts, gfail = solve(f, "g", claims)
        finally:
            OPTIMISTIC[0] = False
    pres = ALL16 & ~(1 << RSP)
    nexit = 0
    for b, s in gouts.items():
        if f.blocks[b]["term"][0] in ("TRet", "TTail", "TTailInd"):
            nexit += 1
            pres &= restored_mask(s)
            if f.blocks[b]["term"][0] == "TTailInd":
                pres &= ABI_SAVED
    if gfail:
        pres = 0
    vouts, vfail = solve(f, "v", claims)
    vd = [0] * 32
    for b, s in vouts.items():
        if f.blocks[b]["term"][0] in ("TRet", "TTail", "TTailInd"):
            vd = v_join(vd, s)
    if vfail:
        vd = [3] * 32
    return {"pres": pres, "vd": vd, "gfail": strict_fail, "vfail": vfail, "exits": nexit}

# ------------------------------------------------------------------ witness search (single paths, no joins)

def witness(f, which, claims, claim, budget=200000):
    """depth-first enumeration of paths (each block at most twice per path) looking for a path on
    which a transfer fails or the exit condition is violated.  -> dict or None"""
    tf = g_tf if which == "g" else v_tf
    init = g_init() if which == "g" else [0] * 32
    stack = [(0, init, ())]
    steps = 0
    while stack and steps < budget:
        b, s, path = stack.pop()
        steps += 1
        blk = f.blocks[b]
        bad = None
        for n, i in enumerate(blk[which]):
            s2 = tf(i, s, claims)
            if s2 is None:
                bad = "abstract instruction #%d of the block (%s) is not admissible in state" % (n, list(i))
                break
            s = s2
        path2 = path + (b,)
        t = blk["term"]
        if bad is None and t[0] == "TBad":
            bad = "control flow not understood"
        if bad is None and t[0] in ("TRet", "TTail", "TTailInd"):
            if which == "g":
                pr = g_exit_problems(s, claim["pres"])
                if pr:
                    bad = "; ".join(pr)
            else:
                dirty = [r for r in range(32) if s[r] > claim["vd"][r]]
                if dirty:
                    bad = "vector registers written and not cleared at exit: " + ", ".join(
                        "%s%d" % ({1: "xmm", 2: "ymm", 3: "zmm"}[s[r]], r) for r in dirty)
        if bad:
            return {"blocks": ["%x" % f.blocks[x]["addr"] for x in path2], "exit": t[0], "problem": bad,
                    "exit_block": "%x" % blk["addr"]}
        for nx in reversed(succs(t)):
            if path2.count(nx) < 2:
                stack.append((nx, s, path2))
    return None

# ------------------------------------------------------------------ library model, classification, claims

NSHARDS = 12


def library(variant="plain"):
    """translate the built objects; cached next to them, keyed by the bytes of the objects and of
    the translator"""
    d = vlib.build(variant)
    objdir = os.path.join(d, "obj")
    h = hashlib.sha256()
    for fn in sorted(os.listdir(objdir)):
        if fn.endswith(".o"):
            h.update(fn.encode())
            with open(os.path.join(objdir, fn), "rb") as fh:
                h.update(hashlib.sha256(fh.read()).digest())
    for src in (abicfg.__file__, __file__):
        with open(src, "rb") as fh:
            h.update(fh.read())
    cache = os.path.join(d, "abicfg-%s.pkl" % h.hexdigest()[:16])
    if os.path.exists(cache):
        with open(cache, "rb") as fh:
            return pickle.load(fh)
    lib = Library(objdir)
    for fn in os.listdir(d):
        if fn.startswith("abicfg-") and fn.endswith(".pkl"):
            os.remove(os.path.join(d, fn))
    with open(cache + ".tmp", "wb") as fh:
        pickle.dump(lib, fh)
    os.rename(cache + ".tmp", cache)
    return lib


class Library:
    def __init__(self, objdir):
        t0 = time.time()
        metas, funcs, roots, ext, info = abicfg.load_library(objdir, parallel=True)
        self.keys = sorted(funcs)
        self.fid = {k: n + 1 for n, k in enumerate(self.keys)}
        self.funcs = funcs
        self.roots = roots
        self.info = {"c_objects": info["c_objects"], "data_in_text": info["data_in_text"], "unresolved_callees": ext}
        # address-taken symbols: named by a relocation of a non-call instruction, or by a C object
        taken = set(info["c_referenced"])
        for m in metas.values():
            taken |= m["taken"]
        called = set()
        for f in funcs.values():
            called |= {k for k in f.callees if isinstance(k, tuple) and k[0] != "ext"}
        self.kind = {}
        for k in self.keys:
            o = metas[k[0]]
            names = [n for n, a in o["globals"].items() if a == k[1]]
            if k[1] in o["ptrs"] or any(n in taken for n in names) or (k in roots and k not in called):
                self.kind[k] = "entry"
            else:
                self.kind[k] = "internal"       # reached only by `call` from assembly: custom convention
        self.aes = {k: os.path.exists(os.path.join(vlib.REPO, "aes", k[0][:-2] + ".asm")) for k in self.keys}
        self.names = {k: funcs[k].name for k in self.keys}
        self.allnames = {k: sorted(n for n, a in metas[k[0]]["globals"].items() if a == k[1]) for k in self.keys}
        self.nobj = len(metas)
        # claims, callees first
        self.claims = {}
        order, seen = [], set()

        def visit(k, depth=0):
            if k in seen or depth > 50:
                return
            seen.add(k)
            for c in funcs[k].callees:
                if c in funcs:
                    visit(c, depth + 1)
            order.append(k)
        for k in self.keys:
            visit(k)
        for k in order:
            self.claims[k] = infer_claim(funcs[k], self.claims)
        self.translate_s = round(time.time() - t0, 1)


def coq_list(xs):
    return "[" + "; ".join(xs) + "]"


def emit_g(i, fid):
    op = i[0]
    if op in ("GPush", "GPop"):
        return "%s %d" % (op, i[1])
    if op == "GPushX":
        return "GPushX %d" % i[1]
    if op == "GMov":
        return "GMov %d %d" % (i[1], i[2])
    if op == "GLea":
        return "GLea %d %d (%d)" % (i[1], i[2], i[3])
    if op == "GLoad":
        return "GLoad %d %d (%d)" % (i[1], i[2], i[3])
    if op == "GAlign":
        return "GAlign %d %d %d" % (i[1], i[2] + 1, i[3])
    if op == "GStore":
        return "GStore %d (%d) %d %s" % (i[1], i[2], i[3], "None" if i[4] is None else "(Some %d)" % i[4])
    if op == "GStoreNS":
        return "GStoreNS %d" % i[1]
    if op == "GClob":
        return "GClob %d %d" % (i[1], i[2])
    if op == "GCall":
        return "GCall %d" % fid.get(i[1], 0xFFFFFF)
    return op


def emit_v(i, fid):
    op = i[0]
    b = lambda x: "true" if x else "false"
    if op == "VW":
        return "VW %s %d %d" % (b(i[1]), i[2], i[3])
    if op == "VClr":
        return "VClr %s %d %d" % (b(i[1]), i[2], i[3])
    if op == "VMov":
        return "VMov %s %d %d %d" % (b(i[1]), i[2], i[3], i[4])
    if op == "VCall":
        return "VCall %d" % fid.get(i[1], 0xFFFFFF)
    return op


def emit_term(t, fid):
    if t[0] == "TJmp":
        return "(TJmp %d)" % (t[1] + 1)
    if t[0] == "TJcc":
        return "(TJcc %d %d)" % (t[1] + 1, t[2] + 1)
    if t[0] == "TTail":
        return "(TTail %d)" % fid.get(t[1], 0xFFFFFF)
    return t[0]


def emit_func(lib, k):
    f = lib.funcs[k]
    bl = []
    for n, b in enumerate(f.blocks):
        bl.append("Bk %d %s %s %s" % (n + 1, coq_list(emit_g(i, lib.fid) for i in b["g"]),
                                       coq_list(emit_v(i, lib.fid) for i in b["v"]), emit_term(b["term"], lib.fid)))
    return "(* %s %s @%x *)\n Fn %d [\n  %s]" % (k[0], f.name, k[1], lib.fid[k], ";\n  ".join(bl))


HEADER = ("(* GENERATED by checks/abistatic.py from the built objects of the plain library variant — do not edit *)\n"
          "From Coq Require Import ZArith NArith PArith List Bool.\n"
          "From ISAL Require Import Model.AbiCfg%s.\nImport ListNotations.\n")


def predicted_failing(lib):
    """what the port expects the Coq checkers to reject (the Coq lemmas in the generated files state
    exactly these lists, so a disagreement breaks the build and is reported)"""
    g, v = [], []
    for k in lib.keys:
        c = lib.claims[k]
        f = lib.funcs[k]
        okg = py_check(f, "g", lib.claims, c) and (lib.kind[k] != "entry" or (c["pres"] & ABI_SAVED) == ABI_SAVED)
        if not okg:
            g.append(k)
        if lib.aes[k]:
            okv = py_check(f, "v", lib.claims, c) and all(x == 0 for x in c["vd"])
            if not okv:
                v.append(k)
    return g, v


def py_check(f, which, claims, claim):
    outs, fail = solve(f, which, claims)
    if fail:
        return False
    for b, s in outs.items():
        t = f.blocks[b]["term"]
        if t[0] in ("TRet", "TTail", "TTailInd"):
            if which == "g":
                if g_exit_problems(s, claim["pres"]):
                    return False
                if t[0] == "TTailInd" and claim["pres"] & ~ABI_SAVED:
                    return False
                if t[0] == "TTail" and claim["pres"] & ~claims.get(t[1], {"pres": 0})["pres"]:
                    return False
            else:
                s2 = s if t[0] != "TTail" else v_join(s, claims.get(t[1], {"vd": [3] * 32})["vd"])
                if any(x > y for x, y in zip(s2, claim["vd"])):
                    return False
    return True


def gen(lib=None):
    """-> {"Gen/AbiGen….v": text}"""
    lib = lib or library()
    files = {}
    cl = ["Cl %d %d %s" % (lib.fid[k], lib.claims[k]["pres"], coq_list(str(x) for x in lib.claims[k]["vd"]))
          for k in lib.keys]
    entry = [str(lib.fid[k]) for k in lib.keys if lib.kind[k] == "entry"]
    aes = [str(lib.fid[k]) for k in lib.keys if lib.aes[k]]
    files["Gen/AbiGenClaims.v"] = (HEADER % "" +
        "Definition claim_list : list (positive * claim) :=\n " + coq_list(cl).replace("; Cl", ";\n  Cl") + ".\n"
        "Definition cmap := Eval vm_compute in claim_map claim_list.\n"
        "Definition claims : positive -> claim := claims_of cmap.\n"
        "Local Open Scope positive_scope.\n"
        "Definition entry_ids : list positive := %s.\nDefinition aes_ids : list positive := %s.\n"
        "(* an entry point must keep the SysV callee-saved set; a routine reached only by `call` from\n"
        "   assembly (custom convention) must keep what it claims *)\n"
        "Definition chk19 (f : func) : bool := if mem_pos entry_ids (fid f) then check_c19 claims f else check_gclaim claims f.\n"
        "Definition chk14 (f : func) : bool := negb (mem_pos aes_ids (fid f)) || check_c14 claims f.\n"
        % (coq_list(entry), coq_list(aes)))
    # shards balanced by size
    size = lambda k: 4 * len(lib.funcs[k].blocks) + sum(len(b["g"]) + len(b["v"]) for b in lib.funcs[k].blocks)
    shards = [[] for _ in range(NSHARDS)]
    load = [0] * NSHARDS
    for k in sorted(lib.keys, key=lambda k: -size(k)):
        j = load.index(min(load))
        shards[j].append(k)
        load[j] += size(k)
    gfail, vfail = predicted_failing(lib)
    for j, ks in enumerate(shards):
        ks.sort(key=lambda k: lib.fid[k])
        fl = [str(lib.fid[k]) for k in ks if k in gfail]
        vl = [str(lib.fid[k]) for k in ks if k in vfail]
        files["Gen/AbiGen%02d.v" % j] = (HEADER % " Gen.AbiGenClaims" +
            "Definition funcs : list func := [\n" + ";\n".join(emit_func(lib, k) for k in ks) + "].\n"
            "Local Open Scope positive_scope.\n"
            "Lemma c19_failing : failing chk19 funcs = %s.\nProof. vm_cast_no_check (eq_refl (%s : list positive)). Qed.\n"
            "Lemma c14_failing : failing chk14 funcs = %s.\nProof. vm_cast_no_check (eq_refl (%s : list positive)). Qed.\n"
            % (coq_list(fl), coq_list(fl), coq_list(vl), coq_list(vl)))
    names = ["AbiGen%02d" % j for j in range(NSHARDS)]
    gf = coq_list(str(lib.fid[k]) for k in sorted(gfail, key=lambda k: lib.fid[k]))
    vf = coq_list(str(lib.fid[k]) for k in sorted(vfail, key=lambda k: lib.fid[k]))
    files["Gen/AbiGenAll.v"] = (HEADER % (" Gen.AbiGenClaims Proofs.AbiCfgTables " + " ".join("Gen." + n for n in names)) +
        "Definition all_funcs : list func := %s.\n" % " ++ ".join(n + ".funcs" for n in names) +
        "Local Open Scope positive_scope.\n"
        "Definition c19_unproved : list positive := %s.\nDefinition c14_unproved : list positive := %s.\n" % (gf, vf) +
        "Lemma c19_table : failing chk19 all_funcs = c19_unproved.\nProof. unfold all_funcs. rewrite !failing_app, %s. reflexivity. Qed.\n"
        % ", ".join(n + ".c19_failing" for n in names) +
        "Lemma c14_table : failing chk14 all_funcs = c14_unproved.\nProof. unfold all_funcs. rewrite !failing_app, %s. reflexivity. Qed.\n"
        % ", ".join(n + ".c14_failing" for n in names))
    return files
