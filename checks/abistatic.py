"""checks/abistatic.py — static half of C19 and C14: drives tr/abicfg.py, emits coq/Gen/AbiGen*.v,
reads the verdicts computed INSIDE Coq by the verified checkers (Model/AbiCfg.v, soundness in
Proofs/AbiCfg*.v, statements in Properties/C19.v, C14.v), and searches witness paths.

The Python functions `g_*` / `v_*` below are a line-by-line port of the Coq transfer functions.
They decide nothing: they (a) infer the claim (preserved GPR mask, vector dirt left behind) that
each function is then *checked* against by Coq, and (b) replay single paths without joins to turn a
failing Coq obligation into a concrete path (sequence of branch decisions).  If the port and the
Coq checker disagreed, the Coq obligation for the inferred claim would fail and be reported."""
import hashlib, json, os, pickle, re, sys, time
import vlib
sys.path.insert(0, os.path.join(vlib.VERIF, "tr"))
import abicfg

RSP = 4
ABI_SAVED = sum(1 << r for r in (3, 5, 12, 13, 14, 15))
ALL16 = (1 << 16) - 1
GPR = abicfg.GPR64

# ------------------------------------------------------------------ port of the GPR/stack machine

def SymI(r, k=0):
    return ("S", ("I", r), k)


def stackish_base(b):
    return b[0] == "A" or b[1] == RSP


# abstract values: ("S", base, k) exact | ("R", base, lo, hi, st) base + range | ("N", lo, hi, st) number | "T" | "ST"
NUM_MAX = 1 << 31
WIDEN_AFTER = 6


def stackish(v):
    if v == "ST":
        return True
    if v == "T" or v[0] == "N":
        return False
    return stackish_base(v[1])


def divides(st, x):
    return x == 0 if st == 0 else x % st == 0


def rng(v):
    if v in ("T", "ST"):
        return None
    if v[0] == "S":
        return (v[1], v[2], v[2], 0)
    if v[0] == "R":
        return (v[1], v[2], v[3], v[4])
    return (None, v[1], v[2], v[3])


def mk(ob, lo, hi, st):
    if ob is not None:
        return ("S", ob, lo) if lo == hi else ("R", ob, lo, hi, st)
    return ("N", lo, hi, st) if 0 <= lo and hi < NUM_MAX else "T"


def aval_leq(a, b):
    if b == "ST":
        return True
    if b == "T":
        return not stackish(a)
    if b[0] == "S":
        return a == b
    ra, rb = rng(a), rng(b)
    if ra is None:
        return False
    return (ra[0] == rb[0] and rb[1] <= ra[1] and ra[2] <= rb[2] and divides(rb[3], ra[1] - rb[1])
            and divides(rb[3], ra[3]))


def aval_ejoin(a, b):
    if a == b:
        return a
    return "ST" if stackish(a) or stackish(b) else "T"


def aval_wjoin(a, b):
    return a if aval_leq(b, a) else aval_ejoin(a, b)


def aval_join(a, b):
    if a == b:
        return a
    ra, rb = rng(a), rng(b)
    if ra is not None and rb is not None and ra[0] == rb[0]:
        import math
        return mk(ra[0], min(ra[1], rb[1]), max(ra[2], rb[2]), math.gcd(math.gcd(ra[3], rb[3]), abs(ra[1] - rb[1])))
    return aval_ejoin(a, b)


def ub_refine(v, bound):
    if v not in ("T", "ST") and v[0] == "N":
        lo, hi, st = v[1], v[2], v[3]
        if 0 <= lo and hi < NUM_MAX and 0 < st:
            h = min(hi, bound)
            if h < lo:
                return v
            return ("N", lo, lo + st * ((h - lo) // st), st)
    return v


def edge_bound(t, e):
    if t[0] != "TJcmp":
        return None
    rl, r, k = t[3], t[4], t[5]
    if not (0 <= k < NUM_MAX):
        return None
    if rl == "RLt" and e:
        return (r, k - 1)
    if rl == "RLe" and e:
        return (r, k)
    if rl == "RGe" and not e:
        return (r, k - 1)
    if rl == "RGt" and not e:
        return (r, k)
    return None


def g_refine(t, e, s):
    eb = edge_bound(t, e)
    if eb is None:
        return s
    s = s.copy()
    if eb[0] < 16:
        s.ar[eb[0]] = ub_refine(s.ar[eb[0]], eb[1])
    return s


class G:
    __slots__ = ("ar", "sl", "bd", "df")

    def __init__(self, ar, sl, bd, df):
        self.ar, self.sl, self.bd, self.df = ar, sl, bd, df

    def copy(self):
        return G(list(self.ar), dict(self.sl), dict(self.bd), self.df)


def g_init():
    return G([SymI(r) for r in range(16)], {}, {}, True)


def upper(s, b, k):
    if b[0] == "I":
        return k if b[1] == RSP else None
    c = s.bd.get(b[1])
    return None if c is None else c + k


def disjoint(s, b, k, sz, b2, k2):
    if b == b2:
        return k2 + 8 <= k or k + sz <= k2
    if b[0] == "A" and b2 == ("I", RSP):
        u = upper(s, b, k)
        return u is not None and u + sz <= k2
    return False


def kill_overlap(s, b, k, sz):
    return {(b2, k2): v for (b2, k2), v in s.sl.items() if disjoint(s, b, k, sz, b2, k2)}


def below_frame(s, b, k, sz):
    u = upper(s, b, k)
    return u is not None and u + sz <= 0


def any_stackish(s, m):
    return any((m >> r) & 1 and stackish(s.ar[r]) for r in range(16))


def load_val(s, b, k):
    v = s.sl.get((b, k))
    if v is not None:
        return v
    if b == ("I", RSP) and k >= 8:
        return "T"
    return "ST"


OPTIMISTIC = [False]     # claim inference only: a store through a computed stack address is taken
                         # to stay inside the scratch part of the frame (the strict Coq check then
                         # rejects the function, which is listed as dynamic-only; its callers are
                         # checked against the claim inferred this way, and say so)


def g_tf(i, s, claims):
    """-> new state or None (the Coq gtf); s is not modified"""
    op = i[0]
    s = s.copy()
    if op in ("GPush", "GPushX"):
        v = s.ar[RSP]
        if v in ("T", "ST") or v[0] != "S" or not stackish_base(v[1]) or not below_frame(s, v[1], v[2] - 8, 8):
            return None
        val = s.ar[i[1]] if op == "GPush" else ("ST" if any_stackish(s, i[1]) else "T")
        s.sl = kill_overlap(s, v[1], v[2] - 8, 8)
        s.sl[(v[1], v[2] - 8)] = val
        s.ar[RSP] = ("S", v[1], v[2] - 8)
        return s
    if op == "GPop":
        v = s.ar[RSP]
        if v in ("T", "ST") or v[0] != "S" or not stackish_base(v[1]):
            return None
        val = load_val(s, v[1], v[2])
        if i[1] == RSP:
            s.ar[RSP] = val
        else:
            s.ar[RSP] = ("S", v[1], v[2] + 8)
            s.ar[i[1]] = val
        return s
    if op == "GMov":
        s.ar[i[1]] = s.ar[i[2]]
        return s
    if op == "GLea":
        v = s.ar[i[2]]
        if v in ("T", "ST"):
            s.ar[i[1]] = v
        elif v[0] == "S":
            s.ar[i[1]] = ("S", v[1], v[2] + i[3])
        elif v[0] == "R":
            s.ar[i[1]] = ("R", v[1], v[2] + i[3], v[3] + i[3], v[4])
        else:
            s.ar[i[1]] = mk(None, v[1] + i[3], v[2] + i[3], v[3])
        return s
    if op == "GConst":
        s.ar[i[1]] = mk(None, i[2], i[2], 0)
        return s
    if op == "GXchg":
        a, b = s.ar[i[1]], s.ar[i[2]]
        s.ar[i[1]] = b
        s.ar[i[2]] = a
        return s
    if op == "GLoad":
        v = s.ar[i[2]]
        if v == "T" or (v != "ST" and v[0] == "N"):
            s.ar[i[1]] = "T"
        elif v == "ST":
            s.ar[i[1]] = "ST"
        elif v[0] == "R":
            s.ar[i[1]] = "ST" if stackish_base(v[1]) else "T"
        elif stackish_base(v[1]):
            s.ar[i[1]] = load_val(s, v[1], v[2] + i[3])
        else:
            s.ar[i[1]] = "T"
        return s
    if op == "GAlign":
        d, aid = i[1], i[2]
        v = s.ar[d]
        u = upper(s, v[1], v[2]) if v not in ("T", "ST") and v[0] == "S" else None
        ment = lambda x: x not in ("T", "ST") and x[0] in ("S", "R") and x[1] == ("A", aid)
        s.ar = ["ST" if ment(x) else x for x in s.ar]
        s.sl = {(b, k): x for (b, k), x in s.sl.items() if b != ("A", aid) and not ment(x)}
        s.bd = {a: c for a, c in s.bd.items() if a != aid}
        if v in ("T", "ST"):
            s.ar[d] = v
        elif v[0] == "N":
            s.ar[d] = "T"
        elif not stackish_base(v[1]):
            s.ar[d] = "T"
        elif u is None:
            s.ar[d] = "ST"
        else:
            s.ar[d] = ("S", ("A", aid), 0)
            s.bd[aid] = u
        return s
    if op == "GStore":
        b, k, sz, src = i[1], i[2], i[3], i[4]
        v = s.ar[b]
        if v == "T" or (v != "ST" and v[0] == "N"):
            return s
        if v == "ST":
            return s if OPTIMISTIC[0] else None
        if not stackish_base(v[1]):
            return s
        if v[0] == "R":
            lo, hi = v[2], v[3]
            if not (sz > 0 and lo <= hi and below_frame(s, v[1], lo + k, hi - lo + sz)):
                return None
            s.sl = kill_overlap(s, v[1], lo + k, hi - lo + sz)
            return s
        if not (sz > 0 and below_frame(s, v[1], v[2] + k, sz)):
            return None
        if src is not None and sz == 8:
            val = s.ar[src]
            s.sl = kill_overlap(s, v[1], v[2] + k, 8)
            s.sl[(v[1], v[2] + k)] = val
        else:
            s.sl = kill_overlap(s, v[1], v[2] + k, sz)
        return s
    if op == "GStoreIdx":
        b, ix, sc, k, sz = i[1], i[2], i[3], i[4], i[5]
        vb, vi = s.ar[b], s.ar[ix]
        rb = rng(vb)
        if rb is not None and rb[0] is not None and vi not in ("T", "ST") and vi[0] == "N":
            if not stackish_base(rb[0]):
                return s
            blo, bhi, ilo, ihi = rb[1], rb[2], vi[1], vi[2]
            lo, hsz = blo + ilo * sc + k, bhi - blo + (ihi - ilo) * sc + sz
            if not (sz > 0 and sc >= 0 and blo <= bhi and ilo <= ihi and below_frame(s, rb[0], lo, hsz)):
                return None
            s.sl = kill_overlap(s, rb[0], lo, hsz)
            return s
        if stackish(vb) or stackish(vi):
            return s if OPTIMISTIC[0] else None
        return s
    if op == "GStoreNS":
        return None if any_stackish(s, i[1]) and not OPTIMISTIC[0] else s
    if op == "GClob":
        val = "ST" if any_stackish(s, i[2]) else "T"
        s.ar = [val if (i[1] >> r) & 1 else s.ar[r] for r in range(16)]
        return s
    if op == "GCall":
        v = s.ar[RSP]
        if v in ("T", "ST") or v[0] != "S" or not stackish_base(v[1]) or not below_frame(s, v[1], v[2] - 8, 8):
            return None
        if any(r != RSP and stackish(s.ar[r]) for r in range(16)):
            return None
        pres = claims[i[1]]["pres"] if i[1] in claims else 0
        u = upper(s, v[1], v[2])
        keep = {}
        for (b2, k2), x in s.sl.items():
            if b2 == v[1]:
                ok = v[2] <= k2
            else:
                ok = b2 == ("I", RSP) and u is not None and u <= k2
            if ok:
                keep[(b2, k2)] = x
        s.sl = keep
        s.ar = [s.ar[r] if r == RSP or (pres >> r) & 1 else "T" for r in range(16)]
        return s
    if op == "GStd":
        s.df = False
        return s
    if op == "GCld":
        s.df = True
        return s
    return None       # GCtl, GUnknown


def g_leq(a, b):
    if not all(aval_leq(a.ar[r], b.ar[r]) for r in range(16)):
        return False
    for key, v in b.sl.items():
        va = a.sl.get(key)
        if va is None or not aval_leq(va, v):
            return False
    for aid, c in b.bd.items():
        ca = a.bd.get(aid)
        if ca is None or not ca <= c:
            return False
    return (not b.df) or a.df


def g_join(a, b, j=None):
    j = j or aval_join
    sl = {key: j(v, b.sl[key]) for key, v in a.sl.items() if key in b.sl}
    bd = {aid: max(c, b.bd[aid]) for aid, c in a.bd.items() if aid in b.bd}
    return G([j(a.ar[r], b.ar[r]) for r in range(16)], sl, bd, a.df and b.df)


def g_wjoin(a, b):
    return g_join(a, b, aval_wjoin)


def restored_mask(s):
    """registers holding their entry value"""
    m = 0
    for r in range(16):
        if s.ar[r] == SymI(r):
            m |= 1 << r
    return m


def g_exit_problems(s, pres):
    out = []
    if s.ar[RSP] != SymI(RSP):
        out.append("rsp = %s at exit, not entry rsp" % show(s.ar[RSP]))
    for r in range(16):
        if (pres >> r) & 1 and r != RSP and s.ar[r] != SymI(r):
            out.append("%s = %s at exit, not its entry value" % (GPR[r], show(s.ar[r])))
    if not s.df:
        out.append("DF possibly set at exit")
    return out


def show(v):
    if v == "T":
        return "unknown"
    if v == "ST":
        return "unknown(stack-derived)"
    if v[0] == "N":
        return "number in [%d,%d] step %d" % (v[1], v[2], v[3])
    b = ("entry_%s" % GPR[v[1][1]]) if v[1][0] == "I" else "aligned_%x" % v[1][1]
    if v[0] == "R":
        return b + "+[%d..%d step %d]" % (v[2], v[3], v[4])
    return b + ("%+d" % v[2] if v[2] else "")

# ------------------------------------------------------------------ port of the vector machine

def v_tf(i, s, claims):
    op = i[0]
    s = list(s)
    if op == "VW":
        merge, w, m = i[1], i[2], i[3]
        for r in range(32):
            if (m >> r) & 1:
                s[r] = max(s[r], w) if merge else w
        return s
    if op == "VClr":
        merge, w, r = i[1], i[2], i[3]
        s[r] = (0 if s[r] <= w else s[r]) if merge else 0
        return s
    if op == "VMov":
        merge, w, d, src = i[1], i[2], i[3], i[4]
        v = min(s[src], w)
        s[d] = (v if s[d] <= w else s[d]) if merge else v
        return s
    if op == "VZeroAll":
        return [0 if r < 16 else s[r] for r in range(32)]
    if op == "VZeroUpper":
        return [min(s[r], 1) if r < 16 else s[r] for r in range(32)]
    if op == "VCall":
        vd = claims[i[1]]["vd"] if i[1] in claims else [3] * 32
        return [max(s[r], vd[r]) for r in range(32)]
    return None


def v_leq(a, b):
    return all(x <= y for x, y in zip(a, b))


def v_join(a, b):
    return [max(x, y) for x, y in zip(a, b)]

# ------------------------------------------------------------------ generic solver (for claim inference)

def succs(t):
    """[(edge tag, block)]: True = taken / only successor, False = fall-through"""
    if t[0] == "TJmp":
        return [(True, t[1])]
    if t[0] == "TJcc":
        return [(True, t[1]), (False, t[2])]
    if t[0] == "TJcmp":
        return [(True, t[6]), (False, t[7])]
    return []


def solve(f, which, claims):
    """Kildall; -> ({block index: out-state at the end of the block}, failure or None)"""
    tf, join, leq, init = ((g_tf, g_join, g_leq, g_init()) if which == "g" else (v_tf, v_join, v_leq, [0] * 32))
    widen = g_wjoin if which == "g" else v_join
    refine = g_refine if which == "g" else (lambda t, e, s: s)
    cnt = {}
    inv = {0: init}
    wl = [0]
    outs = {}
    fuel = (len(f.blocks) + 1) * 200
    while wl:
        fuel -= 1
        if fuel < 0:
            return outs, ("fuel", None, None)
        b = wl.pop(0)
        s = inv[b]
        blk = f.blocks[b]
        for n, i in enumerate(blk[which]):
            s2 = tf(i, s, claims)
            if s2 is None:
                return outs, ("insn", b, (n, i, s))
            s = s2
        outs[b] = s
        if blk["term"][0] == "TBad":
            return outs, ("term", b, None)
        for e, t in succs(blk["term"]):
            o = refine(blk["term"], e, s)
            if t not in inv:
                inv[t] = o
                wl.insert(0, t)
            elif not leq(o, inv[t]):
                c = cnt.get(t, 0)
                inv[t] = join(inv[t], o) if c < WIDEN_AFTER else widen(inv[t], o)
                cnt[t] = c + 1
                wl.insert(0, t)
    return outs, None


def infer_claim(f, claims):
    """the strongest claim the port can justify: GPRs restored at every exit, vector dirt at exits"""
    gouts, gfail = solve(f, "g", claims)
    strict_fail = gfail
    if gfail:
        OPTIMISTIC[0] = True
        try:
            gouts, gfail = solve(f, "g", claims)
        finally:
            OPTIMISTIC[0] = False
    pres = ALL16 & ~(1 << RSP)
    nexit = 0
    for b, s in gouts.items():
        if f.blocks[b]["term"][0] in ("TRet", "TTail", "TTailInd"):
            nexit += 1
            pres &= restored_mask(s)
            if f.blocks[b]["term"][0] == "TTailInd":
                pres &= ABI_SAVED
    if gfail:
        pres = 0
    vouts, vfail = solve(f, "v", claims)
    vd = [0] * 32
    for b, s in vouts.items():
        if f.blocks[b]["term"][0] in ("TRet", "TTail", "TTailInd"):
            vd = v_join(vd, s)
    if vfail:
        vd = [3] * 32
    return {"pres": pres, "vd": vd, "gfail": strict_fail, "vfail": vfail, "exits": nexit}

# ------------------------------------------------------------------ witness search (single paths, no joins)

def witness(f, which, claims, claim, budget=200000):
    """depth-first enumeration of paths (each block at most twice per path) looking for a path on
    which a transfer fails or the exit condition is violated.  -> dict or None"""
    tf = g_tf if which == "g" else v_tf
    init = g_init() if which == "g" else [0] * 32
    stack = [(0, init, ())]
    steps = 0
    while stack and steps < budget:
        b, s, path = stack.pop()
        steps += 1
        blk = f.blocks[b]
        bad = None
        for n, i in enumerate(blk[which]):
            s2 = tf(i, s, claims)
            if s2 is None:
                bad = "abstract instruction #%d of the block (%s) is not admissible in state" % (n, list(i))
                break
            s = s2
        path2 = path + (b,)
        t = blk["term"]
        if bad is None and t[0] == "TBad":
            bad = "control flow not understood"
        if bad is None and t[0] in ("TRet", "TTail", "TTailInd"):
            if which == "g":
                pr = g_exit_problems(s, claim["pres"])
                if pr:
                    bad = "; ".join(pr)
            else:
                dirty = [r for r in range(32) if s[r] > claim["vd"][r]]
                if dirty:
                    bad = "vector registers written and not cleared at exit: " + ", ".join(
                        "%s%d" % ({1: "xmm", 2: "ymm", 3: "zmm"}[s[r]], r) for r in dirty)
        if bad:
            return {"blocks": ["%x" % f.blocks[x]["addr"] for x in path2], "path_idx": list(path2), "exit": t[0], "problem": bad,
                    "exit_block": "%x" % blk["addr"]}
        for e, nx in reversed(succs(t)):
            if path2.count(nx) < 2:
                stack.append((nx, (g_refine(t, e, s) if which == "g" else s), path2))
    return None

# ------------------------------------------------------------------ library model, classification, claims

NSHARDS = 12

# Reviewed residue: vector registers an AES entry point may leave written because what they hold is
# not key material.  (symbol regex, {register: width}, justification).  Cross-checked by the dynamic
# half (the secrets scan must not find anything in them).
RESIDUE = [
    (r"^_aes_cbc_dec_(128|192|256)_(sse|avx)$", {r: 1 for r in range(8, 15)},
     "xmm8-xmm14 = xiv0..xiv6 of aes_cbc_dec_by8_{sse,avx}.inc: copies of ciphertext blocks kept as CBC chaining "
     "values; the macro's own SAFE_DATA block clears xdata0-7 and xkeytmp (everything key-derived) and says so"),
]


def residue_of(name):
    for rx, regs, why in RESIDUE:
        if re.match(rx, name):
            return [regs.get(r, 0) for r in range(32)], why
    return None, None


def library(variant="plain"):
    """translate the built objects; cached next to them, keyed by the bytes of the objects and of
    the translator"""
    d = vlib.build(variant)
    objdir = os.path.join(d, "obj")
    h = hashlib.sha256()
    for fn in sorted(os.listdir(objdir)):
        if fn.endswith(".o"):
            h.update(fn.encode())
            with open(os.path.join(objdir, fn), "rb") as fh:
                h.update(hashlib.sha256(fh.read()).digest())
    for src in (abicfg.__file__, __file__):
        with open(src, "rb") as fh:
            h.update(fh.read())
    cache = os.path.join(d, "abicfg-%s.pkl" % h.hexdigest()[:16])
    if os.path.exists(cache):
        with open(cache, "rb") as fh:
            return pickle.load(fh)
    lib = Library(objdir)
    for fn in os.listdir(d):
        if fn.startswith("abicfg-") and fn.endswith(".pkl"):
            os.remove(os.path.join(d, fn))
    with open(cache + ".tmp", "wb") as fh:
        pickle.dump(lib, fh)
    os.rename(cache + ".tmp", cache)
    return lib


class Library:
    def __init__(self, objdir):
        t0 = time.time()
        metas, funcs, roots, ext, info = abicfg.load_library(objdir, parallel=True)
        self.keys = sorted(funcs)
        self.fid = {k: n + 1 for n, k in enumerate(self.keys)}
        self.funcs = funcs
        self.roots = roots
        self.info = {"c_objects": info["c_objects"], "data_in_text": info["data_in_text"], "unresolved_callees": ext}
        # address-taken symbols: named by a relocation of a non-call instruction, or by a C object
        taken = set(info["c_referenced"])
        for m in metas.values():
            taken |= m["taken"]
        called = set()
        for f in funcs.values():
            called |= {k for k in f.callees if isinstance(k, tuple) and k[0] != "ext"}
        self.kind = {}
        for k in self.keys:
            o = metas[k[0]]
            names = [n for n, a in o["globals"].items() if a == k[1]]
            if k[1] in o["ptrs"] or any(n in taken for n in names) or (k in roots and k not in called):
                self.kind[k] = "entry"
            else:
                self.kind[k] = "internal"       # reached only by `call` from assembly: custom convention
        self.aes = {k: os.path.exists(os.path.join(vlib.REPO, "aes", k[0][:-2] + ".asm")) for k in self.keys}
        self.names = {k: funcs[k].name for k in self.keys}
        self.allnames = {k: sorted(n for n, a in metas[k[0]]["globals"].items() if a == k[1]) for k in self.keys}
        self.nobj = len(metas)
        # claims, callees first
        self.claims = {}
        order, seen = [], set()

        def visit(k, depth=0):
            if k in seen or depth > 50:
                return
            seen.add(k)
            for c in funcs[k].callees:
                if c in funcs:
                    visit(c, depth + 1)
            order.append(k)
        for k in self.keys:
            visit(k)
        for k in order:
            self.claims[k] = infer_claim(funcs[k], self.claims)
        self.translate_s = round(time.time() - t0, 1)


def coq_list(xs):
    return "[" + "; ".join(xs) + "]"


def emit_g(i, fid):
    op = i[0]
    if op in ("GPush", "GPop"):
        return "%s %d" % (op, i[1])
    if op == "GPushX":
        return "GPushX %d" % i[1]
    if op == "GMov":
        return "GMov %d %d" % (i[1], i[2])
    if op == "GLea":
        return "GLea %d %d (%d)" % (i[1], i[2], i[3])
    if op == "GLoad":
        return "GLoad %d %d (%d)" % (i[1], i[2], i[3])
    if op == "GAlign":
        return "GAlign %d %d %d" % (i[1], i[2] + 1, i[3])
    if op == "GStore":
        return "GStore %d (%d) %d %s" % (i[1], i[2], i[3], "None" if i[4] is None else "(Some %d)" % i[4])
    if op == "GStoreNS":
        return "GStoreNS %d" % i[1]
    if op == "GStoreIdx":
        return "GStoreIdx %d %d %d (%d) %d" % (i[1], i[2], i[3], i[4], i[5])
    if op == "GConst":
        return "GConst %d %d" % (i[1], i[2])
    if op == "GXchg":
        return "GXchg %d %d" % (i[1], i[2])
    if op == "GClob":
        return "GClob %d %d" % (i[1], i[2])
    if op == "GCall":
        return "GCall %d" % fid.get(i[1], 0xFFFFFF)
    return op


def emit_v(i, fid):
    op = i[0]
    b = lambda x: "true" if x else "false"
    if op == "VW":
        return "VW %s %d %d" % (b(i[1]), i[2], i[3])
    if op == "VClr":
        return "VClr %s %d %d" % (b(i[1]), i[2], i[3])
    if op == "VMov":
        return "VMov %s %d %d %d" % (b(i[1]), i[2], i[3], i[4])
    if op == "VCall":
        return "VCall %d" % fid.get(i[1], 0xFFFFFF)
    return op


def emit_term(t, fid):
    if t[0] == "TJmp":
        return "(TJmp %d)" % (t[1] + 1)
    if t[0] == "TJcc":
        return "(TJcc %d %d)" % (t[1] + 1, t[2] + 1)
    if t[0] == "TJcmp":
        return "(TJcmp %s %s %s %d (%d) %d %d)" % ("true" if t[1] else "false", "true" if t[2] else "false", t[3], t[4], t[5],
                                                    t[6] + 1, t[7] + 1)
    if t[0] == "TTail":
        return "(TTail %d)" % fid.get(t[1], 0xFFFFFF)
    return t[0]


def emit_func(lib, k):
    f = lib.funcs[k]
    bl = []
    for n, b in enumerate(f.blocks):
        bl.append("Bk %d %s %s %s" % (n + 1, coq_list(emit_g(i, lib.fid) for i in b["g"]),
                                       coq_list(emit_v(i, lib.fid) for i in b["v"]), emit_term(b["term"], lib.fid)))
    return "(* %s %s @%x *)\n Fn %d [\n  %s]" % (k[0], f.name, k[1], lib.fid[k], ";\n  ".join(bl))


HEADER = ("(* GENERATED by checks/abistatic.py from the built objects of the plain library variant — do not edit *)\n"
          "From Coq Require Import ZArith NArith PArith List Bool.\n"
          "From ISAL Require Import Model.AbiCfg%s.\nImport ListNotations.\n")


def predicted_failing(lib):
    """what the port expects the Coq checkers to reject (the Coq lemmas in the generated files state
    exactly these lists, so a disagreement breaks the build and is reported)"""
    g, v = [], []
    for k in lib.keys:
        c = lib.claims[k]
        f = lib.funcs[k]
        okg = py_check(f, "g", lib.claims, c) and (lib.kind[k] != "entry" or (c["pres"] & ABI_SAVED) == ABI_SAVED)
        if not okg:
            g.append(k)
        if lib.aes[k]:
            res = residue_of(lib.names[k])[0] or [0] * 32
            okv = py_check(f, "v", lib.claims, c) and all(x <= y for x, y in zip(c["vd"], res))
            if not okv:
                v.append(k)
    return g, v


def py_check(f, which, claims, claim):
    outs, fail = solve(f, which, claims)
    if fail:
        return False
    for b, s in outs.items():
        t = f.blocks[b]["term"]
        if t[0] in ("TRet", "TTail", "TTailInd"):
            if which == "g":
                if g_exit_problems(s, claim["pres"]):
                    return False
                if t[0] == "TTailInd" and claim["pres"] & ~ABI_SAVED:
                    return False
                if t[0] == "TTail" and claim["pres"] & ~claims.get(t[1], {"pres": 0})["pres"]:
                    return False
            else:
                s2 = s if t[0] != "TTail" else v_join(s, claims.get(t[1], {"vd": [3] * 32})["vd"])
                if any(x > y for x, y in zip(s2, claim["vd"])):
                    return False
    return True


def gen(lib=None):
    """-> {"Gen/AbiGen….v": text}"""
    lib = lib or library()
    files = {}
    cl = ["Cl %d %d %s" % (lib.fid[k], lib.claims[k]["pres"], coq_list(str(x) for x in lib.claims[k]["vd"]))
          for k in lib.keys]
    entry = [str(lib.fid[k]) for k in lib.keys if lib.kind[k] == "entry"]
    aes = [str(lib.fid[k]) for k in lib.keys if lib.aes[k]]
    files["Gen/AbiGenClaims.v"] = (HEADER % "" +
        "Definition claim_list : list (positive * claim) :=\n " + coq_list(cl).replace("; Cl", ";\n  Cl") + ".\n"
        "Definition cmap := Eval vm_compute in claim_map claim_list.\n"
        "Definition claims : positive -> claim := claims_of cmap.\n"
        "Local Open Scope positive_scope.\n"
        "Definition entry_ids : list positive := %s.\nDefinition aes_ids : list positive := %s.\n"
        "(* an entry point must keep the SysV callee-saved set; a routine reached only by `call` from\n"
        "   assembly (custom convention) must keep what it claims *)\n"
        "Definition chk19 (f : func) : bool := if mem_pos entry_ids (fid f) then check_c19 claims f else check_gclaim claims f.\n"
        "(* reviewed residue (checks/abistatic.py RESIDUE): registers that keep ciphertext, per width *)\n"
        "Definition residue_list : list (positive * list nat) := %s.\n"
        "Definition chk14 (f : func) : bool :=\n  negb (mem_pos aes_ids (fid f)) ||\n"
        "  match lookup_res residue_list (fid f) with Some res => check_c14r claims res f | None => check_c14 claims f end.\n"
        % (coq_list(entry), coq_list(aes),
           coq_list("(%d, %s%%nat)" % (lib.fid[k], coq_list(str(x) for x in residue_of(lib.names[k])[0]))
                    for k in lib.keys if lib.aes[k] and residue_of(lib.names[k])[0])))
    # shards balanced by size
    size = lambda k: 4 * len(lib.funcs[k].blocks) + sum(len(b["g"]) + len(b["v"]) for b in lib.funcs[k].blocks)
    shards = [[] for _ in range(NSHARDS)]
    load = [0] * NSHARDS
    for k in sorted(lib.keys, key=lambda k: -size(k)):
        j = load.index(min(load))
        shards[j].append(k)
        load[j] += size(k)
    gfail, vfail = predicted_failing(lib)
    for j, ks in enumerate(shards):
        ks.sort(key=lambda k: lib.fid[k])
        fl = [str(lib.fid[k]) for k in ks if k in gfail]
        vl = [str(lib.fid[k]) for k in ks if k in vfail]
        files["Gen/AbiGen%02d.v" % j] = (HEADER % " Gen.AbiGenClaims" +
            "Definition funcs : list func := [\n" + ";\n".join(emit_func(lib, k) for k in ks) + "].\n"
            "Local Open Scope positive_scope.\n"
            "Lemma c19_failing : failing chk19 funcs = %s.\nProof. vm_cast_no_check (eq_refl (%s : list positive)). Qed.\n"
            "Lemma c14_failing : failing chk14 funcs = %s.\nProof. vm_cast_no_check (eq_refl (%s : list positive)). Qed.\n"
            % (coq_list(fl), coq_list(fl), coq_list(vl), coq_list(vl)))
    names = ["AbiGen%02d" % j for j in range(NSHARDS)]
    gf = coq_list(str(lib.fid[k]) for ks in shards for k in ks if k in gfail)     # shard order
    vf = coq_list(str(lib.fid[k]) for ks in shards for k in ks if k in vfail)
    files["Gen/AbiGenAll.v"] = (HEADER % (" Gen.AbiGenClaims Proofs.AbiCfgTables " + " ".join("Gen." + n for n in names)) +
        "Definition all_funcs : list func := %s.\n" % " ++ ".join(n + ".funcs" for n in names) +
        "Local Open Scope positive_scope.\n"
        "Definition c19_unproved : list positive := %s.\nDefinition c14_unproved : list positive := %s.\n" % (gf, vf) +
        "Lemma c19_table : failing chk19 all_funcs = c19_unproved.\nProof. unfold all_funcs. rewrite !failing_app, %s. reflexivity. Qed.\n"
        % ", ".join(n + ".c19_failing" for n in names) +
        "Lemma c14_table : failing chk14 all_funcs = c14_unproved.\nProof. unfold all_funcs. rewrite !failing_app, %s. reflexivity. Qed.\n"
        % ", ".join(n + ".c14_failing" for n in names))
    return files

# ------------------------------------------------------------------ the check (shared by c19.py / c14.py)

def classify_g(lib, k):
    """why the GPR/stack checker rejects function k: ('violation', witness) when a single path (no
    joins) shows a definite breach, ('domain', reason) when the function is outside the abstract
    domain (listed as dynamic-only)"""
    f, c = lib.funcs[k], lib.claims[k]
    want = dict(c)
    if lib.kind[k] == "entry":
        want["pres"] = c["pres"] | ABI_SAVED
    fail = c["gfail"]
    if fail and fail[0] == "insn":
        n, insn, st = fail[2]
        op = insn[0]
        if op == "GCtl":
            return "violation", {"problem": "writes MXCSR / x87 control word", "exit_block": "%x" % f.blocks[fail[1]]["addr"]}
        if op == "GStore" and st.ar[insn[1]] not in ("T", "ST") and st.ar[insn[1]][0] == "S" and stackish_base(st.ar[insn[1]][1]):
            v = st.ar[insn[1]]
            u = upper(st, v[1], v[2] + insn[2])
            if u is not None and u + insn[3] > 0:
                return "violation", {"problem": "store of %d bytes at entry_rsp%+d: at or above the entry stack pointer" % (insn[3], u),
                                     "exit_block": "%x" % f.blocks[fail[1]]["addr"]}
        why = {"GStore": "store through a computed stack address (%s = %s)" % (GPR[insn[1]] if op == "GStore" else "", show(st.ar[insn[1]]) if op == "GStore" else ""),
               "GStoreNS": "indexed store whose address registers include a stack-derived value",
               "GStoreIdx": "indexed store into the frame whose range is not provably below the saved-register area",
               "GUnknown": "instruction outside the translator's tables",
               "GCall": "call with a stack-derived value in a register, or rsp not tracked",
               }.get(op, "%s not admissible (stack pointer not tracked)" % op)
        return "domain", "%s in block %x" % (why, f.blocks[fail[1]]["addr"])
    if fail:
        return "domain", "analysis did not converge / control flow not understood (%s)" % fail[0]
    w = witness(f, "g", lib.claims, want)
    if w is None:
        return "domain", "the join over paths loses a saved register (no single violating path within the search bound)"
    # a register that is merely UNKNOWN at the exit of this single path is a definite breach unless the last thing
    # written to it on the path was a reload from a stack cell that the path DID write earlier and whose content
    # the domain lost (imprecise store, call); a reload from a cell the path never wrote, a load through a
    # non-stack pointer, a computation or a call result are definite
    lw = last_writers(f, w["path_idx"], lib.claims)

    def soft(p):
        reg = p.split(" = ")[0]
        return "unknown" in p and reg in GPR and lw.get(GPR.index(reg)) == "reload-of-lost-slot"
    probs = w["problem"].split("; ")
    if all(soft(p) for p in probs):
        return "domain", "on path %s: %s (reloaded from a slot whose content the domain lost)" % ("->".join(w["blocks"][-4:]), w["problem"])
    never = [GPR[r] for r, how in lw.items() if how == "reload-of-unwritten-slot"]
    if never:
        w = dict(w, problem=w["problem"] + " (%s reloaded from a stack slot this path never wrote)" % ",".join(never))
    return "violation", w


def last_writers(f, path_blocks, claims):
    """replay a block path (abstract states, no joins) and remember for each GPR how it was written last:
    an instruction name, or for 64-bit loads 'load-nonstack' / 'reload-of-lost-slot' / 'reload-of-unwritten-slot'"""
    lw = {}
    s = g_init()
    written = []            # (base, lo, hi) byte ranges of the frame stored to on this path

    def hull_of(i, st):
        op = i[0]
        if op in ("GPush", "GPushX"):
            v = st.ar[RSP]
            return (v[1], v[2] - 8, v[2]) if v not in ("T", "ST") and v[0] == "S" else None
        if op == "GStore":
            r = rng(st.ar[i[1]])
            return (r[0], r[1] + i[2], r[2] + i[2] + i[3]) if r and r[0] is not None else None
        if op == "GStoreIdx":
            r, vi = rng(st.ar[i[1]]), st.ar[i[2]]
            if r and r[0] is not None and vi not in ("T", "ST") and vi[0] == "N":
                return (r[0], r[1] + vi[1] * i[3] + i[4], r[2] + vi[2] * i[3] + i[4] + i[5])
        return None

    def load_kind(base, k):
        if base in ("T",) or (base not in ("T", "ST") and (base[0] == "N" or not stackish_base(base[1]))):
            return "load-nonstack"
        if base == "ST" or base[0] != "S":
            return "reload-of-lost-slot"
        b, a = base[1], base[2] + k
        if b == ("I", RSP) and a >= 0:
            return "load-nonstack"          # return address / caller's area
        hit = any(wb == b and lo < a + 8 and a < hi for wb, lo, hi in written)
        return "reload-of-lost-slot" if hit else "reload-of-unwritten-slot"

    for n, b in enumerate(path_blocks):
        for i in f.blocks[b]["g"]:
            op = i[0]
            h = hull_of(i, s)
            if h:
                written.append(h)
            if op == "GLoad":
                lw[i[1]] = load_kind(s.ar[i[2]], i[3])
            elif op == "GPop":
                lw[i[1]] = load_kind(s.ar[RSP], 0)
            elif op in ("GMov", "GLea", "GAlign", "GConst"):
                lw[i[1]] = op
            elif op == "GXchg":
                lw[i[1]] = lw[i[2]] = op
            elif op == "GClob":
                for r in range(16):
                    if (i[1] >> r) & 1:
                        lw[r] = op
            elif op == "GCall":
                pres = claims[i[1]]["pres"] if i[1] in claims else 0
                for r in range(16):
                    if not (pres >> r) & 1:
                        lw[r] = op
            s2 = g_tf(i, s, claims)
            if s2 is None:
                return lw
            s = s2
        if n + 1 < len(path_blocks):
            t = f.blocks[b]["term"]
            for e, nx in succs(t):
                if nx == path_blocks[n + 1]:
                    s = g_refine(t, e, s)
                    break
    return lw


def static_part(rep, pid):
    """regenerate the tables, build the Coq obligations, record per-symbol obligations.
    -> (lib, list of static findings [dict], coq_ok)"""
    t0 = time.time()
    lib = library()
    files = gen(lib)
    ok, broken = vlib.coq_step(rep, pid, files, timeout=900)
    gfail, vfail = predicted_failing(lib)
    findings, dyn_only = [], []
    sel = (lambda k: True) if pid == "C19" else (lambda k: lib.aes[k])
    for k in lib.keys:
        if not sel(k):
            continue
        name = lib.names[k]
        rep.case((k[0], name, len(lib.funcs[k].blocks)), len(lib.funcs[k].blocks) > 1 or lib.funcs[k].ninsn > 2)
        if pid == "C19":
            bad = k in gfail
            detail = ""
            if bad:
                kind, info = classify_g(lib, k)
                if kind == "violation":
                    findings.append({"symbol": name, "object": k[0], "kind": "callee-saved-state",
                                     "entry_kind": lib.kind[k], "witness": info})
                    detail = "VIOLATION candidate: %s" % (info.get("problem") if isinstance(info, dict) else info)
                else:
                    dyn_only.append({"symbol": name, "object": k[0], "entry_kind": lib.kind[k], "reason": info})
                    detail = "dynamic-only: " + str(info)
            if bad and detail.startswith("dynamic-only"):
                # outside the abstract domain: what IS proved (theorem C19_table) is that the verified checker's
                # verdict list contains exactly these symbols; preservation itself is decided by the dynamic half
                rep.obligation("c19_table lists %s:%s as not statically provable (dynamic-only)" % (k[0], name), ok, detail)
            else:
                rep.obligation("check_%s %s:%s" % ("c19" if lib.kind[k] == "entry" else "gclaim", k[0], name), ok and not bad, detail)
        else:
            bad = k in vfail
            detail = ""
            if bad:
                res = residue_of(name)[0] or [0] * 32
                w = witness(lib.funcs[k], "v", lib.claims, {"vd": res}) or {"problem": "dirty at exit (join)", "blocks": []}
                findings.append({"symbol": name, "object": k[0], "kind": "vector-not-cleared", "witness": w,
                                 "registers": [r for r in range(32) if lib.claims[k]["vd"][r] > res[r]]})
                detail = "VIOLATION candidate: " + w["problem"]
            rep.obligation("check_c14 %s:%s" % (k[0], name), ok and not bad, detail)
    nsel = sum(1 for k in lib.keys if sel(k))
    rep.notes["symbols"] = {"objects_nasm": lib.nobj, "functions": len(lib.keys), "checked_for_this_property": nsel,
                            "entry_points": sum(1 for k in lib.keys if lib.kind[k] == "entry"),
                            "internal_custom_convention": sum(1 for k in lib.keys if lib.kind[k] == "internal"),
                            "aes_symbols": sum(1 for k in lib.keys if lib.aes[k]),
                            "machine_instructions_reached": sum(f.ninsn for f in lib.funcs.values()),
                            "basic_blocks": sum(len(f.blocks) for f in lib.funcs.values()),
                            "abstract_instructions": sum(len(b["g"]) + len(b["v"]) for f in lib.funcs.values() for b in f.blocks),
                            "data_symbols_in_text_skipped": lib.info["data_in_text"],
                            "gcc_objects_dynamic_only": len(lib.info["c_objects"]),
                            "translate_s": lib.translate_s}
    rep.notes["dynamic_only"] = dyn_only
    rep.notes["static_unproved"] = findings
    if pid == "C14":
        rep.notes["residue_table"] = [{"symbols": rx, "registers": sorted(regs), "why": why} for rx, regs, why in RESIDUE]
    else:
        rep.notes["internal_claims"] = {lib.names[k]: [GPR[r] for r in range(16) if (lib.claims[k]["pres"] >> r) & 1]
                                        for k in lib.keys if lib.kind[k] == "internal" and "dispatch_init" not in lib.names[k]}
    for k in lib.keys[:400:60]:
        rep.sample({"symbol": lib.names[k], "object": k[0], "kind": lib.kind[k], "blocks": len(lib.funcs[k].blocks),
                    "preserved": [GPR[r] for r in range(16) if (lib.claims[k]["pres"] >> r) & 1],
                    "vector_dirt_at_exit": [r for r in range(32) if lib.claims[k]["vd"][r]]})
    rep.notes["static_wall_s"] = round(time.time() - t0, 1)
    return lib, findings, ok, broken


def run_check(pid, tier, replay=None):
    rep = vlib.Report(pid, "proof", tier,
                      "cd coq && make Properties/%s.vo  (coqc 8.16.1, full .vo build; per-symbol obligations by vm_compute in Gen/AbiGen*.v)" % pid)
    lib, findings, ok, broken = static_part(rep, pid)
    # dynamic half (colleague's module); the static findings are passed through rep.notes["static_unproved"]
    dyn = "not available (checks/tramp.py not importable): static half only"
    before = len(rep.violations)
    known_before = len(rep.known_hits)
    try:
        if os.environ.get("ABI_STATIC_ONLY"):
            raise ImportError("ABI_STATIC_ONLY set")
        from checks import tramp
        fn = getattr(tramp, "dynamic_c19" if pid == "C19" else "dynamic_c14", None)
        if fn is None:
            dyn = "checks/tramp.py has no dynamic_%s: static half only" % pid.lower()
        else:
            fn(rep, tier)
            dyn = "ran (checks/tramp.py)"
    except ImportError as e:
        dyn = "not available (%s): static half only" % e
    rep.notes["dynamic_half"] = dyn
    dyn_text = json.dumps([v[1] for v in rep.violations[before:]], default=str) + json.dumps(rep.known_hits[known_before:], default=str)
    for fd in findings:
        confirmed = ('"%s"' % fd["symbol"]) in dyn_text or (fd["symbol"].lstrip("_") + '"') in dyn_text
        what = "%s %s (%s): %s; path (block addresses) %s" % (
            "static check_c19" if pid == "C19" else "static check_c14", fd["symbol"], fd["object"],
            fd["witness"].get("problem"), "->".join(fd["witness"].get("blocks", [])[-12:]))
        sig = {"symbol": fd["symbol"], "kind": fd["kind"], "object": fd["object"]}
        if confirmed:
            rep.notes.setdefault("static_confirmed_by_dynamic", []).append(fd["symbol"])
            if rep.match_known(sig) is not None:
                rep.violation(what, {"static": fd}, sig)      # records the known finding, suppresses nothing else
            continue
        rep.violation(what, {"theorem": "Properties/%s.v: %s (symbol listed in %s_unproved)" % (
                          pid, "C19_entry_points" if pid == "C19" else "C14_aes_entry_points", pid.lower()),
                      "static": fd, "dynamic_half": dyn}, sig, no_input=True)
    if not ok:
        rep.violation("Coq obligations of %s do not build: %s" % (pid, broken),
                      {"theorem_or_file": broken, "note": "the generated per-shard lemmas state the verdicts predicted by the Python port; "
                       "a disagreement between port and verified checker, or a broken proof, lands here"}, no_input=True)
    rep.cov["rule"] = ("one obligation per function symbol of the nasm-assembled objects (every global text symbol, every function-pointer target in a "
                       "data section, every direct call target): the verified checker (check_c19 / check_gclaim / check_c14) run by vm_compute on the CFG "
                       "regenerated from the built object; evaluations = functions analysed; non-trivial = more than one block or more than two instructions")
    rep.notes["input_distribution"] = {"kind": "static: all paths of all listed symbols (no inputs are drawn)",
                                       "blocks_per_function_histogram": _hist([len(f.blocks) for f in lib.funcs.values()])}
    rep.assumptions = [
        "translator tr/abicfg.py: write set of each mnemonic (first-operand rule + table of implicit writers; unknown => rejected), projection of basic blocks, CFG from direct branches",
        "(A1) stores through addresses not derived from the function's own rsp do not alias its frame (C08); (A2) loads through such addresses and callee results are not frame pointers; (A3) calls behave as the callee's checked claim says",
        "gcc-compiled C objects (%d) and the functions listed under dynamic_only are covered by the dynamic half only" % len(lib.info["c_objects"]),
        "C14: 'clean' means 'not written by this function, or cleared after the last write'; the residue table (ciphertext registers) is hand-reviewed; dead-stack residue is dynamic-only",
    ]
    return rep.finish()


def _hist(xs):
    out = {}
    for x in xs:
        b = "1" if x == 1 else "2-9" if x < 10 else "10-99" if x < 100 else "100+"
        out[b] = out.get(b, 0) + 1
    return out
