/* interface of the call_observed trampoline (tramp.S) */
#ifndef VERIF_TRAMP_H
#define VERIF_TRAMP_H
#include <stdint.h>

/* x86 encoding order */
enum { R_RAX, R_RCX, R_RDX, R_RBX, R_RSP, R_RBP, R_RSI, R_RDI, R_R8, R_R9, R_R10, R_R11, R_R12, R_R13, R_R14, R_R15 };

struct tramp_in_s {
        void *fn;            /* @0 */
        uint64_t gpr[16];    /* @8   entry value of every GPR; gpr[R_RSP] = rsp at the call */
        uint64_t rflags;     /* @136 arithmetic flags to enter with (DF must be 0) */
        uint32_t mxcsr;      /* @144 */
        uint16_t fcw;        /* @148 */
        uint16_t pad;
        uint64_t k[8];       /* @152 */
        uint8_t pad2[256 - 152 - 64];
        uint8_t zmm[32][64]; /* @256 */
};

struct tramp_out_s {
        uint64_t gpr[16];    /* @0 */
        uint64_t rflags;     /* @128 */
        uint32_t mxcsr;      /* @136 */
        uint16_t fcw;        /* @140 */
        uint16_t pad;
        uint64_t k[8];       /* @144 */
        uint8_t pad2[256 - 144 - 64];
        uint8_t zmm[32][64]; /* @256 */
};

extern struct tramp_in_s tramp_in;
extern struct tramp_out_s tramp_out;
void
tramp_call_observed(void);

_Static_assert(__builtin_offsetof(struct tramp_in_s, rflags) == 136, "layout");
_Static_assert(__builtin_offsetof(struct tramp_in_s, mxcsr) == 144, "layout");
_Static_assert(__builtin_offsetof(struct tramp_in_s, fcw) == 148, "layout");
_Static_assert(__builtin_offsetof(struct tramp_in_s, k) == 152, "layout");
_Static_assert(__builtin_offsetof(struct tramp_in_s, zmm) == 256, "layout");
_Static_assert(__builtin_offsetof(struct tramp_out_s, rflags) == 128, "layout");
_Static_assert(__builtin_offsetof(struct tramp_out_s, mxcsr) == 136, "layout");
_Static_assert(__builtin_offsetof(struct tramp_out_s, fcw) == 140, "layout");
_Static_assert(__builtin_offsetof(struct tramp_out_s, k) == 144, "layout");
_Static_assert(__builtin_offsetof(struct tramp_out_s, zmm) == 256, "layout");
#endif
