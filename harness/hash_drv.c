/* Native driver for the multi-buffer hash stack (C01 C06 C11 C15).

   One case per input line:
     H <id> <algo> <family> <mode> <nctx> <timeout_s> <op> <op> ...
   mode D: the family entry points _<algo>_ctx_mgr_{init,submit,flush}_<family> are called
           directly (every family of the archive, whatever the dispatcher would choose);
   mode W: the public isal_<algo>_ctx_mgr_{init,submit,flush} wrappers are called through the
           real dispatcher under a virtual CPUID preset that selects <family> (the wrapper's
           return-code mapping is observed; the binding is checked and reported).
   ops (all numbers decimal unless said otherwise):
     S<c>,<flags hex>,<len>,<place>,<seed hex>   submit on context c, unconditionally (any flags, any state)
     A<c>,<flags hex>,<len>,<place>,<seed hex>   queue this segment for context c, then pump c
     P<c>     pump: if c is not being processed and its queue is not empty, submit the head
     F        flush
     I<c>     isal_hash_ctx_init(c) if c is not being processed and has no queued segment
     D        drain: pump every context / flush until every queue is empty and flush returns NULL
     J<c>,<total hex>,<plen>,<seed hex>   (C15) write a mid-stream state into the public fields of c
     B<nc>,<len>,<count>,<seed hex>       (C15) long streams: contexts 0..nc-1 each get `count` submits of the
                                         first <len> bytes of the shared 64 MiB buffer (FIRST, then UPDATE)
     V<c>,<len>,<flags hex>               (C15) one submit of <len> bytes from a virtual mapping of one page
   place: e = buffer ends flush against a PROT_NONE page; b<k> = starts k bytes after one.
   Data of a buffer = the splitmix64 byte stream of its seed.

   Output: one line per case: <id> bound=<..> | <call> > <observation> | ... | end <flags>
   Every executed call is printed in concrete form (S c flags len place seed / F / I c / J ...),
   so the output line is itself a replayable history and is what the model driver reads.
   The driver observes; it decides nothing. */
#define _GNU_SOURCE
#include "common.h"
#include <setjmp.h>
#include <signal.h>
#include <stddef.h>
#include <sys/time.h>
#include <errno.h>
#include "isal_crypto_api.h"
#include "multi_buffer.h"
#include "md5_mb.h"
#include "sha1_mb.h"
#include "sha256_mb.h"
#include "sha512_mb.h"
#include "sm3_mb.h"

typedef void (*init_fn)(void *mgr);
typedef void *(*submit_fn)(void *mgr, void *ctx, const void *buf, uint32_t len, int flags);
typedef void *(*flush_fn)(void *mgr);
typedef int (*winit_fn)(void *mgr);
typedef int (*wsubmit_fn)(void *mgr, void *ctx_in, void **ctx_out, const void *buf, uint32_t len, int flags);
typedef int (*wflush_fn)(void *mgr, void **ctx_out);

struct algo_ops {
        const char *name;
        size_t ctx_size, mgr_size, bsize;
        int nwords, wordbytes, totalbytes;
        size_t o_digest, o_status, o_error, o_total, o_inc, o_inclen, o_pbuf, o_plen, o_udata, o_judata,
                o_jbuf, o_jlen, o_jstatus, o_inuse;
        winit_fn winit;
        wsubmit_fn wsubmit;
        wflush_fn wflush;
        void **disp[3];  /* &_<algo>_ctx_mgr_{init,submit,flush}_dispatched */
        char *mbinit[3]; /* _<algo>_ctx_mgr_{init,submit,flush}_mbinit */
};

#define ALGO_DECL(lc, UC)                                                                           \
        extern void *_##lc##_ctx_mgr_init_dispatched, *_##lc##_ctx_mgr_submit_dispatched,           \
                *_##lc##_ctx_mgr_flush_dispatched;                                                  \
        extern char _##lc##_ctx_mgr_init_mbinit[], _##lc##_ctx_mgr_submit_mbinit[],                 \
                _##lc##_ctx_mgr_flush_mbinit[];
ALGO_DECL(md5, MD5)
ALGO_DECL(sha1, SHA1)
ALGO_DECL(sha256, SHA256)
ALGO_DECL(sha512, SHA512)
ALGO_DECL(sm3, SM3)

#define ALGO_OPS(lc, UC)                                                                            \
        { #lc, sizeof(ISAL_##UC##_HASH_CTX), sizeof(ISAL_##UC##_HASH_CTX_MGR), ISAL_##UC##_BLOCK_SIZE, \
          ISAL_##UC##_DIGEST_NWORDS, sizeof(((ISAL_##UC##_HASH_CTX *) 0)->job.result_digest[0]),     \
          sizeof(((ISAL_##UC##_HASH_CTX *) 0)->total_length),                                       \
          offsetof(ISAL_##UC##_HASH_CTX, job.result_digest), offsetof(ISAL_##UC##_HASH_CTX, status), \
          offsetof(ISAL_##UC##_HASH_CTX, error), offsetof(ISAL_##UC##_HASH_CTX, total_length),       \
          offsetof(ISAL_##UC##_HASH_CTX, incoming_buffer),                                          \
          offsetof(ISAL_##UC##_HASH_CTX, incoming_buffer_length),                                   \
          offsetof(ISAL_##UC##_HASH_CTX, partial_block_buffer),                                     \
          offsetof(ISAL_##UC##_HASH_CTX, partial_block_buffer_length),                              \
          offsetof(ISAL_##UC##_HASH_CTX, user_data), offsetof(ISAL_##UC##_HASH_CTX, job.user_data), \
          offsetof(ISAL_##UC##_HASH_CTX, job.buffer), offsetof(ISAL_##UC##_HASH_CTX, job.len),       \
          offsetof(ISAL_##UC##_HASH_CTX, job.status),                                               \
          offsetof(ISAL_##UC##_HASH_CTX_MGR, mgr.num_lanes_inuse),                                  \
          (winit_fn) isal_##lc##_ctx_mgr_init, (wsubmit_fn) isal_##lc##_ctx_mgr_submit,             \
          (wflush_fn) isal_##lc##_ctx_mgr_flush,                                                    \
          { &_##lc##_ctx_mgr_init_dispatched, &_##lc##_ctx_mgr_submit_dispatched,                   \
            &_##lc##_ctx_mgr_flush_dispatched },                                                    \
          { _##lc##_ctx_mgr_init_mbinit, _##lc##_ctx_mgr_submit_mbinit, _##lc##_ctx_mgr_flush_mbinit } }

static const struct algo_ops ALGOS[] = { ALGO_OPS(md5, MD5), ALGO_OPS(sha1, SHA1), ALGO_OPS(sha256, SHA256),
                                         ALGO_OPS(sha512, SHA512), ALGO_OPS(sm3, SM3) };
#define NALGOS (sizeof ALGOS / sizeof ALGOS[0])

/* ---- family table and manager interposers, generated from nm of the built archive ---- */
struct fam_ent {
        const char *algo, *fam;
        init_fn init;
        submit_fn submit;
        flush_fn flush;
};
#define HF(lc, fam) extern void _##lc##_ctx_mgr_init_##fam(void *); extern void *_##lc##_ctx_mgr_submit_##fam(void *, void *, const void *, uint32_t, int); extern void *_##lc##_ctx_mgr_flush_##fam(void *);
#define HM(sym, kind)
#include HASH_FAMS_INC
#undef HF
#undef HM
static const struct fam_ent FAMS[] = {
#define HF(lc, fam) { #lc, #fam, (init_fn) _##lc##_ctx_mgr_init_##fam, (submit_fn) _##lc##_ctx_mgr_submit_##fam, (flush_fn) _##lc##_ctx_mgr_flush_##fam },
#define HM(sym, kind)
#include HASH_FAMS_INC
#undef HF
#undef HM
        { NULL, NULL, NULL, NULL, NULL }
};

/* manager-level trace of the current API call (linker --wrap on every manager submit/flush) */
#define MLOG_MAX 256
static struct { char kind; void *ret; } mlog[MLOG_MAX];
static int mlog_n, mlog_over;
static void
mlog_add(char kind, void *r)
{
        if (mlog_n < MLOG_MAX) { mlog[mlog_n].kind = kind; mlog[mlog_n].ret = r; mlog_n++; }
        else mlog_over = 1;
}
#define HF(lc, fam)
#define HM_s(sym) extern void *__real_##sym(void *, void *); void *__wrap_##sym(void *st, void *job) { void *r = __real_##sym(st, job); mlog_add('s', r); return r; }
#define HM_f(sym) extern void *__real_##sym(void *); void *__wrap_##sym(void *st) { void *r = __real_##sym(st); mlog_add('f', r); return r; }
#define HM(sym, kind) HM_##kind(sym)
#include HASH_FAMS_INC
#undef HF
#undef HM

/* ---- signals: a crash becomes "fault", a hang "timeout" ---- */
static sigjmp_buf jb;
static volatile int jb_armed;
static volatile uintptr_t fault_addr;
static volatile int fault_sig;
static void
on_sig(int sig, siginfo_t *si, void *u)
{
        fault_sig = sig;
        fault_addr = (uintptr_t) si->si_addr;
        if (jb_armed) siglongjmp(jb, sig == SIGALRM ? 2 : 1);
        _exit(3);
}

/* ---- splitmix64 byte stream (same as vlib.SplitMix64.bytes) ---- */
static inline uint64_t
sm64(uint64_t *s)
{
        uint64_t z = (*s += 0x9E3779B97F4A7C15ull);
        z = (z ^ (z >> 30)) * 0xBF58476D1CE4E5B9ull;
        z = (z ^ (z >> 27)) * 0x94D049BB133111EBull;
        return z ^ (z >> 31);
}
static void
fill_stream(uint8_t *p, size_t n, uint64_t seed)
{
        uint64_t s = seed;
        size_t i = 0;
        while (i + 8 <= n) { uint64_t v = sm64(&s); memcpy(p + i, &v, 8); i += 8; }
        if (i < n) { uint64_t v = sm64(&s); memcpy(p + i, &v, n - i); }
}
static int
check_stream(const uint8_t *p, size_t n, uint64_t seed)
{
        uint64_t s = seed;
        size_t i = 0;
        while (i + 8 <= n) { uint64_t v = sm64(&s); if (memcmp(p + i, &v, 8)) return 1; i += 8; }
        if (i < n) { uint64_t v = sm64(&s); if (memcmp(p + i, &v, n - i)) return 1; }
        return 0;
}

/* ---- buffers: own guard-page arena (common.h's holds 256 mappings only) ---- */
struct ubuf { uint8_t *map; size_t maplen; uint8_t *p; size_t n; uint64_t seed; int dead; };
static struct ubuf *ubufs;
static int n_ubufs, cap_ubufs;
static uint8_t *
ubuf_new(size_t n, const char *place, uint64_t seed)
{
        size_t pg = 4096, off = 0;
        int at_end = 1;
        if (place[0] == 'b') { at_end = 0; off = (size_t) strtoul(place + 1, NULL, 10) & 63; }
        size_t body = (n + off + pg - 1) / pg * pg;
        if (body == 0) body = pg;
        uint8_t *m = mmap(NULL, body + 2 * pg, PROT_READ | PROT_WRITE, MAP_PRIVATE | MAP_ANONYMOUS, -1, 0);
        if (m == MAP_FAILED) { perror("mmap"); exit(2); }
        memset(m + pg, 0xA5, body);
        uint8_t *p = at_end ? m + pg + body - n : m + pg + off;
        fill_stream(p, n, seed);
        mprotect(m, pg, PROT_NONE);
        mprotect(m + pg + body, pg, PROT_NONE);
        if (n_ubufs == cap_ubufs) {
                cap_ubufs = cap_ubufs ? 2 * cap_ubufs : 256;
                ubufs = realloc(ubufs, cap_ubufs * sizeof *ubufs);
        }
        ubufs[n_ubufs++] = (struct ubuf){ m, body + 2 * pg, p, n, seed, 0 };
        return p;
}
/* The caller may reuse or free a buffer as soon as its context has been handed back: from
   then on the buffer is inaccessible (after a last check that it was not modified), so a
   lane that still reads through a stale pointer faults. */
static int modbuf_early;
static void
ubuf_release(int i)
{
        if (i < 0 || i >= n_ubufs || ubufs[i].dead) return;
        if (check_stream(ubufs[i].p, ubufs[i].n, ubufs[i].seed)) modbuf_early++;
        mprotect(ubufs[i].map, ubufs[i].maplen, PROT_NONE);
        ubufs[i].dead = 1;
}
static void
ubuf_reset(void)
{
        for (int i = 0; i < n_ubufs; i++) munmap(ubufs[i].map, ubufs[i].maplen);
        n_ubufs = 0;
}

/* ---- the case state ---- */
#define MAXCTX 128
#define MAXOPS 8192
struct opq { int flags; uint32_t len; const char *place; uint64_t seed; };
static const struct algo_ops *AO;
static const struct fam_ent *FE;
static int wrapper_mode, nctx;
static uint8_t *mgr, *ctxs, *snap_mgr, *snap_ctxs;
static void *mgr_map, *ctx_map;
static size_t mgr_maplen, ctx_maplen;
static int cur_buf[MAXCTX]; /* buffer of the submission a context is in flight with, or -1 */
static struct opq *queue[MAXCTX];
static int q_head[MAXCTX], q_tail[MAXCTX], q_cap[MAXCTX];
/* last printed white-box record of each context */
static char *wb_last[MAXCTX];
static uint8_t *bigbuf;
#define BIGLEN (64u << 20)

#define CTX(i) (ctxs + (size_t) (i) * AO->ctx_size)
#define FLD32(p, off) (*(uint32_t *) ((uint8_t *) (p) + (off)))
#define FLD64(p, off) (*(uint64_t *) ((uint8_t *) (p) + (off)))
/* total_length, read and written with the width the header gives it */
#define GET_TOTAL(p) (AO->totalbytes == 8 ? FLD64(p, AO->o_total) : (uint64_t) FLD32(p, AO->o_total))
#define SET_TOTAL(p, v) do { if (AO->totalbytes == 8) FLD64(p, AO->o_total) = (v); else FLD32(p, AO->o_total) = (uint32_t) (v); } while (0)

static int
ctx_index(void *p)
{
        if (!p) return -1;
        uintptr_t d = (uintptr_t) p - (uintptr_t) ctxs;
        if ((uintptr_t) p < (uintptr_t) ctxs || d % AO->ctx_size || d / AO->ctx_size >= (size_t) nctx) return -2; /* foreign pointer */
        return (int) (d / AO->ctx_size);
}

static unsigned
err_code(uint32_t e)
{
        int32_t s = (int32_t) e;
        return s <= 0 && s >= -255 ? (unsigned) (-s) : 999u; /* 0, 1, 2, 3; anything else 999 */
}

static void
put_digest(FILE *f, const void *c)
{
        for (int w = 0; w < AO->nwords; w++) {
                if (w) fputc('.', f);
                if (AO->wordbytes == 8) fprintf(f, "%llx", (unsigned long long) FLD64(c, AO->o_digest + 8 * w));
                else fprintf(f, "%x", FLD32(c, AO->o_digest + 4 * w));
        }
}

/* white-box record of context i: status:error:total:plen:inclen:digest:partial bytes */
static char *
wb_record(int i)
{
        static char buf[2048];
        const uint8_t *c = CTX(i);
        uint32_t st = FLD32(c, AO->o_status), plen = FLD32(c, AO->o_plen);
        char *p = buf;
        p += sprintf(p, "%x:%u:%llx:%u:", st, err_code(FLD32(c, AO->o_error)), (unsigned long long) GET_TOTAL(c), plen);
        if (st & ISAL_HASH_CTX_STS_PROCESSING) p += sprintf(p, "%u:", FLD32(c, AO->o_inclen));
        else p += sprintf(p, "-:");
        for (int w = 0; w < AO->nwords; w++) {
                if (w) *p++ = '.';
                if (AO->wordbytes == 8) p += sprintf(p, "%llx", (unsigned long long) FLD64(c, AO->o_digest + 8 * w));
                else p += sprintf(p, "%x", FLD32(c, AO->o_digest + 4 * w));
        }
        *p++ = ':';
        if (plen == 0 || plen > 2 * AO->bsize) *p++ = '-';
        else for (uint32_t k = 0; k < plen; k++) p += sprintf(p, "%02x", c[AO->o_pbuf + k]);
        *p = 0;
        return buf;
}

static void
print_wb(void)
{
        int first = 1;
        printf(" w=");
        for (int i = 0; i < nctx; i++) {
                char *r = wb_record(i);
                if (!wb_last[i] || strcmp(wb_last[i], r)) {
                        printf("%s%d=%s", first ? "" : ";", i, r);
                        first = 0;
                        free(wb_last[i]);
                        wb_last[i] = strdup(r);
                }
        }
        if (first) printf("-");
}

static void
print_mlog(void)
{
        printf(" m=");
        if (!mlog_n) printf("-");
        for (int k = 0; k < mlog_n; k++) {
                int ix = ctx_index(mlog[k].ret);
                if (ix >= 0) printf("%s%c%d", k ? "," : "", mlog[k].kind, ix);
                else printf("%s%c%s", k ? "," : "", mlog[k].kind, ix == -1 ? "-" : "?");
        }
        if (mlog_over) printf(",over");
}

static void
snapshot(void)
{
        memcpy(snap_mgr, mgr, AO->mgr_size);
        memcpy(snap_ctxs, ctxs, AO->ctx_size * nctx);
}

/* what changed since snapshot(): manager bytes, number of OTHER contexts with any byte
   changed, field mask of context `own` */
static void
print_diff(int own)
{
        int mg = memcmp(snap_mgr, mgr, AO->mgr_size) != 0, others = 0;
        unsigned mask = 0;
        for (int i = 0; i < nctx; i++)
                if (i != own && memcmp(snap_ctxs + (size_t) i * AO->ctx_size, CTX(i), AO->ctx_size)) others++;
        if (own >= 0) {
                const uint8_t *a = snap_ctxs + (size_t) own * AO->ctx_size, *b = CTX(own);
#define CH(off, len, bit) if (memcmp(a + (off), b + (off), (len))) mask |= (bit)
                CH(AO->o_digest, (size_t) AO->nwords * AO->wordbytes, 1);
                CH(AO->o_status, 4, 2);
                CH(AO->o_error, 4, 4);
                CH(AO->o_total, (size_t) AO->totalbytes, 8);
                CH(AO->o_inc, 8, 16);
                CH(AO->o_inclen, 4, 16);
                CH(AO->o_pbuf, 2 * AO->bsize, 32);
                CH(AO->o_plen, 4, 64);
                CH(AO->o_udata, 8, 128);
                CH(AO->o_judata, 8, 128);
                CH(AO->o_jbuf, 8, 256);
                CH(AO->o_jlen, 8, 256);
                CH(AO->o_jstatus, 4, 256);
#undef CH
                if (!mask && memcmp(a, b, AO->ctx_size)) mask |= 512;
        }
        printf(" d=%d.%d.%x", mg, others, mask);
}

static void
print_obs(void *ret, int rc, int have_rc)
{
        int r = ctx_index(ret);
        if (r == -1) printf(" r=-");
        else if (r == -2) printf(" r=?");
        else printf(" r=%d", r);
        if (have_rc) printf(" rc=%d", rc);
        else printf(" rc=n");
        if (r >= 0) {
                const uint8_t *c = CTX(r);
                printf(" st=%x er=%u tl=%llx dg=", FLD32(c, AO->o_status), err_code(FLD32(c, AO->o_error)),
                       (unsigned long long) GET_TOTAL(c));
                put_digest(stdout, c);
        }
}

static int
processing(int c)
{
        return (FLD32(CTX(c), AO->o_status) & ISAL_HASH_CTX_STS_PROCESSING) != 0;
}

static void
do_submit(int c, int flags, uint32_t len, const char *place, uint64_t seed)
{
        uint8_t *buf = ubuf_new(len, place, seed);
        void *ret = NULL;
        int rc = 0;
        printf(" | S %d %x %u %s %llx >", c, (unsigned) flags, len, place, (unsigned long long) seed);
        fflush(stdout);
        snapshot();
        mlog_n = mlog_over = 0;
        int mybuf = n_ubufs - 1;
        if (wrapper_mode) rc = AO->wsubmit(mgr, CTX(c), &ret, buf, len, flags);
        else ret = FE->submit(mgr, CTX(c), buf, len, flags);
        {
                int r = ctx_index(ret);
                if (r == c) {
                        /* handed straight back: rejected, or accepted and already idle/complete */
                        ubuf_release(mybuf);
                        if (!processing(c)) { ubuf_release(cur_buf[c]); cur_buf[c] = -1; }
                } else {
                        cur_buf[c] = mybuf;
                        if (r >= 0) { ubuf_release(cur_buf[r]); cur_buf[r] = -1; }
                }
        }
        print_obs(ret, rc, wrapper_mode);
        print_mlog();
        print_diff(c);
        if (!FE || strcmp(FE->fam, "base")) printf(" u=%u", FLD32(mgr, AO->o_inuse));
        print_wb();
}

static int last_flush_null;
static void
do_flush(void)
{
        void *ret = NULL;
        int rc = 0;
        printf(" | F >");
        fflush(stdout);
        snapshot();
        mlog_n = mlog_over = 0;
        if (wrapper_mode) rc = AO->wflush(mgr, &ret);
        else ret = FE->flush(mgr);
        last_flush_null = ret == NULL;
        {
                int r = ctx_index(ret);
                if (r >= 0) { ubuf_release(cur_buf[r]); cur_buf[r] = -1; }
        }
        print_obs(ret, rc, wrapper_mode);
        print_mlog();
        print_diff(-1);
        if (strcmp(FE->fam, "base")) printf(" u=%u", FLD32(mgr, AO->o_inuse));
        print_wb();
}

static void *
raw_flush(void)
{
        void *ret = NULL;
        if (wrapper_mode) AO->wflush(mgr, &ret);
        else ret = FE->flush(mgr);
        return ret;
}

static int
pump(int c)
{
        if (q_head[c] == q_tail[c] || processing(c)) return 0;
        struct opq *o = &queue[c][q_head[c]++];
        do_submit(c, o->flags, o->len, o->place, o->seed);
        return 1;
}

static void
enqueue(int c, int flags, uint32_t len, const char *place, uint64_t seed)
{
        if (q_tail[c] == q_cap[c]) {
                q_cap[c] = q_cap[c] ? 2 * q_cap[c] : 16;
                queue[c] = realloc(queue[c], q_cap[c] * sizeof(struct opq));
        }
        queue[c][q_tail[c]++] = (struct opq){ flags, len, place, seed };
}

/* junk every field, then what the API says initialises a context */
static void
ctx_fresh(int i)
{
        uint8_t *c = CTX(i);
        memset(c, 0xEE, AO->ctx_size);
        FLD32(c, AO->o_plen) = 77; /* still junk, but representable as a unary nat in the model */
        FLD32(c, AO->o_status) = ISAL_HASH_CTX_STS_COMPLETE; /* isal_hash_ctx_init */
        FLD32(c, AO->o_error) = ISAL_HASH_CTX_ERROR_NONE;
        FLD64(c, AO->o_udata) = 0xC0DE000000000000ull + (unsigned) i;
}

static void
do_inject(int c, uint64_t total, uint32_t plen, uint64_t seed)
{
        printf(" | J %d %llx %u %llx >", c, (unsigned long long) total, plen, (unsigned long long) seed);
        if (processing(c) || plen >= AO->bsize) { printf(" skip"); return; }
        uint8_t *p = CTX(c);
        uint8_t tmp[512];
        fill_stream(tmp, (size_t) AO->nwords * AO->wordbytes + plen, seed);
        memcpy(p + AO->o_digest, tmp, (size_t) AO->nwords * AO->wordbytes);
        memcpy(p + AO->o_pbuf, tmp + (size_t) AO->nwords * AO->wordbytes, plen);
        FLD32(p, AO->o_plen) = plen;
        SET_TOTAL(p, total);
        FLD32(p, AO->o_status) = ISAL_HASH_CTX_STS_IDLE;
        FLD32(p, AO->o_error) = ISAL_HASH_CTX_ERROR_NONE;
        printf(" done");
        print_wb();
}

/* long streams: contexts 0..nc-1, each `count` submits of len bytes of the shared buffer */
static void
do_big(int nc, uint32_t len, int count, uint64_t seed)
{
        printf(" | B %d %u %d %llx >", nc, len, count, (unsigned long long) seed);
        fflush(stdout);
        if (!bigbuf) {
                bigbuf = mmap(NULL, BIGLEN, PROT_READ | PROT_WRITE, MAP_PRIVATE | MAP_ANONYMOUS, -1, 0);
                if (bigbuf == MAP_FAILED) { printf(" nomem"); bigbuf = NULL; return; }
        }
        static uint64_t big_seed = ~0ull;
        if (big_seed != seed) {
                mprotect(bigbuf, BIGLEN, PROT_READ | PROT_WRITE);
                fill_stream(bigbuf, 1 << 20, seed);
                for (size_t o = 1 << 20; o < BIGLEN; o += 1 << 20) memcpy(bigbuf + o, bigbuf, 1 << 20);
                /* make the megabytes differ */
                for (size_t o = 0; o < BIGLEN; o += 1 << 20) bigbuf[o] ^= (uint8_t) (o >> 20);
                mprotect(bigbuf, BIGLEN, PROT_READ);
                big_seed = seed;
        }
        if (len > BIGLEN || nc > nctx) { printf(" badarg"); return; }
        int bad = 0;
        for (int rep = 0; rep < count && !bad; rep++) {
                for (int c = 0; c < nc; c++) {
                        void *ret = NULL;
                        int fl = rep == 0 ? ISAL_HASH_FIRST : ISAL_HASH_UPDATE;
                        if (processing(c)) { bad = 1; break; }
                        if (wrapper_mode) { if (AO->wsubmit(mgr, CTX(c), &ret, bigbuf, len, fl)) bad = 2; }
                        else ret = FE->submit(mgr, CTX(c), bigbuf, len, fl);
                }
                int guard = 4 * nc + 8;
                while (guard-- > 0 && raw_flush()) ;
                if (guard <= 0) bad = 3;
        }
        if (bad) printf(" bad%d", bad);
        print_wb();
}

/* one submit of len bytes out of a virtual mapping whose every page is the same physical page */
static void
do_virtual(int c, uint64_t len, int flags)
{
        printf(" | V %d %llu %x >", c, (unsigned long long) len, (unsigned) flags);
        fflush(stdout);
        size_t pg = 4096, span = (size_t) ((len + pg - 1) / pg * pg);
        if (span == 0) span = pg;
        int fd = memfd_create("hashv", 0);
        if (fd < 0 || ftruncate(fd, (off_t) pg)) { printf(" nomem"); return; }
        uint8_t *base = mmap(NULL, span + pg, PROT_NONE, MAP_PRIVATE | MAP_ANONYMOUS | MAP_NORESERVE, -1, 0);
        if (base == MAP_FAILED) { printf(" nomem"); close(fd); return; }
        uint8_t page[4096];
        fill_stream(page, pg, 0x5eed);
        if (pwrite(fd, page, pg, 0) != (ssize_t) pg) { printf(" nomem"); return; }
        /* map in 1 GiB strides of a 2 MiB window would need many VMAs; map page by page in
           chunks using remap of a file-backed 2 MiB region instead */
        size_t chunk = 512 * pg; /* 2 MiB file made of the same page 512 times */
        if (ftruncate(fd, (off_t) chunk)) { printf(" nomem"); return; }
        for (size_t o = 0; o < chunk; o += pg)
                if (pwrite(fd, page, pg, (off_t) o) != (ssize_t) pg) { printf(" nomem"); return; }
        int ok = 1;
        for (size_t o = 0; o < span && ok; o += chunk) {
                size_t l = span - o < chunk ? span - o : chunk;
                if (mmap(base + o, l, PROT_READ, MAP_SHARED | MAP_FIXED, fd, 0) == MAP_FAILED) ok = 0;
        }
        close(fd);
        if (!ok) { printf(" nomem"); munmap(base, span + pg); return; }
        /* the buffer ends flush against the trailing PROT_NONE page */
        uint8_t *buf = base + span - len;
        void *ret = NULL;
        int rc = 0;
        mlog_n = mlog_over = 0;
        if (wrapper_mode) rc = AO->wsubmit(mgr, CTX(c), &ret, buf, (uint32_t) len, flags);
        else ret = FE->submit(mgr, CTX(c), buf, (uint32_t) len, flags);
        int guard = 64;
        while (processing(c) && guard-- > 0) raw_flush();
        print_obs(CTX(c), rc, wrapper_mode);
        printf(" off=%u", (unsigned) ((uintptr_t) buf & (pg - 1)));
        print_wb();
        munmap(base, span + pg);
}

static void
case_free(void)
{
        if (mgr_map) munmap(mgr_map, mgr_maplen);
        if (ctx_map) munmap(ctx_map, ctx_maplen);
        mgr_map = ctx_map = NULL;
        free(snap_mgr);
        free(snap_ctxs);
        snap_mgr = snap_ctxs = NULL;
        for (int i = 0; i < MAXCTX; i++) {
                free(wb_last[i]);
                wb_last[i] = NULL;
                q_head[i] = q_tail[i] = 0;
        }
        ubuf_reset();
}

static uint64_t
hx(const char *s)
{
        return strtoull(s, NULL, 16);
}

static void
run_case(char **tok, int nt)
{
        const char *id = tok[1], *algo = tok[2], *fam = tok[3];
        int tmo = atoi(tok[6]);
        printf("%s", id);
        AO = NULL;
        FE = NULL;
        for (size_t i = 0; i < NALGOS; i++)
                if (!strcmp(ALGOS[i].name, algo)) AO = &ALGOS[i];
        for (const struct fam_ent *f = FAMS; f->algo; f++)
                if (!strcmp(f->algo, algo) && !strcmp(f->fam, fam)) FE = f;
        wrapper_mode = tok[4][0] == 'W';
        nctx = atoi(tok[5]);
        if (!AO || !FE || nctx < 1 || nctx > MAXCTX) { printf(" badcase\n"); return; }

        /* manager: end flush against a PROT_NONE page, prefilled with junk; contexts likewise */
        size_t pg = 4096;
        mgr_maplen = (AO->mgr_size + pg - 1) / pg * pg + 2 * pg;
        mgr_map = mmap(NULL, mgr_maplen, PROT_READ | PROT_WRITE, MAP_PRIVATE | MAP_ANONYMOUS, -1, 0);
        ctx_maplen = (AO->ctx_size * nctx + pg - 1) / pg * pg + 2 * pg;
        ctx_map = mmap(NULL, ctx_maplen, PROT_READ | PROT_WRITE, MAP_PRIVATE | MAP_ANONYMOUS, -1, 0);
        if (mgr_map == MAP_FAILED || ctx_map == MAP_FAILED) { perror("mmap"); exit(2); }
        mprotect(mgr_map, pg, PROT_NONE);
        mprotect((uint8_t *) mgr_map + mgr_maplen - pg, pg, PROT_NONE);
        mprotect(ctx_map, pg, PROT_NONE);
        mprotect((uint8_t *) ctx_map + ctx_maplen - pg, pg, PROT_NONE);
        mgr = (uint8_t *) mgr_map + mgr_maplen - pg - (AO->mgr_size + 63) / 64 * 64;
        ctxs = (uint8_t *) ctx_map + ctx_maplen - pg - (AO->ctx_size * nctx + 63) / 64 * 64;
        memset((uint8_t *) mgr_map + pg, 0xEE, mgr_maplen - 2 * pg);
        snap_mgr = malloc(AO->mgr_size);
        snap_ctxs = malloc(AO->ctx_size * nctx);

        struct itimerval it = { { 0, 0 }, { tmo > 0 ? tmo : 20, 0 } }, off = { { 0, 0 }, { 0, 0 } };
        int j = sigsetjmp(jb, 1);
        if (j) {
                jb_armed = 0;
                setitimer(ITIMER_REAL, &off, NULL);
                if (j == 2) printf(" TIMEOUT | end timeout\n");
                else printf(" FAULT sig=%d addr=%llx | end fault\n", fault_sig, (unsigned long long) fault_addr);
                case_free();
                return;
        }
        jb_armed = 1;
        setitimer(ITIMER_REAL, &it, NULL);

        if (wrapper_mode) {
                int bad;
                if (!strcmp(fam, "sb_sse4")) { vcpu_set(C1_SSE41 | C1_SSE42 | C1_AES | C1_PCLMUL, 0, 0, 0, 0x000406d0); bad = 0; }
                else bad = vcpu_preset(fam);
                if (bad) { printf(" badfamily\n"); jb_armed = 0; setitimer(ITIMER_REAL, &off, NULL); case_free(); return; }
                for (int k = 0; k < 3; k++) *AO->disp[k] = AO->mbinit[k];
                int rc = AO->winit(mgr);
                if (rc) printf(" initrc=%d", rc);
        } else {
                FE->init(mgr);
        }
        for (int i = 0; i < nctx; i++) { ctx_fresh(i); cur_buf[i] = -1; }
        modbuf_early = 0;
        printf(" mode=%s", wrapper_mode ? "wrapper" : "direct");
        for (int i = 0; i < nctx; i++) { free(wb_last[i]); wb_last[i] = strdup(wb_record(i)); }

        for (int t = 7; t < nt; t++) {
                char *o = tok[t];
                char *a[6] = { 0 };
                int na = 0;
                char kind = o[0];
                for (char *p = o + 1; na < 6; ) {
                        a[na++] = p;
                        p = strchr(p, ',');
                        if (!p) break;
                        *p++ = 0;
                }
                switch (kind) {
                case 'S':
                case 'A': {
                        if (na < 5) { printf(" | badop"); break; }
                        int c = atoi(a[0]);
                        if (c < 0 || c >= nctx) { printf(" | badop"); break; }
                        if (kind == 'S') do_submit(c, (int) hx(a[1]), (uint32_t) strtoul(a[2], NULL, 10), a[3], hx(a[4]));
                        else { enqueue(c, (int) hx(a[1]), (uint32_t) strtoul(a[2], NULL, 10), a[3], hx(a[4])); pump(c); }
                        break;
                }
                case 'P': { int c = atoi(a[0]); if (c >= 0 && c < nctx) pump(c); break; }
                case 'F': do_flush(); break;
                case 'I': {
                        int c = atoi(a[0]);
                        if (c < 0 || c >= nctx) break;
                        if (processing(c) || q_head[c] != q_tail[c]) break; /* only between messages */
                        printf(" | I %d >", c);
                        uint64_t ud = FLD64(CTX(c), AO->o_udata);
                        ctx_fresh(c);
                        FLD64(CTX(c), AO->o_udata) = ud;
                        print_wb();
                        break;
                }
                case 'D': {
                        int guard = 8 * MAXOPS;
                        for (;;) {
                                int did = 0, pending = 0, pumpable = 0;
                                if (--guard <= 0) { printf(" | nodrain"); break; }
                                for (int c = 0; c < nctx; c++) did += pump(c);
                                if (did) continue;
                                do_flush();
                                if (!last_flush_null) continue;
                                /* flush says nothing is held */
                                for (int c = 0; c < nctx; c++)
                                        if (q_head[c] != q_tail[c]) { pending++; pumpable += !processing(c); }
                                if (!pending) break;
                                if (!pumpable) { printf(" | stranded"); break; }
                        }
                        break;
                }
                case 'J':
                        if (na >= 4) do_inject(atoi(a[0]), hx(a[1]), (uint32_t) strtoul(a[2], NULL, 10), hx(a[3]));
                        break;
                case 'B':
                        if (na >= 4) do_big(atoi(a[0]), (uint32_t) strtoul(a[1], NULL, 10), atoi(a[2]), hx(a[3]));
                        break;
                case 'V':
                        if (na >= 3) do_virtual(atoi(a[0]), strtoull(a[1], NULL, 10), (int) hx(a[2]));
                        break;
                default: printf(" | badop"); break;
                }
        }
        jb_armed = 0;
        setitimer(ITIMER_REAL, &off, NULL);

        /* caller-owned data must be untouched: buffers, user_data */
        int modbuf = modbuf_early, modud = 0;
        for (int i = 0; i < n_ubufs; i++)
                if (!ubufs[i].dead && check_stream(ubufs[i].p, ubufs[i].n, ubufs[i].seed)) modbuf++;
        for (int i = 0; i < nctx; i++)
                if (FLD64(CTX(i), AO->o_udata) != 0xC0DE000000000000ull + (unsigned) i) modud++;
        printf(" | end ub=%d ud=%d", modbuf, modud);
        if (wrapper_mode) {
                /* which family did the dispatcher bind? */
                /* an entry never called in this case is still bound to its resolver stub */
                void *want[3] = { (void *) FE->init, (void *) FE->submit, (void *) FE->flush };
                int okb = 1;
                for (int k = 0; k < 3; k++)
                        if (*AO->disp[k] != want[k] && *AO->disp[k] != (void *) AO->mbinit[k]) okb = 0;
                printf(" wbound=%s", okb ? "ok" : "other");
                if (!okb)
                        for (const struct fam_ent *f = FAMS; f->algo; f++)
                                if (!strcmp(f->algo, algo) && *AO->disp[1] == (void *) f->submit) printf(":%s", f->fam);
        }
        printf("\n");
        case_free();
}

int
main(int argc, char **argv)
{
        size_t cap = 1 << 24;
        char *line = malloc(cap);
        static char *tok[MAXOPS + 16];
        struct sigaction sa;
        memset(&sa, 0, sizeof sa);
        sa.sa_sigaction = on_sig;
        sa.sa_flags = SA_SIGINFO | SA_NODEFER;
        sigaction(SIGSEGV, &sa, NULL);
        sigaction(SIGBUS, &sa, NULL);
        sigaction(SIGILL, &sa, NULL);
        sigaction(SIGFPE, &sa, NULL);
        sigaction(SIGALRM, &sa, NULL);
        setvbuf(stdout, NULL, _IOFBF, 1 << 20);
        while (fgets(line, (int) cap, stdin)) {
                int nt = 0;
                for (char *p = strtok(line, " \n"); p && nt < MAXOPS + 16; p = strtok(NULL, " \n")) tok[nt++] = p;
                if (nt >= 7 && !strcmp(tok[0], "H")) run_case(tok, nt);
                fflush(stdout);
        }
        return 0;
}
