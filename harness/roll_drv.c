/* native driver for C09: runs the real isal_rolling_hash2_* through the real dispatcher
   under a virtual CPUID chosen per case (families base / sse(_00) / avx2(_04)). */
#include "common.h"
#include <setjmp.h>
#include <signal.h>
#include "rolling_hashx.h"
#include "isal_crypto_api.h"

extern void *_rolling_hash2_run_until_dispatched;
extern char _rolling_hash2_run_until_mbinit[];
extern uint64_t _rolling_hash2_run_until_base(), _rolling_hash2_run_until_00(), _rolling_hash2_run_until_04();

static sigjmp_buf jb;
static volatile uintptr_t fault_addr;
static void
on_segv(int sig, siginfo_t *si, void *u)
{
        fault_addr = (uintptr_t) si->si_addr;
        siglongjmp(jb, 1);
}

/* B <id> <fam> <w> <mask> <trig> <len>: one run over `len` zero bytes (a private anonymous
   mapping: reads hit the shared zero page) after a reset with w zero bytes.  The expected
   answer comes from a plain C transcription of run_spec (the extracted model cannot run 2^31
   steps); used for max_len >= 2^31 only. */
static void
big_case(char **tok)
{
        const char *id = tok[1], *fam = tok[2];
        uint32_t w = (uint32_t) strtoul(tok[3], NULL, 10);
        uint32_t mask = (uint32_t) strtoul(tok[4], NULL, 16), trig = (uint32_t) strtoul(tok[5], NULL, 16);
        uint64_t len = strtoull(tok[6], NULL, 10);
        printf("%s", id);
        if (vcpu_preset(fam)) { printf(" badfamily\n"); return; }
        _rolling_hash2_run_until_dispatched = _rolling_hash2_run_until_mbinit;
        uint8_t *buf = mmap(NULL, len + 4096, PROT_READ, MAP_PRIVATE | MAP_ANONYMOUS | MAP_NORESERVE, -1, 0);
        if (buf == MAP_FAILED) { printf(" nomem\n"); return; }
        static struct isal_rh_state2 st;
        uint8_t zeros[64] = { 0 };
        isal_rolling_hash2_init(&st, w);
        isal_rolling_hash2_reset(&st, zeros);
        /* reference: window is always w zero bytes -> hash sequence from the state's own tables */
        uint64_t h = st.hash, exp_off = len;
        int exp_match = 1;
        for (uint64_t i = 0; i < len; i++) {
                h = (h << 1) | (h >> 63);
                h ^= st.table1[0] ^ st.table2[0];
                if ((h & mask) == trig) { exp_off = i + 1; exp_match = 0; break; }
        }
        uint32_t off = 0xdeadbeef;
        int match = -1;
        if (sigsetjmp(jb, 1)) { printf(" fault\n"); munmap(buf, len + 4096); return; }
        isal_rolling_hash2_run(&st, buf, (uint32_t) len, mask, trig, &off, &match);
        printf(" r %u %d exp %llu %d\n", off, match, (unsigned long long) exp_off, exp_match);
        munmap(buf, len + 4096);
}

int
main(int argc, char **argv)
{
        static char line[1 << 22];
        static uint8_t tmp[1 << 20];
        struct sigaction sa;
        memset(&sa, 0, sizeof sa);
        sa.sa_sigaction = on_segv;
        sa.sa_flags = SA_SIGINFO | SA_NODEFER;
        sigaction(SIGSEGV, &sa, NULL);
        sigaction(SIGBUS, &sa, NULL);

        while (fgets(line, sizeof line, stdin)) {
                char *tok[4096];
                int nt = 0;
                for (char *p = strtok(line, " \n"); p && nt < 4096; p = strtok(NULL, " \n")) tok[nt++] = p;
                if (nt >= 7 && !strcmp(tok[0], "B")) { big_case(tok); continue; }
                if (nt < 8 || strcmp(tok[0], "R")) continue;
                const char *id = tok[1], *fam = tok[2];
                uint32_t w = (uint32_t) strtoul(tok[3], NULL, 10);
                uint32_t mask = (uint32_t) strtoul(tok[4], NULL, 16), trig = (uint32_t) strtoul(tok[5], NULL, 16);
                printf("%s", id);
                if (vcpu_preset(fam)) { printf(" badfamily\n"); continue; }
                _rolling_hash2_run_until_dispatched = _rolling_hash2_run_until_mbinit;
                struct isal_rh_state2 *st = (struct isal_rh_state2 *) guard_alloc(sizeof *st, 1, 0);
                memset(st, 0xEE, sizeof *st);
                if (sigsetjmp(jb, 1)) { printf(" fault\n"); arena_reset(); continue; }
                if (isal_rolling_hash2_init(st, w)) { printf(" initfail\n"); arena_reset(); continue; }
                size_t ni = unhex(tok[6], tmp, sizeof tmp);
                uint8_t *ib = guard_alloc(ni, 1, 0);
                memcpy(ib, tmp, ni);
                isal_rolling_hash2_reset(st, ib);
                for (int s = 8; s < nt; s++) {
                        size_t n = unhex(tok[s], tmp, sizeof tmp);
                        uint8_t *buf = guard_alloc(n, 1, 0);
                        memcpy(buf, tmp, n);
                        size_t pos = 0;
                        long fuel = (long) n + 2;
                        while (fuel-- > 0) {
                                uint32_t off = 0xdeadbeef;
                                int match = -1;
                                int rc = isal_rolling_hash2_run(st, buf + pos, (uint32_t) (n - pos), mask, trig, &off, &match);
                                if (rc) { printf(" rc%d", rc); break; }
                                printf(" r %u %d %016llx ", off, match, (unsigned long long) st->hash);
                                puthex(stdout, st->history, w);
                                if (match != ISAL_FINGERPRINT_RET_HIT) break;
                                if (off > n - pos) { printf(" overrun"); break; }
                                pos += off;
                        }
                        if (memcmp(buf, tmp, n)) printf(" inputmodified");
                }
                /* which scan routine did the dispatcher bind? */
                void *b = _rolling_hash2_run_until_dispatched;
                printf("\n");
                fprintf(stderr, "%s bound=%s\n", id, b == (void *) _rolling_hash2_run_until_base ? "base" :
                        b == (void *) _rolling_hash2_run_until_00 ? "00" : b == (void *) _rolling_hash2_run_until_04 ? "04" : "unbound");
                arena_reset();
        }
        return 0;
}
