/* Helpers shared by xts_drv.c and cbc_drv.c (C03 / C04): data from a splitmix64 seed (same
   stream as ocaml/{xts,cbc}_driver.ml and vlib.SplitMix64.bytes), placed buffers with
   canaries and guard pages, fault-protected calls.  Observes only. */
#ifndef VERIF_AESM_H
#define VERIF_AESM_H
#include "common.h"
#include <setjmp.h>
#include <signal.h>

static inline uint64_t
sm_mix(uint64_t z)
{
        z = (z ^ (z >> 30)) * 0xBF58476D1CE4E5B9ULL;
        z = (z ^ (z >> 27)) * 0x94D049BB133111EBULL;
        return z ^ (z >> 31);
}

/* bytes [off, off+n) of the splitmix64 stream of `seed` */
static inline void
sm_bytes(uint64_t seed, uint64_t off, uint8_t *dst, size_t n)
{
        for (size_t i = 0; i < n; i++) {
                uint64_t p = off + i;
                uint64_t w = sm_mix(seed + 0x9E3779B97F4A7C15ULL * (p / 8 + 1));
                dst[i] = (uint8_t) (w >> (8 * (p % 8)));
        }
}

/* a placed buffer: n bytes at p inside a private mapping [base, base+body) that lies between
   two PROT_NONE pages and is otherwise filled with 0xA5.
   mode 'E': p+n is flush against the following PROT_NONE page;
   mode 'S': p is the first byte after the preceding PROT_NONE page;
   mode 'I': interior, p = base + 64 + a (a = 0..63 chooses the alignment mod 64);
   mode 'N': n is ignored, p points INTO a PROT_NONE page (any access faults). */
typedef struct {
        uint8_t *p, *base;
        size_t n, body;
} vbuf;

static inline vbuf
vb_alloc(size_t n, int mode, unsigned a)
{
        size_t pg = 4096, body = (n + 256 + pg - 1) / pg * pg;
        vbuf b;
        uint8_t *m = mmap(NULL, body + 2 * pg, PROT_READ | PROT_WRITE, MAP_PRIVATE | MAP_ANONYMOUS | MAP_NORESERVE, -1, 0);
        if (m == MAP_FAILED) { perror("mmap"); exit(2); }
        mprotect(m, pg, PROT_NONE);
        mprotect(m + pg + body, pg, PROT_NONE);
        if (arena_n < ARENA_MAX) { arena_maps[arena_n].base = m; arena_maps[arena_n].len = body + 2 * pg; arena_n++; }
        else { fprintf(stderr, "arena full\n"); exit(2); }
        if (body <= (1u << 20)) memset(m + pg, 0xA5, body);
        else { memset(m + pg, 0xA5, 4096); memset(m + pg + body - 8192, 0xA5, 8192); }
        b.base = m + pg;
        b.body = body;
        b.n = n;
        switch (mode) {
        case 'E': b.p = m + pg + body - n; break;
        case 'S': b.p = m + pg; break;
        case 'N': b.p = m + pg + body + 64 + a; b.n = 0; break;
        default: b.p = m + pg + 64 + (a & 63); break;
        }
        return b;
}

/* every byte of the mapping outside [p, p+n) still holds 0xA5 (large mappings: the first
   page and the last two pages only) */
static inline int
vb_canary_ok(const vbuf *b)
{
        size_t lo = (size_t) (b->p - b->base), hi = lo + b->n;
        if (b->n == 0 && (b->p < b->base || b->p > b->base + b->body)) { lo = hi = 0; }
        for (size_t i = 0; i < b->body; i++) {
                if (b->body > (1u << 20) && i == 4096) i = b->body - 8192;
                if (i >= lo && i < hi) { i = hi - 1; continue; }
                if (b->base[i] != 0xA5) return 0;
        }
        return 1;
}

static sigjmp_buf aesm_jb;
static volatile uintptr_t aesm_fault_addr;
static void
aesm_on_segv(int sig, siginfo_t *si, void *u)
{
        aesm_fault_addr = (uintptr_t) si->si_addr;
        siglongjmp(aesm_jb, 1);
}

static inline void
aesm_install_handlers(void)
{
        struct sigaction sa;
        memset(&sa, 0, sizeof sa);
        sa.sa_sigaction = aesm_on_segv;
        sa.sa_flags = SA_SIGINFO | SA_NODEFER;
        sigaction(SIGSEGV, &sa, NULL);
        sigaction(SIGBUS, &sa, NULL);
        sigaction(SIGILL, &sa, NULL);
}

/* IEEE CRC-32 (zlib.crc32 in the check) for outputs too long to print */
static inline uint32_t
aesm_crc32(uint32_t crc, const uint8_t *p, size_t n)
{
        static uint32_t tab[256];
        if (!tab[1]) {
                for (uint32_t i = 0; i < 256; i++) {
                        uint32_t c = i;
                        for (int k = 0; k < 8; k++) c = (c & 1) ? 0xEDB88320u ^ (c >> 1) : c >> 1;
                        tab[i] = c;
                }
        }
        crc = ~crc;
        for (size_t i = 0; i < n; i++) crc = tab[(crc ^ p[i]) & 255] ^ (crc >> 8);
        return ~crc;
}
#endif
