/* native driver for C03 (AES-XTS).  Calls every implementation of every entry point:
     _XTS_AES_{128,256}_{enc,dec}[_expanded_key]_{sse,avx,vaes}            (24 family symbols)
     isal_aes_xts_{enc,dec}_{128,256}[_expanded_key] through the real dispatcher under the
       virtual CPUID presets sse / avx / avx512g2                            (8 x 3)
     XTS_AES_{128,256}_{enc,dec}[_expanded_key] (legacy names, host CPUID)  (8)
   Expanded-key entries are fed with schedules from the real isal_aes_keyexp_* and, when the
   case line carries them ("ms ek2 ek1 dk1"), with the model's schedules.

   X <id> <ks> <k2> <k1> <tweak> <len> <seed> <inplace> <pin> <ain> <pout> <aout> <pk> <ak2> <ak1> <atw> [ms <ek2> <ek1> <dk1>]
     -> <id> rek2 <hex> rek1 <hex> rdk1 <hex> enc <hex> dec <hex> <call>:<res> ...
        enc/dec = output of the first call of that direction; <res> is "=" when the call's
        output is byte-identical to it, else "!<hex>"; flags +fault +outcanary +incanary +inmod
        +keymod +rcN are appended when observed.
   S <id> <ks> <k2> <k1> <tweak> <len<16> <seed>
     -> <id> <call>:<res> ...   three runs per call (disjoint buffers with canaries, in place,
        both pointers inside a PROT_NONE page); <res> = "ok" or the flags observed.
   B <id> <ks> <k2> <k1> <tweak> <len> <seed> <inplace>
     -> <id> <call>:<crc of every 64 KiB of output, '.'-joined> ...   (very long data units) */
#include "aesm.h"
#include "aes_xts.h"
#include "aes_keyexp.h"
#include "isal_crypto_api.h"

extern void verif_poison_vregs(void); /* harness/poison.S */
typedef void (*xts_fn)(uint8_t *, uint8_t *, uint8_t *, uint64_t, const uint8_t *, uint8_t *);
typedef int (*xts_ifn)(const uint8_t *, const uint8_t *, const uint8_t *, const uint64_t, const void *, void *);

#define DECL_FAM(ks, d, x) \
        extern void _XTS_AES_##ks##_##d##x##_sse(), _XTS_AES_##ks##_##d##x##_avx(), _XTS_AES_##ks##_##d##x##_vaes(); \
        extern void *_XTS_AES_##ks##_##d##x##_dispatched; \
        extern char _XTS_AES_##ks##_##d##x##_mbinit[];
DECL_FAM(128, enc, ) DECL_FAM(128, dec, ) DECL_FAM(128, enc, _expanded_key) DECL_FAM(128, dec, _expanded_key)
DECL_FAM(256, enc, ) DECL_FAM(256, dec, ) DECL_FAM(256, enc, _expanded_key) DECL_FAM(256, dec, _expanded_key)

struct entry {
        const char *name;
        int ks, dec, exp;
        int kind; /* 0 family symbol, 1 isal_ entry through the dispatcher under `preset`, 2 legacy name */
        void *fn;
        const char *preset;
        void **disp;
        void *mbinit;
        void *fams[3];
};

#pragma GCC diagnostic ignored "-Wdeprecated-declarations"
#define FAMS(ks, d, x) { (void *) _XTS_AES_##ks##_##d##x##_sse, (void *) _XTS_AES_##ks##_##d##x##_avx, (void *) _XTS_AES_##ks##_##d##x##_vaes }
#define E_FAM(ks, d, isdec, x, isexp, f) \
        { #d #x "." #f, ks, isdec, isexp, 0, (void *) _XTS_AES_##ks##_##d##x##_##f, NULL, NULL, NULL, FAMS(ks, d, x) },
#define E_DISP(ks, d, isdec, x, isexp, p) \
        { #d #x ".isal." p, ks, isdec, isexp, 1, (void *) isal_aes_xts_##d##_##ks##x, p, &_XTS_AES_##ks##_##d##x##_dispatched, \
          (void *) _XTS_AES_##ks##_##d##x##_mbinit, FAMS(ks, d, x) },
#define E_LEG(ks, d, isdec, x, isexp) \
        { #d #x ".legacy", ks, isdec, isexp, 2, (void *) XTS_AES_##ks##_##d##x, "host", &_XTS_AES_##ks##_##d##x##_dispatched, \
          (void *) _XTS_AES_##ks##_##d##x##_mbinit, FAMS(ks, d, x) },
#define E_ALL(ks, d, isdec, x, isexp) \
        E_FAM(ks, d, isdec, x, isexp, sse) E_FAM(ks, d, isdec, x, isexp, avx) E_FAM(ks, d, isdec, x, isexp, vaes) \
        E_DISP(ks, d, isdec, x, isexp, "sse") E_DISP(ks, d, isdec, x, isexp, "avx") E_DISP(ks, d, isdec, x, isexp, "avx512g2") \
        E_LEG(ks, d, isdec, x, isexp)

static struct entry entries[] = {
        E_ALL(128, enc, 0, , 0) E_ALL(128, dec, 1, , 0) E_ALL(128, enc, 0, _expanded_key, 1) E_ALL(128, dec, 1, _expanded_key, 1)
        E_ALL(256, enc, 0, , 0) E_ALL(256, dec, 1, , 0) E_ALL(256, enc, 0, _expanded_key, 1) E_ALL(256, dec, 1, _expanded_key, 1)
};
#define NENT (sizeof entries / sizeof entries[0])

static const char *
bound_name(const struct entry *e)
{
        void *b = *e->disp;
        return b == e->fams[0] ? "sse" : b == e->fams[1] ? "avx" : b == e->fams[2] ? "vaes" : "unbound";
}

/* one call; returns flags string in `flags`; out buffer contents copied to `got` (len bytes) */
struct callspec {
        const uint8_t *k2, *k1, *tw; /* key material for this call (raw keys or schedules) */
        size_t k2n, k1n;
        const uint8_t *data;
        size_t len;
        int inplace, pin, pout, pk;
        unsigned ain, aout, ak2, ak1, atw;
};

static int
do_call(const struct entry *e, const struct callspec *c, uint8_t *got, char *flags, char *boundbuf)
{
        vbuf k2 = vb_alloc(c->k2n, c->pk, c->ak2), k1 = vb_alloc(c->k1n, c->pk, c->ak1), tw = vb_alloc(16, c->pk, c->atw);
        vbuf out = vb_alloc(c->len, c->pout, c->aout), in;
        int rc = 0, faulted = 0;
        flags[0] = 0;
        boundbuf[0] = 0;
        memcpy(k2.p, c->k2, c->k2n);
        memcpy(k1.p, c->k1, c->k1n);
        memcpy(tw.p, c->tw, 16);
        if (c->inplace) {
                in = out;
                if (c->pout != 'N') memcpy(out.p, c->data, c->len);
        } else {
                in = vb_alloc(c->len, c->pin, c->ain);
                if (c->pin != 'N') memcpy(in.p, c->data, c->len);
                if (c->pout != 'N') memset(out.p, 0x5A, c->len);
        }
        if (e->kind) {
                vcpu_preset(e->preset);
                *e->disp = e->mbinit;
        }
        if (sigsetjmp(aesm_jb, 1) == 0) {
                verif_poison_vregs();
                if (e->kind == 1) rc = ((xts_ifn) e->fn)(k2.p, k1.p, tw.p, c->len, in.p, out.p);
                else ((xts_fn) e->fn)(k2.p, k1.p, tw.p, c->len, in.p, out.p);
        } else faulted = 1;
        if (e->kind) {
                strcpy(boundbuf, bound_name(e));
                vcpu_preset("host");
                *e->disp = e->mbinit;
        }
        if (faulted) strcat(flags, "+fault");
        if (rc) sprintf(flags + strlen(flags), "+rc%d", rc);
        if (c->pout != 'N') {
                if (!vb_canary_ok(&out)) strcat(flags, "+outcanary");
                if (got) memcpy(got, out.p, c->len);
        }
        if (!c->inplace && c->pin != 'N') {
                if (!vb_canary_ok(&in)) strcat(flags, "+incanary");
                if (memcmp(in.p, c->data, c->len)) strcat(flags, "+inmod");
        }
        if (memcmp(k2.p, c->k2, c->k2n) || memcmp(k1.p, c->k1, c->k1n) || memcmp(tw.p, c->tw, 16) ||
            !vb_canary_ok(&k2) || !vb_canary_ok(&k1) || !vb_canary_ok(&tw)) strcat(flags, "+keymod");
        arena_reset();
        return faulted;
}

static uint8_t *data, *got, *ref[2];
static size_t cap;

static void
need(size_t n)
{
        if (n + 64 <= cap) return;
        cap = n + 64;
        data = realloc(data, cap); got = realloc(got, cap); ref[0] = realloc(ref[0], cap); ref[1] = realloc(ref[1], cap);
        if (!data || !got || !ref[0] || !ref[1]) { fprintf(stderr, "oom\n"); exit(2); }
}

int
main(int argc, char **argv)
{
        static char line[1 << 16];
        aesm_install_handlers();
        while (fgets(line, sizeof line, stdin)) {
                char *tok[64];
                int nt = 0;
                for (char *p = strtok(line, " \n"); p && nt < 64; p = strtok(NULL, " \n")) tok[nt++] = p;
                if (nt < 8) continue;
                char kind = tok[0][0];
                const char *id = tok[1];
                int ks = atoi(tok[2]);
                size_t kn = ks / 8, sn = ks == 128 ? 176 : 240;
                uint8_t k2[32], k1[32], tw[16], rek2[240], rek1[240], rdk1[240], tmp[240], mek2[240], mek1[240], mdk1[240];
                if (unhex(tok[3], k2, 32) != kn || unhex(tok[4], k1, 32) != kn || unhex(tok[5], tw, 16) != 16) { printf("%s badcase\n", id); continue; }
                size_t len = strtoull(tok[6], NULL, 10);
                uint64_t seed = strtoull(tok[7], NULL, 16);
                need(len);
                sm_bytes(seed, 0, data, len);
                vcpu_preset("host");
                if (ks == 128) { isal_aes_keyexp_128(k2, rek2, tmp); isal_aes_keyexp_128(k1, rek1, rdk1); }
                else { isal_aes_keyexp_256(k2, rek2, tmp); isal_aes_keyexp_256(k1, rek1, rdk1); }
                printf("%s", id);
                struct callspec c;
                memset(&c, 0, sizeof c);
                c.tw = tw; c.data = data; c.len = len;
                c.pin = c.pout = c.pk = 'I';
                int have_ms = 0;
                if (kind == 'X' || kind == 'B') {
                        if (kind == 'X') {
                                if (nt < 17) { printf(" badcase\n"); continue; }
                                c.inplace = atoi(tok[8]);
                                c.pin = tok[9][0]; c.ain = atoi(tok[10]); c.pout = tok[11][0]; c.aout = atoi(tok[12]);
                                c.pk = tok[13][0]; c.ak2 = atoi(tok[14]); c.ak1 = atoi(tok[15]); c.atw = atoi(tok[16]);
                                if (nt >= 21 && !strcmp(tok[17], "ms")) {
                                        if (unhex(tok[18], mek2, 240) != sn || unhex(tok[19], mek1, 240) != sn || unhex(tok[20], mdk1, 240) != sn) { printf(" badcase\n"); continue; }
                                        have_ms = 1;
                                }
                                printf(" rek2 "); puthex(stdout, rek2, sn);
                                printf(" rek1 "); puthex(stdout, rek1, sn);
                                printf(" rdk1 "); puthex(stdout, rdk1, sn);
                        } else {
                                c.inplace = nt > 8 ? atoi(tok[8]) : 0;
                                c.pin = c.pout = 'E';
                        }
                        int have_ref[2] = { 0, 0 };
                        /* first the reference outputs of each direction (raw-key sse), printed in full */
                        for (int pass = 0; pass < 2; pass++) {
                                for (size_t i = 0; i < NENT; i++) {
                                        const struct entry *e = &entries[i];
                                        if (e->ks != ks) continue;
                                        int nsrc = e->exp ? (have_ms ? 2 : 1) : 1;
                                        for (int src = 0; src < nsrc; src++) {
                                                char flags[128], bound[16];
                                                if (e->exp) {
                                                        c.k2 = src ? mek2 : rek2;
                                                        c.k1 = e->dec ? (src ? mdk1 : rdk1) : (src ? mek1 : rek1);
                                                        c.k2n = c.k1n = sn;
                                                } else { c.k2 = k2; c.k1 = k1; c.k2n = c.k1n = kn; }
                                                if (pass == 0) {
                                                        /* reference = first family entry of this direction */
                                                        if (have_ref[e->dec] || e->kind || e->exp) continue;
                                                        do_call(e, &c, ref[e->dec], flags, bound);
                                                        have_ref[e->dec] = 1;
                                                        if (kind == 'X') { printf(" %s ", e->dec ? "dec" : "enc"); puthex(stdout, ref[e->dec], len); }
                                                        continue;
                                                }
                                                memset(got, 0, len);
                                                do_call(e, &c, got, flags, bound);
                                                printf(" %s%s%s%s%s:", e->name, e->exp ? (src ? ".msched" : ".rsched") : "", bound[0] ? "@" : "", bound, "");
                                                if (kind == 'B') {
                                                        for (size_t o = 0; o < len; o += 65536)
                                                                printf("%s%08x", o ? "." : "", aesm_crc32(0, got + o, len - o < 65536 ? len - o : 65536));
                                                } else if (!memcmp(got, ref[e->dec], len)) printf("=");
                                                else { printf("!"); puthex(stdout, got, len); }
                                                printf("%s", flags);
                                        }
                                }
                        }
                        printf("\n");
                } else if (kind == 'S') {
                        if (len >= 16) { printf(" badcase\n"); continue; }
                        for (size_t i = 0; i < NENT; i++) {
                                const struct entry *e = &entries[i];
                                if (e->ks != ks) continue;
                                char all[256] = "", flags[128], bound[16];
                                if (e->exp) { c.k2 = rek2; c.k1 = e->dec ? rdk1 : rek1; c.k2n = c.k1n = sn; }
                                else { c.k2 = k2; c.k1 = k1; c.k2n = c.k1n = kn; }
                                for (int v = 0; v < 3; v++) {
                                        c.inplace = v == 1;
                                        c.pin = c.pout = v == 2 ? 'N' : 'I';
                                        c.ain = (unsigned) (seed >> 8) & 63; c.aout = (unsigned) (seed >> 16) & 63;
                                        memset(got, 0x5A, 16);
                                        do_call(e, &c, got, flags, bound);
                                        /* the output buffer must still hold what it held before the call */
                                        if (v == 0) { for (size_t j = 0; j < len; j++) if (got[j] != 0x5A) { strcat(flags, "+outmod"); break; } }
                                        if (v == 1 && memcmp(got, data, len)) strcat(flags, "+outmod");
                                        /* the isal_ wrappers refuse len < 16 with an error code: not a C03 matter */
                                        char *r = strstr(flags, "+rc");
                                        if (r) { char *q = r + 3; while (*q >= '0' && *q <= '9') q++; memmove(r, q, strlen(q) + 1); }
                                        if (flags[0]) sprintf(all + strlen(all), "%s%s", v == 0 ? "[disjoint]" : v == 1 ? "[inplace]" : "[protnone]", flags);
                                }
                                printf(" %s%s%s:%s", e->name, bound[0] ? "@" : "", bound, all[0] ? all : "ok");
                        }
                        printf("\n");
                } else printf(" badcase\n");
                fflush(stdout);
        }
        return 0;
}
