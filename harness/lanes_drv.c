/* Native driver of the lane-level white-box tie (checks/lanemgr.py): drives the job managers
 * themselves - _<algo>_mb_mgr_init_* / _submit_* / _flush_* (and sha512's _sb_mgr_*_sse4) of
 * every (algorithm, family) pair, NOT the context layer - with jobs it builds itself, and after
 * EVERY call dumps the manager structure: unused_lanes, num_lanes_inuse, lens[0..nlanes),
 * job_in_lane[] (as job numbers), and for occupied lanes args.data_ptr[] relative to the job's
 * buffer (in blocks) and the lane's column of args.digest (the assembly lays the transposed
 * digest out with a row stride that depends on the FAMILY - tr/lane_cfg.py reads it from the submit asm -, not the C type's MAX_LANES).  The model driver
 * (ocaml/lanes_driver.ml over Model/LaneMgr.v) prints the same tokens; Python diffs them.
 *
 * case line:   L <id> <algo> <fam> <timeout_s> <op>...      op = S<nblocks>,<seed> | F
 *              I <id> <algo> <fam>          (translator) what the init function leaves: unused_lanes[], lens[], ...
 * output line: <id> <algo> <fam> | init > STATE | S<n>,<seed> > r=<job|-> d=<digest> STATE | F > ... | end ok
 *   STATE = u=<unused_lanes hex> n=<num_lanes_inuse> l=<lens hex,...> j=<job|-,...> p=<blocks|-,...> c=<w.w..|-,...>
 * Job k (k-th S of the case) has <nblocks> blocks of bytes and an initial result_digest drawn
 * from the LCG x' = (1103515245 x + 12345) mod 2^31 started at <seed> (same generator in the
 * model driver); its buffer is its own mapping ending flush against a PROT_NONE page (a lane
 * advanced past its job faults) and becomes inaccessible as soon as the job is returned (a
 * stale pointer faults).  The manager lies flush against a PROT_NONE page too and holds 0xEE
 * junk before init.  SIGSEGV/SIGBUS/SIGILL/SIGFPE -> "FAULT", timer -> "TIMEOUT".
 * The driver observes; it decides nothing. */
#define _GNU_SOURCE
#include <stdio.h>
#include <stdlib.h>
#include <string.h>
#include <stdint.h>
#include <unistd.h>
#include <sys/mman.h>
#include "common.h"
#include <setjmp.h>
#include <signal.h>
#include <stddef.h>
#include <sys/time.h>
#include "isal_crypto_api.h"
#include "multi_buffer.h"
#include "md5_mb.h"
#include "sha1_mb.h"
#include "sha256_mb.h"
#include "sha512_mb.h"
#include "sm3_mb.h"

typedef void (*init_fn)(void *);
typedef void *(*submit_fn)(void *, void *);
typedef void *(*flush_fn)(void *);

struct lfam { const char *algo, *fam; init_fn init; submit_fn submit; flush_fn flush; int nlanes, stack_bits, dstride; };

#define LF(a, f, i, s, fl, n, sb, ds) extern void i(void *); extern void *s(void *, void *); extern void *fl(void *);
#include LANES_FAMS_INC
#undef LF
static const struct lfam lfams[] = {
#define LF(a, f, i, s, fl, n, sb, ds) { #a, #f, i, s, fl, n, sb, ds },
#include LANES_FAMS_INC
#undef LF
        { 0 }
};

static sigjmp_buf jb;
static volatile int jb_armed;
static volatile uintptr_t fault_addr;
static volatile int fault_sig;
static void
on_sig(int sig, siginfo_t *si, void *u)
{
        fault_sig = sig;
        fault_addr = (uintptr_t) si->si_addr;
        if (jb_armed) siglongjmp(jb, sig == SIGALRM ? 2 : 1);
        _exit(3);
}

static uint32_t
lcg(uint32_t *x)
{
        *x = (uint32_t) (((uint64_t) *x * 1103515245u + 12345u) & 0x7fffffffu);
        return *x;
}

/* one job's buffer: own mapping, end flush against a PROT_NONE page */
struct jbuf { uint8_t *map; size_t maplen; uint8_t *p; size_t n; int dead; };
#define MAXJOBS 4096
static struct jbuf jbufs[MAXJOBS];
static int njobs;

static uint8_t *
jbuf_new(int k, size_t n, uint32_t *x)
{
        size_t pg = 4096, body = (n + pg - 1) / pg * pg;
        if (body == 0) body = pg;
        uint8_t *m = mmap(NULL, body + 2 * pg, PROT_READ | PROT_WRITE, MAP_PRIVATE | MAP_ANONYMOUS, -1, 0);
        if (m == MAP_FAILED) { perror("mmap"); exit(2); }
        memset(m + pg, 0xA5, body);
        uint8_t *p = m + pg + body - n;
        for (size_t i = 0; i < n; i++) p[i] = (uint8_t) (lcg(x) >> 16);
        mprotect(m, pg, PROT_NONE);
        mprotect(m + pg + body, pg, PROT_NONE);
        mprotect(m + pg, body, PROT_READ);          /* the manager only reads job data */
        jbufs[k] = (struct jbuf){ m, body + 2 * pg, p, n, 0 };
        return p;
}
static void
jbuf_release(int k)
{
        if (k < 0 || k >= njobs || jbufs[k].dead) return;
        mprotect(jbufs[k].map, jbufs[k].maplen, PROT_NONE);
        jbufs[k].dead = 1;
}
static void
jbufs_free(void)
{
        for (int k = 0; k < njobs; k++) munmap(jbufs[k].map, jbufs[k].maplen);
        njobs = 0;
}

/* ---- one instance of the driver per algorithm (the structures differ in their types) ---- */
#define ALG(lc, UC, WORD, NW, BS, FMT, WBITS)                                                        \
static ISAL_##UC##_JOB *lc##_jobs;                                                                    \
static void lc##_state(ISAL_##UC##_MB_JOB_MGR *m, const struct lfam *f)                               \
{                                                                                                     \
        const uint64_t *ul = (const uint64_t *) &m->unused_lanes;                                     \
        printf(" u=");                                                                                \
        int nz = 0;                                                                                   \
        for (int w = f->stack_bits / 64 - 1; w >= 0; w--) {                                           \
                if (nz) printf("%016llx", (unsigned long long) ul[w]);                                \
                else if (ul[w] || w == 0) { printf("%llx", (unsigned long long) ul[w]); nz = 1; }     \
        }                                                                                             \
        printf(" n=%u l=", (unsigned) m->num_lanes_inuse);                                            \
        for (int i = 0; i < f->nlanes; i++) printf("%s%llx", i ? "," : "", (unsigned long long) m->lens[i]); \
        printf(" j=");                                                                                \
        for (int i = 0; i < f->nlanes; i++) {                                                         \
                ISAL_##UC##_JOB *jp = m->ldata[i].job_in_lane;                                        \
                if (!jp) printf("%s-", i ? "," : "");                                                 \
                else if (jp >= lc##_jobs && jp < lc##_jobs + njobs) printf("%s%d", i ? "," : "", (int) (jp - lc##_jobs)); \
                else printf("%sforeign", i ? "," : "");                                               \
        }                                                                                             \
        printf(" p=");                                                                                \
        for (int i = 0; i < f->nlanes; i++) {                                                         \
                ISAL_##UC##_JOB *jp = m->ldata[i].job_in_lane;                                        \
                if (jp && jp >= lc##_jobs && jp < lc##_jobs + njobs) {                                \
                        long d = (long) (m->args.data_ptr[i] - jp->buffer);                           \
                        if (d % BS == 0) printf("%s%ld", i ? "," : "", d / BS);                       \
                        else printf("%s%ldB", i ? "," : "", d);                                       \
                } else printf("%s-", i ? "," : "");                                                   \
        }                                                                                             \
        printf(" c=");                                                                                \
        for (int i = 0; i < f->nlanes; i++) {                                                         \
                if (i) printf(",");                                                                   \
                if (!m->ldata[i].job_in_lane) { printf("-"); continue; }                              \
                for (int w = 0; w < NW; w++) printf("%s" FMT, w ? "." : "", (unsigned long long) ((const WORD *) m->args.digest)[w * f->dstride + i]); \
        }                                                                                             \
}                                                                                                     \
/* "I" lines (tr/lane_cfg.py): what the init function leaves in the manager, whatever its source looks like:   \
   run on two different junk fills; every element of unused_lanes[], lens[], and which job_in_lane are set */ \
static void lc##_init_dump(const struct lfam *f)                                                        \
{                                                                                                     \
        static const int fills[2] = { 0xEE, 0x11 };                                                   \
        for (int k = 0; k < 2; k++) {                                                                 \
                ISAL_##UC##_MB_JOB_MGR *m = aligned_alloc(64, (sizeof *m + 63) / 64 * 64);            \
                memset(m, fills[k], sizeof *m);                                                       \
                f->init(m);                                                                           \
                const uint64_t *ul = (const uint64_t *) &m->unused_lanes;                             \
                printf(" | init %02x > ul=", fills[k]);                                               \
                for (size_t w = 0; w < sizeof m->unused_lanes / 8; w++) printf("%s%llx", w ? "," : "", (unsigned long long) ul[w]); \
                printf(" n=%llx lens=", (unsigned long long) m->num_lanes_inuse);                     \
                for (size_t i = 0; i < sizeof m->lens / sizeof m->lens[0]; i++) printf("%s%llx", i ? "," : "", (unsigned long long) m->lens[i]); \
                printf(" jobs=");                                                                     \
                for (size_t i = 0; i < sizeof m->ldata / sizeof m->ldata[0]; i++) printf("%s", m->ldata[i].job_in_lane ? "1" : "0"); \
                free(m);                                                                              \
        }                                                                                             \
        printf(" | end ok\n");                                                                        \
}                                                                                                     \
static void lc##_run(const struct lfam *f, char **ops, int nops, int tmo)                             \
{                                                                                                     \
        size_t pg = 4096, msz = sizeof(ISAL_##UC##_MB_JOB_MGR);                                       \
        size_t body = (msz + pg - 1) / pg * pg;                                                       \
        uint8_t *mm = mmap(NULL, body + 2 * pg, PROT_READ | PROT_WRITE, MAP_PRIVATE | MAP_ANONYMOUS, -1, 0); \
        if (mm == MAP_FAILED) { perror("mmap"); exit(2); }                                            \
        mprotect(mm, pg, PROT_NONE); mprotect(mm + pg + body, pg, PROT_NONE);                         \
        memset(mm + pg, 0xEE, body);                                                                  \
        /* end flush against the guard page, respecting the structure's alignment */                  \
        ISAL_##UC##_MB_JOB_MGR *m = (void *) (mm + pg + ((body - msz) & ~(size_t) 63));               \
        lc##_jobs = aligned_alloc(64, (size_t) (nops + 1) * sizeof(ISAL_##UC##_JOB));                \
        memset(lc##_jobs, 0, (size_t) (nops + 1) * sizeof(ISAL_##UC##_JOB));                         \
        njobs = 0;                                                                                    \
        struct itimerval it = { { 0, 0 }, { tmo, 0 } }, off = { { 0, 0 }, { 0, 0 } };                 \
        int sj = sigsetjmp(jb, 1);                                                                    \
        if (sj) {                                                                                     \
                jb_armed = 0; setitimer(ITIMER_REAL, &off, NULL);                                     \
                if (sj == 2) printf(" TIMEOUT | end timeout\n");                                      \
                else printf(" FAULT sig=%d addr=%llx | end fault\n", fault_sig, (unsigned long long) fault_addr); \
                goto out;                                                                             \
        }                                                                                             \
        jb_armed = 1; setitimer(ITIMER_REAL, &it, NULL);                                              \
        printf(" | init >");                                                                          \
        fflush(stdout);                                                                               \
        f->init(m);                                                                                   \
        lc##_state(m, f);                                                                             \
        for (int o = 0; o < nops; o++) {                                                              \
                ISAL_##UC##_JOB *r;                                                                   \
                printf(" | %s >", ops[o]);                                                            \
                fflush(stdout);                                                                       \
                if (ops[o][0] == 'S') {                                                               \
                        unsigned nb = 0, seed = 0;                                                    \
                        if (sscanf(ops[o] + 1, "%u,%u", &nb, &seed) != 2 || njobs >= MAXJOBS) { printf(" badop | end badop\n"); goto done; } \
                        uint32_t x = seed;                                                            \
                        ISAL_##UC##_JOB *jp = &lc##_jobs[njobs];                                      \
                        for (int w = 0; w < NW; w++) {                                                \
                                WORD v = 0;                                                           \
                                for (int h = 0; h < WBITS / 16; h++) v = (WORD) ((v << 16) | ((lcg(&x) >> 8) & 0xffff)); \
                                jp->result_digest[w] = v;                                             \
                        }                                                                             \
                        jp->buffer = jbuf_new(njobs, (size_t) nb * BS, &x);                           \
                        jp->len = nb;                                                                 \
                        jp->status = ISAL_STS_UNKNOWN;                                                \
                        jp->user_data = (void *) (uintptr_t) (0xABC00000u + njobs);                   \
                        njobs++;                                                                      \
                        r = f->submit(m, jp);                                                         \
                } else if (ops[o][0] == 'F') {                                                        \
                        r = f->flush(m);                                                              \
                } else { printf(" badop | end badop\n"); goto done; }                                 \
                if (!r) printf(" r=- d=-");                                                           \
                else if (r >= lc##_jobs && r < lc##_jobs + njobs) {                                   \
                        int k = (int) (r - lc##_jobs);                                                \
                        printf(" r=%d d=", k);                                                        \
                        for (int w = 0; w < NW; w++) printf("%s" FMT, w ? "." : "", (unsigned long long) r->result_digest[w]); \
                        if (r->status != ISAL_STS_COMPLETED) printf(" status=%d", (int) r->status);  \
                        if (r->user_data != (void *) (uintptr_t) (0xABC00000u + k)) printf(" userdata=changed"); \
                        jbuf_release(k);                                                              \
                } else printf(" r=foreign d=-");                                                      \
                lc##_state(m, f);                                                                     \
        }                                                                                             \
        printf(" | end ok\n");                                                                        \
done:                                                                                                 \
        jb_armed = 0; setitimer(ITIMER_REAL, &off, NULL);                                             \
out:                                                                                                  \
        fflush(stdout);                                                                               \
        free(lc##_jobs); lc##_jobs = NULL;                                                            \
        jbufs_free();                                                                                 \
        munmap(mm, body + 2 * pg);                                                                    \
}

ALG(md5, MD5, uint32_t, ISAL_MD5_DIGEST_NWORDS, ISAL_MD5_BLOCK_SIZE, "%llx", 32)
ALG(sha1, SHA1, uint32_t, ISAL_SHA1_DIGEST_NWORDS, ISAL_SHA1_BLOCK_SIZE, "%llx", 32)
ALG(sha256, SHA256, uint32_t, ISAL_SHA256_DIGEST_NWORDS, ISAL_SHA256_BLOCK_SIZE, "%llx", 32)
ALG(sha512, SHA512, uint64_t, ISAL_SHA512_DIGEST_NWORDS, ISAL_SHA512_BLOCK_SIZE, "%llx", 64)
ALG(sm3, SM3, uint32_t, ISAL_SM3_DIGEST_NWORDS, ISAL_SM3_BLOCK_SIZE, "%llx", 32)

int
main(void)
{
        struct sigaction sa;
        memset(&sa, 0, sizeof sa);
        sa.sa_sigaction = on_sig;
        sa.sa_flags = SA_SIGINFO | SA_NODEFER;
        sigaction(SIGSEGV, &sa, NULL);
        sigaction(SIGBUS, &sa, NULL);
        sigaction(SIGILL, &sa, NULL);
        sigaction(SIGFPE, &sa, NULL);
        sigaction(SIGALRM, &sa, NULL);
        char *line = NULL;
        size_t cap = 0;
        ssize_t n;
        while ((n = getline(&line, &cap, stdin)) > 0) {
                char **tok = malloc(sizeof(char *) * ((size_t) n / 2 + 8));
                int nt = 0;
                for (char *t = strtok(line, " \t\r\n"); t; t = strtok(NULL, " \t\r\n")) tok[nt++] = t;
                if (nt >= 4 && !strcmp(tok[0], "I")) {
                        printf("%s %s %s", tok[1], tok[2], tok[3]);
                        const struct lfam *g = NULL;
                        for (const struct lfam *q = lfams; q->algo; q++)
                                if (!strcmp(q->algo, tok[2]) && !strcmp(q->fam, tok[3])) g = q;
                        if (!g) printf(" | end nofamily\n");
                        else if (!strcmp(g->algo, "md5")) md5_init_dump(g);
                        else if (!strcmp(g->algo, "sha1")) sha1_init_dump(g);
                        else if (!strcmp(g->algo, "sha256")) sha256_init_dump(g);
                        else if (!strcmp(g->algo, "sha512")) sha512_init_dump(g);
                        else if (!strcmp(g->algo, "sm3")) sm3_init_dump(g);
                        fflush(stdout);
                        free(tok);
                        continue;
                }
                if (nt < 5 || strcmp(tok[0], "L")) { free(tok); continue; }
                printf("%s %s %s", tok[1], tok[2], tok[3]);
                const struct lfam *f = NULL;
                for (const struct lfam *q = lfams; q->algo; q++)
                        if (!strcmp(q->algo, tok[2]) && !strcmp(q->fam, tok[3])) f = q;
                int tmo = atoi(tok[4]);
                if (!f) printf(" | end nofamily\n");
                else if (!strcmp(f->algo, "md5")) md5_run(f, tok + 5, nt - 5, tmo);
                else if (!strcmp(f->algo, "sha1")) sha1_run(f, tok + 5, nt - 5, tmo);
                else if (!strcmp(f->algo, "sha256")) sha256_run(f, tok + 5, nt - 5, tmo);
                else if (!strcmp(f->algo, "sha512")) sha512_run(f, tok + 5, nt - 5, tmo);
                else if (!strcmp(f->algo, "sm3")) sm3_run(f, tok + 5, nt - 5, tmo);
                else printf(" | end nofamily\n");
                fflush(stdout);
                free(tok);
        }
        return 0;
}
