/* native driver for C04 (AES key expansion, AES-CBC).  Calls every implementation:
     _aes_keyexp_{128,192,256}_{sse,avx}, _aes_keyexp_128_enc_{sse,avx},
     isal_aes_keyexp_* through the real dispatcher under the presets sse / avx, the legacy
     aes_keyexp_* and aes_cbc_precomp;
     _aes_cbc_enc_{128,192,256}_{x4,x8}, _aes_cbc_dec_{128,192,256}_{sse,avx,vaes_avx512},
     isal_aes_cbc_{enc,dec}_* through the real dispatcher under sse / avx / avx512g2 and the
     legacy aes_cbc_{enc,dec}_*.

   K <id> <ks> <key> <pk> <akey> <aenc> <adec>
     -> <id> enc <hex> dec <hex> <call>:<res> ...   enc/dec = the two schedules written by the
        first call; <res> "=" when byte-identical, else "!enc=<hex>,dec=<hex>"; flags appended.
   C <id> <ks> <key> <iv> <nblocks> <seed> <inplace> <pin> <ain> <pout> <aout> [ms <enc_sched> <dec_sched>]
     -> <id> rks <enc_sched> <dec_sched> enc <hex> dec <hex> <call>:<res> ...
        schedules come from aes_cbc_precomp into a 16-aligned struct isal_cbc_key_data
        (".rsched") and from the case line (".msched", the model's). */
#include "aesm.h"
#include "aes_cbc.h"
#include "aes_keyexp.h"
#include "isal_crypto_api.h"

#pragma GCC diagnostic ignored "-Wdeprecated-declarations"
extern void verif_poison_vregs(void); /* harness/poison.S */
typedef void (*kx_fn)(const uint8_t *, uint8_t *, uint8_t *);
typedef int (*kx_ifn)(const uint8_t *, uint8_t *, uint8_t *);
typedef void (*kxe_fn)(const uint8_t *, uint8_t *);
typedef void (*cbc_fn)(void *, uint8_t *, uint8_t *, void *, uint64_t);
typedef int (*cbc_ifn)(const void *, const void *, const void *, void *, const uint64_t);

#define DECL_KX(ks) \
        extern void _aes_keyexp_##ks##_sse(), _aes_keyexp_##ks##_avx(); \
        extern void *_aes_keyexp_##ks##_dispatched; extern char _aes_keyexp_##ks##_mbinit[];
DECL_KX(128) DECL_KX(192) DECL_KX(256)
extern void _aes_keyexp_128_enc_sse(), _aes_keyexp_128_enc_avx();
#define DECL_CBC(ks) \
        extern void _aes_cbc_enc_##ks##_x4(), _aes_cbc_enc_##ks##_x8(), _aes_cbc_dec_##ks##_sse(), _aes_cbc_dec_##ks##_avx(), _aes_cbc_dec_##ks##_vaes_avx512(); \
        extern void *_aes_cbc_enc_##ks##_dispatched, *_aes_cbc_dec_##ks##_dispatched; \
        extern char _aes_cbc_enc_##ks##_mbinit[], _aes_cbc_dec_##ks##_mbinit[];
DECL_CBC(128) DECL_CBC(192) DECL_CBC(256)

struct entry {
        const char *name;
        int ks, dec;
        int kind; /* 0 family symbol, 1 isal_ entry under `preset`, 2 legacy, 3 aes_cbc_precomp, 4 enc-only keyexp */
        void *fn;
        const char *preset;
        void **disp;
        void *mbinit;
        void *fams[3];
        const char *famn[3];
};

#define KXF(ks) { (void *) _aes_keyexp_##ks##_sse, (void *) _aes_keyexp_##ks##_avx, NULL }, { "sse", "avx", "" }
#define KX_ALL(ks) \
        { "keyexp.sse", ks, 0, 0, (void *) _aes_keyexp_##ks##_sse, NULL, NULL, NULL, KXF(ks) }, \
        { "keyexp.avx", ks, 0, 0, (void *) _aes_keyexp_##ks##_avx, NULL, NULL, NULL, KXF(ks) }, \
        { "keyexp.isal.sse", ks, 0, 1, (void *) isal_aes_keyexp_##ks, "sse", &_aes_keyexp_##ks##_dispatched, (void *) _aes_keyexp_##ks##_mbinit, KXF(ks) }, \
        { "keyexp.isal.avx", ks, 0, 1, (void *) isal_aes_keyexp_##ks, "avx", &_aes_keyexp_##ks##_dispatched, (void *) _aes_keyexp_##ks##_mbinit, KXF(ks) }, \
        { "keyexp.isal.avx512g2", ks, 0, 1, (void *) isal_aes_keyexp_##ks, "avx512g2", &_aes_keyexp_##ks##_dispatched, (void *) _aes_keyexp_##ks##_mbinit, KXF(ks) }, \
        { "keyexp.legacy", ks, 0, 2, (void *) aes_keyexp_##ks, "host", &_aes_keyexp_##ks##_dispatched, (void *) _aes_keyexp_##ks##_mbinit, KXF(ks) }, \
        { "keyexp.precomp", ks, 0, 3, (void *) aes_cbc_precomp, "host", &_aes_keyexp_##ks##_dispatched, (void *) _aes_keyexp_##ks##_mbinit, KXF(ks) },
static struct entry kx_entries[] = {
        KX_ALL(128) KX_ALL(192) KX_ALL(256)
        { "keyexp_enc.sse", 128, 0, 4, (void *) _aes_keyexp_128_enc_sse, NULL, NULL, NULL, KXF(128) },
        { "keyexp_enc.avx", 128, 0, 4, (void *) _aes_keyexp_128_enc_avx, NULL, NULL, NULL, KXF(128) },
};
#define NKX (sizeof kx_entries / sizeof kx_entries[0])

#define CEF(ks) { (void *) _aes_cbc_enc_##ks##_x4, (void *) _aes_cbc_enc_##ks##_x8, NULL }, { "x4", "x8", "" }
#define CDF(ks) { (void *) _aes_cbc_dec_##ks##_sse, (void *) _aes_cbc_dec_##ks##_avx, (void *) _aes_cbc_dec_##ks##_vaes_avx512 }, { "sse", "avx", "vaes_avx512" }
#define CBC_ALL(ks) \
        { "enc.x4", ks, 0, 0, (void *) _aes_cbc_enc_##ks##_x4, NULL, NULL, NULL, CEF(ks) }, \
        { "enc.x8", ks, 0, 0, (void *) _aes_cbc_enc_##ks##_x8, NULL, NULL, NULL, CEF(ks) }, \
        { "enc.isal.sse", ks, 0, 1, (void *) isal_aes_cbc_enc_##ks, "sse", &_aes_cbc_enc_##ks##_dispatched, (void *) _aes_cbc_enc_##ks##_mbinit, CEF(ks) }, \
        { "enc.isal.avx", ks, 0, 1, (void *) isal_aes_cbc_enc_##ks, "avx", &_aes_cbc_enc_##ks##_dispatched, (void *) _aes_cbc_enc_##ks##_mbinit, CEF(ks) }, \
        { "enc.isal.avx512g2", ks, 0, 1, (void *) isal_aes_cbc_enc_##ks, "avx512g2", &_aes_cbc_enc_##ks##_dispatched, (void *) _aes_cbc_enc_##ks##_mbinit, CEF(ks) }, \
        { "enc.legacy", ks, 0, 2, (void *) aes_cbc_enc_##ks, "host", &_aes_cbc_enc_##ks##_dispatched, (void *) _aes_cbc_enc_##ks##_mbinit, CEF(ks) }, \
        { "dec.sse", ks, 1, 0, (void *) _aes_cbc_dec_##ks##_sse, NULL, NULL, NULL, CDF(ks) }, \
        { "dec.avx", ks, 1, 0, (void *) _aes_cbc_dec_##ks##_avx, NULL, NULL, NULL, CDF(ks) }, \
        { "dec.vaes_avx512", ks, 1, 0, (void *) _aes_cbc_dec_##ks##_vaes_avx512, NULL, NULL, NULL, CDF(ks) }, \
        { "dec.isal.sse", ks, 1, 1, (void *) isal_aes_cbc_dec_##ks, "sse", &_aes_cbc_dec_##ks##_dispatched, (void *) _aes_cbc_dec_##ks##_mbinit, CDF(ks) }, \
        { "dec.isal.avx", ks, 1, 1, (void *) isal_aes_cbc_dec_##ks, "avx", &_aes_cbc_dec_##ks##_dispatched, (void *) _aes_cbc_dec_##ks##_mbinit, CDF(ks) }, \
        { "dec.isal.avx512g2", ks, 1, 1, (void *) isal_aes_cbc_dec_##ks, "avx512g2", &_aes_cbc_dec_##ks##_dispatched, (void *) _aes_cbc_dec_##ks##_mbinit, CDF(ks) }, \
        { "dec.legacy", ks, 1, 2, (void *) aes_cbc_dec_##ks, "host", &_aes_cbc_dec_##ks##_dispatched, (void *) _aes_cbc_dec_##ks##_mbinit, CDF(ks) },
static struct entry cbc_entries[] = { CBC_ALL(128) CBC_ALL(192) CBC_ALL(256) };
#define NCBC (sizeof cbc_entries / sizeof cbc_entries[0])

static const char *
bound_name(const struct entry *e)
{
        void *b = *e->disp;
        for (int i = 0; i < 3; i++) if (e->fams[i] && b == e->fams[i]) return e->famn[i];
        return "unbound";
}

static void
arm(const struct entry *e)
{
        if (e->kind >= 1 && e->kind <= 3) { vcpu_preset(e->preset); *e->disp = e->mbinit; }
}
static void
disarm(const struct entry *e, char *bound)
{
        bound[0] = 0;
        if (e->kind >= 1 && e->kind <= 3) { strcpy(bound, bound_name(e)); vcpu_preset("host"); *e->disp = e->mbinit; }
}

static uint8_t *data, *got, *ref[2];
static size_t cap;
static void
need(size_t n)
{
        if (n + 64 <= cap) return;
        cap = n + 64;
        data = realloc(data, cap); got = realloc(got, cap); ref[0] = realloc(ref[0], cap); ref[1] = realloc(ref[1], cap);
        if (!data || !got || !ref[0] || !ref[1]) { fprintf(stderr, "oom\n"); exit(2); }
}

static void
keyexp_case(char **tok, int nt)
{
        const char *id = tok[1];
        int ks = atoi(tok[2]);
        size_t kn = ks / 8, sn = ks == 128 ? 176 : ks == 192 ? 208 : 240;
        uint8_t key[32], renc[240], rdec[240];
        int have_ref = 0;
        if (nt < 8 || unhex(tok[3], key, 32) != kn) { printf("%s badcase\n", id); return; }
        int pk = tok[4][0];
        unsigned akey = atoi(tok[5]), aenc = atoi(tok[6]), adec = atoi(tok[7]);
        printf("%s", id);
        for (int pass = 0; pass < 2; pass++)
                for (size_t i = 0; i < NKX; i++) {
                        const struct entry *e = &kx_entries[i];
                        char flags[128] = "", bound[16];
                        int rc = 0, faulted = 0;
                        if (e->ks != ks) continue;
                        if (pass == 0 && (have_ref || e->kind)) continue;
                        vbuf k = vb_alloc(kn, pk, akey), eb, db;
                        memcpy(k.p, key, kn);
                        if (e->kind == 3) {
                                /* struct isal_cbc_key_data: 16-aligned, enc_keys then dec_keys */
                                eb = vb_alloc(sizeof(struct isal_cbc_key_data), pk == 'E' ? 'E' : 'I', 0);
                                memset(eb.p, 0x5A, sizeof(struct isal_cbc_key_data));
                        } else {
                                eb = vb_alloc(sn, pk, aenc);
                                db = vb_alloc(sn, pk, adec);
                                memset(eb.p, 0x5A, sn);
                                memset(db.p, 0x5A, sn);
                        }
                        arm(e);
                        if (sigsetjmp(aesm_jb, 1) == 0) {
                                verif_poison_vregs();
                                if (e->kind == 1) rc = ((kx_ifn) e->fn)(k.p, eb.p, db.p);
                                else if (e->kind == 3) rc = aes_cbc_precomp(k.p, (int) kn, (struct isal_cbc_key_data *) eb.p);
                                else if (e->kind == 4) ((kxe_fn) e->fn)(k.p, eb.p);
                                else ((kx_fn) e->fn)(k.p, eb.p, db.p);
                        } else faulted = 1;
                        disarm(e, bound);
                        if (faulted) strcat(flags, "+fault");
                        if (rc) sprintf(flags + strlen(flags), "+rc%d", rc);
                        if (memcmp(k.p, key, kn) || !vb_canary_ok(&k)) strcat(flags, "+keymod");
                        uint8_t *ep = eb.p, *dp = e->kind == 3 ? eb.p + ISAL_CBC_MAX_KEYS_SIZE : db.p;
                        if (e->kind == 3) {
                                /* the rest of the struct must be untouched */
                                if (!vb_canary_ok(&eb)) strcat(flags, "+canary");
                                for (size_t j = sn; j < ISAL_CBC_MAX_KEYS_SIZE; j++) if (ep[j] != 0x5A || dp[j] != 0x5A) { strcat(flags, "+structpad"); break; }
                        } else if (!vb_canary_ok(&eb) || !vb_canary_ok(&db)) strcat(flags, "+canary");
                        if (e->kind == 4) { for (size_t j = 0; j < sn; j++) if (dp[j] != 0x5A) { strcat(flags, "+dectouched"); break; } }
                        if (pass == 0) {
                                memcpy(renc, ep, sn); memcpy(rdec, dp, sn); have_ref = 1;
                                printf(" enc "); puthex(stdout, renc, sn); printf(" dec "); puthex(stdout, rdec, sn);
                        } else {
                                printf(" %s%s%s:", e->name, bound[0] ? "@" : "", bound);
                                if (!memcmp(ep, renc, sn) && (e->kind == 4 || !memcmp(dp, rdec, sn))) printf("=");
                                else { printf("!enc="); puthex(stdout, ep, sn); printf(",dec="); puthex(stdout, dp, sn); }
                                printf("%s", flags);
                        }
                        arena_reset();
                }
        printf("\n");
}

static void
cbc_case(char **tok, int nt)
{
        const char *id = tok[1];
        int ks = atoi(tok[2]);
        size_t kn = ks / 8, sn = ks == 128 ? 176 : ks == 192 ? 208 : 240;
        uint8_t key[32], iv[16], msched[2][240];
        int have_ms = 0, have_ref[2] = { 0, 0 };
        if (nt < 12 || unhex(tok[3], key, 32) != kn || unhex(tok[4], iv, 16) != 16) { printf("%s badcase\n", id); return; }
        size_t len = 16 * strtoull(tok[5], NULL, 10);
        uint64_t seed = strtoull(tok[6], NULL, 16);
        int inplace = atoi(tok[7]), pin = tok[8][0], pout = tok[10][0];
        unsigned ain = atoi(tok[9]), aout = atoi(tok[11]);
        if (len == 0) { printf("%s badcase (len 0 is outside C04)\n", id); return; }
        if (nt >= 15 && !strcmp(tok[12], "ms")) {
                if (unhex(tok[13], msched[0], 240) != sn || unhex(tok[14], msched[1], 240) != sn) { printf("%s badcase\n", id); return; }
                have_ms = 1;
        }
        need(len);
        sm_bytes(seed, 0, data, len);
        static struct isal_cbc_key_data kd __attribute__((aligned(16)));
        memset(&kd, 0, sizeof kd);
        vcpu_preset("host");
        aes_cbc_precomp(key, (int) kn, &kd);
        printf("%s rks ", id); puthex(stdout, kd.enc_keys, sn); printf(" "); puthex(stdout, kd.dec_keys, sn);
        for (int pass = 0; pass < 2; pass++)
                for (size_t i = 0; i < NCBC; i++) {
                        const struct entry *e = &cbc_entries[i];
                        if (e->ks != ks) continue;
                        for (int src = 0; src < (have_ms ? 2 : 1); src++) {
                                char flags[128] = "", bound[16];
                                int rc = 0, faulted = 0;
                                if (pass == 0 && (have_ref[e->dec] || e->kind || src)) continue;
                                /* key struct and IV 16-aligned as documented */
                                vbuf kb = vb_alloc(sizeof kd, 'I', 0), ivb = vb_alloc(16, 'I', 0), out = vb_alloc(len, pout, aout), in;
                                struct isal_cbc_key_data *kp = (struct isal_cbc_key_data *) kb.p;
                                memcpy(kp, &kd, sizeof kd);
                                if (src) { memcpy(kp->enc_keys, msched[0], sn); memcpy(kp->dec_keys, msched[1], sn); }
                                memcpy(ivb.p, iv, 16);
                                if (inplace) { in = out; memcpy(out.p, data, len); }
                                else { in = vb_alloc(len, pin, ain); memcpy(in.p, data, len); memset(out.p, 0x5A, len); }
                                uint8_t *keys = e->dec ? kp->dec_keys : kp->enc_keys;
                                arm(e);
                                if (sigsetjmp(aesm_jb, 1) == 0) {
                                verif_poison_vregs();
                                        if (e->kind == 1) rc = ((cbc_ifn) e->fn)(in.p, ivb.p, keys, out.p, len);
                                        else if (e->kind == 2 && !e->dec) rc = ((cbc_ifn) e->fn)(in.p, ivb.p, keys, out.p, len);
                                        else ((cbc_fn) e->fn)(in.p, ivb.p, keys, out.p, len);
                                } else faulted = 1;
                                disarm(e, bound);
                                if (faulted) strcat(flags, "+fault");
                                if (rc) sprintf(flags + strlen(flags), "+rc%d", rc);
                                if (!vb_canary_ok(&out)) strcat(flags, "+outcanary");
                                if (!inplace) {
                                        if (!vb_canary_ok(&in)) strcat(flags, "+incanary");
                                        if (memcmp(in.p, data, len)) strcat(flags, "+inmod");
                                }
                                if (!vb_canary_ok(&kb) || !vb_canary_ok(&ivb)) strcat(flags, "+keycanary");
                                if (memcmp(kp->enc_keys, src ? msched[0] : kd.enc_keys, sn) || memcmp(kp->dec_keys, src ? msched[1] : kd.dec_keys, sn)) strcat(flags, "+keymod");
                                if (memcmp(ivb.p, iv, 16)) strcat(flags, "+ivmod");
                                if (pass == 0) {
                                        memcpy(ref[e->dec], out.p, len); have_ref[e->dec] = 1;
                                        printf(" %s ", e->dec ? "dec" : "enc"); puthex(stdout, ref[e->dec], len);
                                } else {
                                        printf(" %s%s%s%s:", e->name, src ? ".msched" : ".rsched", bound[0] ? "@" : "", bound);
                                        if (!memcmp(out.p, ref[e->dec], len)) printf("=");
                                        else { printf("!"); puthex(stdout, out.p, len); }
                                        printf("%s", flags);
                                }
                                arena_reset();
                        }
                }
        printf("\n");
}

int
main(int argc, char **argv)
{
        static char line[1 << 16];
        aesm_install_handlers();
        while (fgets(line, sizeof line, stdin)) {
                char *tok[64];
                int nt = 0;
                for (char *p = strtok(line, " \n"); p && nt < 64; p = strtok(NULL, " \n")) tok[nt++] = p;
                if (nt < 4) continue;
                if (tok[0][0] == 'K') keyexp_case(tok, nt);
                else if (tok[0][0] == 'C') cbc_case(tok, nt);
                else printf("%s badcase\n", tok[1]);
                fflush(stdout);
        }
        return 0;
}
