/* native driver for C05 / C10: mh_sha1, mh_sha256 and mh_sha1_murmur3_x64_128.
   U <id> <family> <alg> <seed-hex> <stream-hex> <ctx-placement> <nseg> <len[:placement]>...
   family: base|sse|avx|avx2|avx512   the internal entry points _mh_*_{update,finalize}_<family>
           d:<preset>                 the public isal_mh_* through the real dispatcher under the
                                      virtual CPUID preset (base|sse|avx|avx2|avx512|host)
           legacy                     the deprecated mh_* names (host dispatch)
           legacy_base                mh_*_update_base / mh_*_finalize_base
   placement: e = end of the buffer flush against a PROT_NONE page; aK = start K bytes after one.
   J <id> <family> <alg> <seed> <total-hex> <partial-hex> <interim-hex> <h1> <h2> <stream-hex> <ctx-placement> <nseg> <len>...
           state injection: after init the context fields are overwritten (total_length; partial_block_buffer[0..|partial|),
           |partial| = total % 1024; interim digests in memory order; murmur words), then as U.
   B <id> <family> <alg> <seed> <pattern-seed> <prefix-len> <chunk> <stream-hex> <ctx-placement> <nseg> <len>...
           a real long stream: first <prefix-len> bytes of the periodic pattern (period <chunk>, byte i of the period =
           top byte of x_i, x_0 = pattern-seed, x_{i+1} = x_i * 6364136223846793005 + 1442695040888963407 mod 2^64) fed in
           updates of <chunk> bytes, the context is printed ("k" record), then <stream> as in U.
   The context is prefilled with junk before init.  After every update (cases with more than
   64 updates: after every 16th and the last) the context fields
   (total_length, partial_block_buffer[0 .. total%1024), interim digests, murmur words) are
   printed; the input is compared with its source after every call. */
#include "common.h"
#include <setjmp.h>
#include <signal.h>
#include <stddef.h>
#include "mh_sha1.h"
#include "mh_sha256.h"
#include "mh_sha1_murmur3_x64_128.h"
#include "isal_crypto_api.h"

typedef int (*upd_fn)(void *, const void *, uint32_t);
typedef int (*fin1_fn)(void *, void *);
typedef int (*fin2_fn)(void *, void *, void *);

#define DECL5(pre)                                                                                 \
        extern int pre##_update_base(), pre##_update_sse(), pre##_update_avx(),                    \
                pre##_update_avx2(), pre##_update_avx512(), pre##_finalize_base(),                 \
                pre##_finalize_sse(), pre##_finalize_avx(), pre##_finalize_avx2(),                 \
                pre##_finalize_avx512();                                                           \
        extern void *pre##_update_dispatched, *pre##_finalize_dispatched;                          \
        extern char pre##_update_mbinit[], pre##_finalize_mbinit[];
DECL5(_mh_sha1)
DECL5(_mh_sha256)
DECL5(_mh_sha1_murmur3_x64_128)

static const char *fam_names[5] = { "base", "sse", "avx", "avx2", "avx512" };

struct algd {
        const char *name;
        size_t ctxsz, off_total, off_partial, off_interim, off_mur;
        int nw, is_mur;
        void *upd[5], *fin[5];
        void **upd_disp, **fin_disp;
        char *upd_mbinit, *fin_mbinit;
        void *pub_init, *pub_upd, *pub_fin;       /* isal_* */
        void *leg_init, *leg_upd, *leg_fin, *leg_upd_base, *leg_fin_base;
};

#define FIVE(pre, op) { pre##_##op##_base, pre##_##op##_sse, pre##_##op##_avx, pre##_##op##_avx2, pre##_##op##_avx512 }

static struct algd algs[3] = {
        { "sha1", sizeof(struct isal_mh_sha1_ctx), offsetof(struct isal_mh_sha1_ctx, total_length),
          offsetof(struct isal_mh_sha1_ctx, partial_block_buffer),
          offsetof(struct isal_mh_sha1_ctx, mh_sha1_interim_digests), 0, 5, 0,
          FIVE(_mh_sha1, update), FIVE(_mh_sha1, finalize),
          &_mh_sha1_update_dispatched, &_mh_sha1_finalize_dispatched,
          _mh_sha1_update_mbinit, _mh_sha1_finalize_mbinit,
          isal_mh_sha1_init, isal_mh_sha1_update, isal_mh_sha1_finalize,
          mh_sha1_init, mh_sha1_update, mh_sha1_finalize, mh_sha1_update_base, mh_sha1_finalize_base },
        { "sha256", sizeof(struct isal_mh_sha256_ctx), offsetof(struct isal_mh_sha256_ctx, total_length),
          offsetof(struct isal_mh_sha256_ctx, partial_block_buffer),
          offsetof(struct isal_mh_sha256_ctx, mh_sha256_interim_digests), 0, 8, 0,
          FIVE(_mh_sha256, update), FIVE(_mh_sha256, finalize),
          &_mh_sha256_update_dispatched, &_mh_sha256_finalize_dispatched,
          _mh_sha256_update_mbinit, _mh_sha256_finalize_mbinit,
          isal_mh_sha256_init, isal_mh_sha256_update, isal_mh_sha256_finalize,
          mh_sha256_init, mh_sha256_update, mh_sha256_finalize, mh_sha256_update_base, mh_sha256_finalize_base },
        { "mur", sizeof(struct isal_mh_sha1_murmur3_x64_128_ctx),
          offsetof(struct isal_mh_sha1_murmur3_x64_128_ctx, total_length),
          offsetof(struct isal_mh_sha1_murmur3_x64_128_ctx, partial_block_buffer),
          offsetof(struct isal_mh_sha1_murmur3_x64_128_ctx, mh_sha1_interim_digests),
          offsetof(struct isal_mh_sha1_murmur3_x64_128_ctx, murmur3_x64_128_digest), 5, 1,
          FIVE(_mh_sha1_murmur3_x64_128, update), FIVE(_mh_sha1_murmur3_x64_128, finalize),
          &_mh_sha1_murmur3_x64_128_update_dispatched, &_mh_sha1_murmur3_x64_128_finalize_dispatched,
          _mh_sha1_murmur3_x64_128_update_mbinit, _mh_sha1_murmur3_x64_128_finalize_mbinit,
          isal_mh_sha1_murmur3_x64_128_init, isal_mh_sha1_murmur3_x64_128_update,
          isal_mh_sha1_murmur3_x64_128_finalize,
          mh_sha1_murmur3_x64_128_init, mh_sha1_murmur3_x64_128_update, mh_sha1_murmur3_x64_128_finalize,
          mh_sha1_murmur3_x64_128_update_base, mh_sha1_murmur3_x64_128_finalize_base },
};

static sigjmp_buf jb;
static void
on_segv(int sig, siginfo_t *si, void *u)
{
        siglongjmp(jb, 1);
}

/* placement token ("e" | "aK") -> buffer of n bytes */
static void *heap_bufs[70000];
static int heap_n;
static uint8_t *
place(const char *p, size_t n)
{
        if (arena_n > ARENA_MAX - 8) {          /* very many segments: plain heap for the rest */
                uint8_t *q = malloc(n + 1);
                if (!q) { perror("malloc"); exit(2); }
                heap_bufs[heap_n++] = q;
                return q;
        }
        if (p && p[0] == 'a') return guard_alloc(n, 0, (size_t) atoi(p + 1) & 63);
        return guard_alloc(n, 1, 0);
}

static const char *
bound_name(struct algd *a, void *p, int fin)
{
        for (int i = 0; i < 5; i++)
                if (p == (fin ? a->fin[i] : a->upd[i])) return fam_names[i];
        return "unbound";
}

static void
release_all(void)
{
        arena_reset();
        while (heap_n > 0) free(heap_bufs[--heap_n]);
}

static void
dump_ctx_tag(struct algd *a, uint8_t *ctx, char tag)
{
        uint64_t total;
        memcpy(&total, ctx + a->off_total, 8);
        printf(" %c %llx ", tag, (unsigned long long) total);
        puthex(stdout, ctx + a->off_partial, (size_t) (total % 1024));
        printf(" ");
        for (int i = 0; i < a->nw * 16; i++) {
                uint32_t w;
                memcpy(&w, ctx + a->off_interim + 4 * i, 4);
                printf("%08x", w);
        }
        if (a->is_mur) {
                uint64_t h[2];
                memcpy(h, ctx + a->off_mur, 16);
                printf(" %016llx %016llx", (unsigned long long) h[0], (unsigned long long) h[1]);
        }
}

static void
dump_ctx(struct algd *a, uint8_t *ctx)
{
        dump_ctx_tag(a, ctx, 'u');
}

int
main(int argc, char **argv)
{
        static char line[1 << 22];
        static uint8_t stream[1 << 20];
        static char *tok[70000];
        struct sigaction sa;
        memset(&sa, 0, sizeof sa);
        sa.sa_sigaction = on_segv;
        sa.sa_flags = SA_SIGINFO | SA_NODEFER;
        sigaction(SIGSEGV, &sa, NULL);
        sigaction(SIGBUS, &sa, NULL);
        sigaction(SIGILL, &sa, NULL);

        while (fgets(line, sizeof line, stdin)) {
                int nt = 0;
                for (char *p = strtok(line, " \n"); p && nt < 70000; p = strtok(NULL, " \n")) tok[nt++] = p;
                if (nt < 8 || (strcmp(tok[0], "U") && strcmp(tok[0], "J") && strcmp(tok[0], "B"))) continue;
                /* token positions of the common fields per line kind */
                int kind = tok[0][0], i_stream = kind == 'U' ? 5 : kind == 'J' ? 10 : 8;
                int i_ctxp = i_stream + 1, i_seg0 = i_stream + 3;
                if (nt < i_seg0) continue;
                const char *id = tok[1], *fam = tok[2];
                struct algd *a = NULL;
                for (int i = 0; i < 3; i++)
                        if (!strcmp(tok[3], algs[i].name)) a = &algs[i];
                printf("%s", id);
                if (!a) { printf(" badalg\n"); continue; }
                uint64_t seed = strtoull(tok[4], NULL, 16);
                size_t slen = unhex(tok[i_stream], stream, sizeof stream);
                const char *ctxp = tok[i_ctxp];

                void *f_init = a->pub_init, *f_upd = NULL, *f_fin = NULL;
                int dispatched = 0;
                for (int i = 0; i < 5; i++)
                        if (!strcmp(fam, fam_names[i])) { f_upd = a->upd[i]; f_fin = a->fin[i]; }
                if (!f_upd && !strncmp(fam, "d:", 2)) {
                        if (vcpu_preset(fam + 2)) { printf(" badfamily\n"); continue; }
                        *a->upd_disp = a->upd_mbinit;
                        *a->fin_disp = a->fin_mbinit;
                        f_upd = a->pub_upd; f_fin = a->pub_fin; dispatched = 1;
                } else if (!f_upd && !strcmp(fam, "legacy")) {
                        vcpu_preset("host");
                        *a->upd_disp = a->upd_mbinit;
                        *a->fin_disp = a->fin_mbinit;
                        f_init = a->leg_init; f_upd = a->leg_upd; f_fin = a->leg_fin; dispatched = 1;
                } else if (!f_upd && !strcmp(fam, "legacy_base")) {
                        f_init = a->leg_init; f_upd = a->leg_upd_base; f_fin = a->leg_fin_base;
                }
                if (!f_upd) { printf(" badfamily\n"); continue; }

                if (sigsetjmp(jb, 1)) { printf(" fault\n"); release_all(); continue; }
                uint8_t *ctx = (ctxp[0] == 'a') ? guard_alloc(a->ctxsz, 0, (size_t) atoi(ctxp + 1) & 56)
                                                : guard_alloc(a->ctxsz, 1, 0);
                for (size_t i = 0; i < a->ctxsz; i++) ctx[i] = (uint8_t) (0xC3 ^ (i * 37) ^ (seed >> (i & 31)));
                int rc = a->is_mur ? ((int (*)(void *, uint64_t)) f_init)(ctx, seed) : ((int (*)(void *)) f_init)(ctx);
                if (rc) printf(" initrc%d", rc);
                if (kind == 'J') {
                        static uint8_t tmpb[4096];
                        uint64_t total0 = strtoull(tok[5], NULL, 16);
                        memcpy(ctx + a->off_total, &total0, 8);
                        size_t pl = unhex(tok[6], tmpb, sizeof tmpb);
                        if (pl != total0 % 1024) { printf(" badcase\n"); release_all(); continue; }
                        memcpy(ctx + a->off_partial, tmpb, pl);
                        const char *ih = tok[7];
                        for (int i = 0; i < a->nw * 16; i++) {
                                char w8[9];
                                memcpy(w8, ih + 8 * i, 8);
                                w8[8] = 0;
                                uint32_t w = (uint32_t) strtoul(w8, NULL, 16);
                                memcpy(ctx + a->off_interim + 4 * i, &w, 4);
                        }
                        if (a->is_mur) {
                                uint64_t h[2] = { strtoull(tok[8], NULL, 16), strtoull(tok[9], NULL, 16) };
                                memcpy(ctx + a->off_mur, h, 16);
                        }
                } else if (kind == 'B') {
                        uint64_t x = strtoull(tok[5], NULL, 16), prefix = strtoull(tok[6], NULL, 10);
                        size_t chunk = strtoul(tok[7], NULL, 10);
                        uint8_t *pat = malloc(chunk ? chunk : 1);
                        if (!pat) { perror("malloc"); exit(2); }
                        heap_bufs[heap_n++] = pat;
                        for (size_t i = 0; i < chunk; i++) {
                                pat[i] = (uint8_t) (x >> 56);
                                x = x * 6364136223846793005ULL + 1442695040888963407ULL;
                        }
                        while (prefix > 0 && chunk > 0) {
                                uint32_t n = prefix < chunk ? (uint32_t) prefix : (uint32_t) chunk;
                                rc = ((upd_fn) f_upd)(ctx, pat, n);
                                if (rc) { printf(" rc%d", rc); break; }
                                prefix -= n;
                        }
                        dump_ctx_tag(a, ctx, 'k');
                }
                size_t pos = 0;
                int bad = 0;
                for (int s = i_seg0; s < nt && !bad; s++) {
                        size_t n = strtoul(tok[s], NULL, 10);
                        const char *pl = strchr(tok[s], ':');
                        if (pos + n > slen) { printf(" badcase"); bad = 1; break; }
                        uint8_t *buf = place(pl ? pl + 1 : "e", n);
                        memcpy(buf, stream + pos, n);
                        rc = ((upd_fn) f_upd)(ctx, buf, (uint32_t) n);
                        if (rc) printf(" rc%d", rc);
                        /* more than 64 updates: the context is printed after every 16th and the last */
                        if (nt - i_seg0 <= 64 || (s - i_seg0) % 16 == 15 || s == nt - 1) dump_ctx(a, ctx);
                        if (memcmp(buf, stream + pos, n)) printf(" inputmodified");
                        pos += n;
                }
                if (!bad) {
                        uint32_t *dg = (uint32_t *) guard_alloc(4 * a->nw, 1, 0);
                        uint64_t *mh = (uint64_t *) guard_alloc(16, 1, 0);
                        memset(dg, 0x5A, 4 * a->nw);
                        memset(mh, 0x5A, 16);
                        rc = a->is_mur ? ((fin2_fn) f_fin)(ctx, dg, mh) : ((fin1_fn) f_fin)(ctx, dg);
                        if (rc) printf(" rc%d", rc);
                        printf(" f ");
                        for (int i = 0; i < a->nw; i++) printf("%08x", dg[i]);
                        if (a->is_mur) printf(" %016llx %016llx", (unsigned long long) mh[0], (unsigned long long) mh[1]);
                        /* interim digests after the tail blocks (input of the final hash): only used
                           to classify a wrong digest */
                        printf(" g ");
                        for (int i = 0; i < a->nw * 16; i++) {
                                uint32_t w;
                                memcpy(&w, ctx + a->off_interim + 4 * i, 4);
                                printf("%08x", w);
                        }
                }
                printf("\n");
                if (dispatched)
                        fprintf(stderr, "%s bound=%s/%s\n", id, bound_name(a, *a->upd_disp, 0), bound_name(a, *a->fin_disp, 1));
                release_all();
        }
        return 0;
}
