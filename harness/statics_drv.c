/* native driver for C18: the library as its own shared object (built by checks/c18.py from the
   hook+FIPS archive with -Wl,--whole-archive), so that its writable segment is a separate mapping.

   usage: statics_drv <nthreads> <ops_per_thread> <race_rounds> <seed>      stdin: one entry name per line
          (the 64 dispatched entries, `_aes_cbc_dec_128` ...; from the symbol table)

   phase A  every thread's operation list (mixed hash managers, multi-hash, key expansion, CBC,
            GCM one-shot / streaming / nt, XTS, rolling hash, all on PRIVATE objects) is first run
            sequentially by the main thread (this also makes the bindings and, FIPS, runs the
            self-tests); then every writable page of the library is mprotect'ed read-only and the
            same lists run concurrently from N threads; results must equal the sequential ones.
            A write into a library static faults: `FAULT addr=<offset in the .so>`.
   phase B  protection lifted; R rounds: every binding re-armed (<e>_dispatched = <e>_mbinit), 16
            threads released together, each runs an operation list (so that every entry's FIRST
            call races); results must equal the sequential ones, and every pointer must end up at
            the value bound sequentially.
   Output: lines `A ...`, `B ...`, `PTR <name> <so-offset> <addr mod 64>`, `FAULT ...`. */
#define _GNU_SOURCE
#include "common.h"
#include <dlfcn.h>
#include <link.h>
#include <pthread.h>
#include <signal.h>
#include <stdatomic.h>
#include "isal_crypto_api.h"
#include "aes_cbc.h"
#include "aes_cbc_internal.h"
#include "aes_gcm.h"
#include "aes_gcm_internal.h"
#include "aes_keyexp.h"
#include "aes_keyexp_internal.h"
#include "aes_xts.h"
#include "aes_xts_internal.h"
#include "md5_mb.h"
#include "md5_mb_internal.h"
#include "sha1_mb.h"
#include "sha1_mb_internal.h"
#include "sha256_mb.h"
#include "sha256_mb_internal.h"
#include "sha512_mb.h"
#include "sha512_mb_internal.h"
#include "sm3_mb.h"
#include "sm3_mb_internal.h"
#include "mh_sha1.h"
#include "mh_sha1_internal.h"
#include "mh_sha256.h"
#include "mh_sha256_internal.h"
#include "mh_sha1_murmur3_x64_128.h"
#include "mh_sha1_murmur3_x64_128_internal.h"
#include "rolling_hashx.h"
#include "rolling_hashx_internal.h"

extern void _aes_keyexp_128_enc(const uint8_t *key, uint8_t *exp_key_enc);

/* ------------------------------------------------------------------ the library's mapping */
static uintptr_t so_base, rw_lo, rw_hi;
static int
phdr_cb(struct dl_phdr_info *info, size_t size, void *data)
{
        if (!info->dlpi_name || !strstr(info->dlpi_name, "libisalverif")) return 0;
        so_base = info->dlpi_addr;
        for (int i = 0; i < info->dlpi_phnum; i++) {
                const ElfW(Phdr) *p = &info->dlpi_phdr[i];
                if (p->p_type == PT_LOAD && (p->p_flags & PF_W)) {
                        uintptr_t lo = (info->dlpi_addr + p->p_vaddr) & ~(uintptr_t) 4095;
                        uintptr_t hi = (info->dlpi_addr + p->p_vaddr + p->p_memsz + 4095) & ~(uintptr_t) 4095;
                        if (!rw_lo || lo < rw_lo) rw_lo = lo;
                        if (hi > rw_hi) rw_hi = hi;
                }
        }
        return 1;
}

static __thread char cur_desc[200];
static const char *cur_family = "host";
static char names[128][96];
static void **ptrs[128];
static void *mbinit[128], *bound[128];
static int n_entries;
static volatile int protected_now;
static atomic_int late_binds;
static uintptr_t hook_ctr[4];     /* the virtual-CPUID hook's own counters (harness/vcpuid.S inside the .so) */

static void
on_fault(int sig, siginfo_t *si, void *u)
{
        uintptr_t a = (uintptr_t) si->si_addr;
        char buf[160];
        int n;
        ucontext_t *uc = u;
        uintptr_t pc = (uintptr_t) uc->uc_mcontext.gregs[REG_RIP];
        if (sig == SIGTRAP) {
                /* the single binding store that was let through has executed: protect again */
                if (protected_now) mprotect((void *) rw_lo, rw_hi - rw_lo, PROT_READ);
                uc->uc_mcontext.gregs[REG_EFL] &= ~0x100ll;
                return;
        }
        if (a >= rw_lo && a < rw_hi && protected_now)
                for (int i = 0; i < n_entries; i++)
                        if (a == (uintptr_t) ptrs[i] && *ptrs[i] == mbinit[i]) {
                                /* a dispatch slot that is still unbound: the harness failed to make this binding
                                   before protecting.  Not a property violation: report, let the store execute
                                   (trap flag), re-protect in the SIGTRAP handler */
                                n = snprintf(buf, sizeof buf, "LATEBIND %s pc=%lx family=%s %s\n", names[i], (unsigned long) (pc - so_base), cur_family, cur_desc);
                                if (write(1, buf, (size_t) n) < 0) {}
                                atomic_fetch_add(&late_binds, 1);
                                mprotect((void *) rw_lo, rw_hi - rw_lo, PROT_READ | PROT_WRITE);
                                uc->uc_mcontext.gregs[REG_EFL] |= 0x100;
                                return;
                        }
        if (protected_now && (a == hook_ctr[0] || a == hook_ctr[1] || a == hook_ctr[2] || a == hook_ctr[3]) && a) {
                /* a dispatcher running late under a virtual CPUID bumps the hook's call counter: harness data */
                mprotect((void *) rw_lo, rw_hi - rw_lo, PROT_READ | PROT_WRITE);
                uc->uc_mcontext.gregs[REG_EFL] |= 0x100;
                return;
        }
        if (a >= rw_lo && a < rw_hi)
                n = snprintf(buf, sizeof buf, "FAULT write-to-library-static addr=%lx pc=%lx\n", (unsigned long) (a - so_base),
                             (unsigned long) (pc - so_base));
        else
                n = snprintf(buf, sizeof buf, "FAULT other addr=%lx pc=%lx\n", (unsigned long) a, (unsigned long) (pc - so_base));
        if (write(1, buf, (size_t) n) < 0) {}
        n = snprintf(buf, sizeof buf, "DESC family=%s %s\n", cur_family, cur_desc);
        if (write(1, buf, (size_t) n) < 0) {}
        _exit(3);
}

/* virtual CPUID presets, written into the LIBRARY's copy of the hook variables (a direct reference
   from the executable would get a copy relocation that the -Bsymbolic library never reads) */
static uint32_t *so_cpuid_on, *so_cpuid_tab;
static int
so_preset(const char *name)
{
        uint32_t sse = C1_SSE41 | C1_SSE42 | C1_AES | C1_PCLMUL, avx = sse | C1_AVX | C1_OSXSAVE;
        uint32_t g1 = C7B_AVX512F | C7B_AVX512DQ | C7B_AVX512CD | C7B_AVX512BW | C7B_AVX512VL;
        uint32_t g2 = C7C_VBMI2 | C7C_GFNI | C7C_VAES | C7C_VPCLMULQDQ | C7C_VNNI | C7C_BITALG | C7C_VPOPCNTDQ;
        uint32_t l1c = 0, l7b = 0, l7c = 0, xcr0 = 0;
        if (!so_cpuid_on || !so_cpuid_tab) return -1;
        if (!strcmp(name, "host")) { *so_cpuid_on = 0; return 0; }
        else if (!strcmp(name, "base")) {}
        else if (!strcmp(name, "sse")) l1c = sse;
        else if (!strcmp(name, "avx")) { l1c = avx; xcr0 = 6; }
        else if (!strcmp(name, "avx2")) { l1c = avx; l7b = C7B_AVX2; xcr0 = 6; }
        else if (!strcmp(name, "avx512")) { l1c = avx; l7b = C7B_AVX2 | g1; xcr0 = 0xe6; }
        else if (!strcmp(name, "avx512g2")) { l1c = avx; l7b = C7B_AVX2 | g1 | C7B_AVX512IFMA; l7c = g2; xcr0 = 0xe6; }
        else if (!strcmp(name, "sse_ni")) { l1c = sse; l7b = C7B_SHA; }
        else if (!strcmp(name, "avx512_ni")) { l1c = avx; l7b = C7B_AVX2 | g1 | C7B_SHA; xcr0 = 0xe6; }
        else return -1;
        memset(so_cpuid_tab, 0, sizeof(uint32_t) * 10);
        so_cpuid_tab[2] = l1c; so_cpuid_tab[5] = l7b; so_cpuid_tab[6] = l7c; so_cpuid_tab[8] = xcr0;
        *so_cpuid_on = 1;
        return 0;
}

/* ------------------------------------------------------------------ PRNG and result folding */
static inline uint64_t
sm64(uint64_t *s)
{
        uint64_t z = (*s += 0x9E3779B97F4A7C15ull);
        z = (z ^ (z >> 30)) * 0xBF58476D1CE4E5B9ull;
        z = (z ^ (z >> 27)) * 0x94D049BB133111EBull;
        return z ^ (z >> 31);
}
static inline uint64_t
fold(uint64_t h, const void *p, size_t n)
{
        const uint8_t *b = p;
        for (size_t i = 0; i < n; i++) h = (h ^ b[i]) * 0x100000001b3ull;
        return h;
}
static void
fill(uint8_t *p, size_t n, uint64_t *s)
{
        for (size_t i = 0; i < n; i++) p[i] = (uint8_t) sm64(s);
}

/* ------------------------------------------------------------------ operations on private objects
   Every operation draws (or, in sweep mode, is given) a data-pointer alignment 0..63 (odd and
   1/2/3 mod 4 included), a length class (sub-block .. multi-block) and a variant (split points,
   in-place / out-of-place, key size, streaming mode); what it is about to do is recorded in a
   thread-local descriptor that the fault handler prints. */
#define REG 8192                /* three data regions per thread */
#define BUFSZ (3 * REG)

struct opcfg { int force; int align; uint32_t len; int variant; };
static __thread struct opcfg cfg;

static int
pick_align(uint64_t *s)
{
        if (cfg.force) return cfg.align & 63;
        switch (sm64(s) % 8) {
        case 0: case 1: return 0;
        case 2: return 1;
        case 3: return 2;
        case 4: return 3;
        case 5: return (int) (2 * (sm64(s) % 32) + 1);
        case 6: return (int) (sm64(s) % 64);
        default: return (int) (4 * (sm64(s) % 16));
        }
}
static uint32_t
pick_len(uint64_t *s, uint32_t small, uint32_t big)
{
        if (cfg.force) return cfg.len > big ? big : cfg.len;
        return (uint32_t) ((sm64(s) % 4) ? sm64(s) % small : sm64(s) % big);
}
static int
pick_var(uint64_t *s, int n)
{
        if (cfg.force) { int v = cfg.variant % n; cfg.variant /= n; return v; }
        return (int) (sm64(s) % (uint64_t) n);
}
#define DESC(kind, al, len, var)                                                                   \
        snprintf(cur_desc, sizeof cur_desc, "op=%s align=%d len=%u variant=%d", kind, (int) (al), (unsigned) (len), (int) (var))

#define HASH_OP(NAME, PFX, MGR, CTX, NW)                                                           \
        static uint64_t op_##NAME(uint64_t *s, uint8_t *buf)                                        \
        {                                                                                          \
                MGR *m;                                                                            \
                if (posix_memalign((void **) &m, 64, sizeof *m)) return 1;                          \
                CTX c[5], *r;                                                                      \
                uint64_t h = 14695981039346656037ull;                                              \
                int al = pick_align(s), var = pick_var(s, 10);                                     \
                int nc = 1 + var % 5, split = var / 5;                                             \
                uint32_t len0 = pick_len(s, 700, 3000);                                            \
                DESC(#NAME, al, len0, var);                                                        \
                PFX##_ctx_mgr_init(m);                                                             \
                uint32_t lens[5];                                                                  \
                for (int i = 0; i < nc; i++) {                                                     \
                        isal_hash_ctx_init(&c[i]);                                                 \
                        lens[i] = i == 0 ? len0 : (uint32_t) (sm64(s) % 700);                      \
                }                                                                                  \
                fill(buf, REG, s);                                                                 \
                for (int i = 0; i < nc; i++) {                                                     \
                        const uint8_t *d = buf + al + 67 * i;                                      \
                        uint32_t half = lens[i] & ~63u;                                            \
                        if (half && split) {                                                       \
                                r = PFX##_ctx_mgr_submit(m, &c[i], d, half, ISAL_HASH_FIRST);      \
                                while (isal_hash_ctx_processing(&c[i])) r = PFX##_ctx_mgr_flush(m); \
                                r = PFX##_ctx_mgr_submit(m, &c[i], d + half, lens[i] - half, ISAL_HASH_LAST); \
                        } else                                                                     \
                                r = PFX##_ctx_mgr_submit(m, &c[i], d, lens[i], ISAL_HASH_ENTIRE);  \
                        (void) r;                                                                  \
                }                                                                                  \
                while (PFX##_ctx_mgr_flush(m)) {}                                                  \
                for (int i = 0; i < nc; i++) h = fold(h, c[i].job.result_digest, sizeof(c[i].job.result_digest[0]) * NW); \
                free(m);                                                                           \
                return h;                                                                          \
        }
HASH_OP(sha1, _sha1, ISAL_SHA1_HASH_CTX_MGR, ISAL_SHA1_HASH_CTX, ISAL_SHA1_DIGEST_NWORDS)
HASH_OP(sha256, _sha256, ISAL_SHA256_HASH_CTX_MGR, ISAL_SHA256_HASH_CTX, ISAL_SHA256_DIGEST_NWORDS)
HASH_OP(sha512, _sha512, ISAL_SHA512_HASH_CTX_MGR, ISAL_SHA512_HASH_CTX, ISAL_SHA512_DIGEST_NWORDS)
HASH_OP(md5, _md5, ISAL_MD5_HASH_CTX_MGR, ISAL_MD5_HASH_CTX, ISAL_MD5_DIGEST_NWORDS)
HASH_OP(sm3, _sm3, ISAL_SM3_HASH_CTX_MGR, ISAL_SM3_HASH_CTX, ISAL_SM3_DIGEST_NWORDS)

static uint64_t
op_mh(uint64_t *s, uint8_t *buf)
{
        uint64_t h = 1469598103934665603ull;
        int al = pick_align(s), var = pick_var(s, 4);
        uint32_t len = pick_len(s, 3000, 6000);
        /* split point: none / inside the first block / after whole blocks / anywhere */
        uint32_t cut = var == 0 ? len : var == 1 ? (len < 100 ? len : 100) : var == 2 ? (len & ~1023u) : (len ? (uint32_t) (sm64(s) % len) : 0);
        DESC("mh", al, len, var);
        fill(buf, REG, s);
        const uint8_t *d = buf + al;
        struct isal_mh_sha1_ctx *c1;
        struct isal_mh_sha256_ctx *c2;
        struct isal_mh_sha1_murmur3_x64_128_ctx *c3;
        if (posix_memalign((void **) &c1, 64, sizeof *c1) || posix_memalign((void **) &c2, 64, sizeof *c2) ||
            posix_memalign((void **) &c3, 64, sizeof *c3))
                return 1;
        uint32_t d1[5], d2[8], d3[5];
        uint64_t mur[2];
        _mh_sha1_init(c1); _mh_sha1_update(c1, d, cut); _mh_sha1_update(c1, d + cut, len - cut); _mh_sha1_finalize(c1, d1);
        _mh_sha256_init(c2); _mh_sha256_update(c2, d, cut); _mh_sha256_update(c2, d + cut, len - cut); _mh_sha256_finalize(c2, d2);
        _mh_sha1_murmur3_x64_128_init(c3, sm64(s)); _mh_sha1_murmur3_x64_128_update(c3, d, cut);
        _mh_sha1_murmur3_x64_128_update(c3, d + cut, len - cut); _mh_sha1_murmur3_x64_128_finalize(c3, d3, mur);
        h = fold(h, d1, sizeof d1); h = fold(h, d2, sizeof d2); h = fold(h, d3, sizeof d3); h = fold(h, mur, sizeof mur);
        free(c1); free(c2); free(c3);
        return h;
}

static uint64_t
op_cbc(uint64_t *s, uint8_t *buf)
{
        uint8_t key[32], __attribute__((aligned(16))) iv[16], __attribute__((aligned(16))) ek[16 * 15], __attribute__((aligned(16))) dk[16 * 15];
        int al = pick_align(s), var = pick_var(s, 6), which = var % 3, inplace = var / 3;
        uint64_t h = 99, len = 16 * (1 + pick_len(s, 40 * 16, 400 * 16) / 16);
        DESC("cbc", al, len, var);
        uint8_t *in = buf + al, *ct = buf + REG + ((al * 7) & 63), *pt = buf + 2 * REG + ((al * 13) & 63);
        fill(key, 32, s); fill(iv, 16, s); fill(in, (size_t) len, s);
        if (inplace) { memcpy(ct, in, (size_t) len); pt = ct; }
        const uint8_t *src = inplace ? ct : in;
        if (which == 0) { isal_aes_keyexp_128(key, ek, dk); isal_aes_cbc_enc_128(src, iv, ek, ct, len); h = fold(h, ct, len); isal_aes_cbc_dec_128(ct, iv, dk, pt, len); }
        else if (which == 1) { _aes_keyexp_192(key, ek, dk); _aes_cbc_enc_192((void *) src, iv, ek, ct, len); h = fold(h, ct, len); _aes_cbc_dec_192(ct, iv, dk, pt, len); }
        else { _aes_keyexp_256(key, ek, dk); _aes_cbc_enc_256((void *) src, iv, ek, ct, len); h = fold(h, ct, len); _aes_cbc_dec_256(ct, iv, dk, pt, len); }
        h = fold(h, pt, len);
        if (memcmp(pt, in, len)) h ^= 0xbadbadbad;
        _aes_keyexp_128_enc(key, ek);
        return fold(h, ek, 16 * 11);
}

static uint64_t
op_gcm(uint64_t *s, uint8_t *buf)
{
        struct isal_gcm_key_data *k;
        struct isal_gcm_context_data *c;
        if (posix_memalign((void **) &k, 64, sizeof *k) || posix_memalign((void **) &c, 64, sizeof *c)) return 1;
        uint8_t key[32], iv[12], aad[24], tag[16], tag2[16];
        int al = pick_align(s), var = pick_var(s, 16), k256 = var & 1, mode = (var >> 1) & 3, inplace = var >> 3;
        uint64_t h = 7, len = pick_len(s, 900, 4000), cut = len ? (sm64(s) % len) & ~15ull : 0;
        if (mode >= 2) { al = 0; len &= ~63ull; }     /* the nt variants require 64-byte aligned text */
        DESC("gcm", al, len, var);
        uint8_t *in = buf + al, *ct = buf + REG + (mode >= 2 ? 0 : (al * 7) & 63), *pt = buf + 2 * REG + (mode >= 2 ? 0 : (al * 13) & 63);
        fill(key, 32, s); fill(iv, 12, s); fill(aad, 24, s); fill(in, (size_t) len, s);
        if (inplace) { memcpy(ct, in, (size_t) len); pt = ct; }
        const uint8_t *src = inplace ? ct : in;
        if (k256) _aes_gcm_pre_256(key, k); else _aes_gcm_pre_128(key, k);
        uint64_t hc = 0;
        if (mode == 0) {
                /* through the public isal_* wrappers (parameter checks, FIPS gate, then the dispatched entry) */
                if (k256) { isal_aes_gcm_enc_256(k, c, ct, src, len, iv, aad, 20, tag, 16); hc = fold(7, ct, len); isal_aes_gcm_dec_256(k, c, pt, ct, len, iv, aad, 20, tag2, 16); }
                else { isal_aes_gcm_enc_128(k, c, ct, src, len, iv, aad, 20, tag, 16); hc = fold(7, ct, len); isal_aes_gcm_dec_128(k, c, pt, ct, len, iv, aad, 20, tag2, 16); }
        } else if (mode == 1) {
                if (k256) {
                        _aes_gcm_init_256(k, c, iv, aad, 20); _aes_gcm_enc_256_update(k, c, ct, src, cut); _aes_gcm_enc_256_update(k, c, ct + cut, src + cut, len - cut);
                        _aes_gcm_enc_256_finalize(k, c, tag, 16); hc = fold(7, ct, len);
                        _aes_gcm_init_256(k, c, iv, aad, 20); _aes_gcm_dec_256_update(k, c, pt, ct, cut); _aes_gcm_dec_256_update(k, c, pt + cut, ct + cut, len - cut);
                        _aes_gcm_dec_256_finalize(k, c, tag2, 16);
                } else {
                        _aes_gcm_init_128(k, c, iv, aad, 20); _aes_gcm_enc_128_update(k, c, ct, src, cut); _aes_gcm_enc_128_update(k, c, ct + cut, src + cut, len - cut);
                        _aes_gcm_enc_128_finalize(k, c, tag, 16); hc = fold(7, ct, len);
                        _aes_gcm_init_128(k, c, iv, aad, 20); _aes_gcm_dec_128_update(k, c, pt, ct, cut); _aes_gcm_dec_128_update(k, c, pt + cut, ct + cut, len - cut);
                        _aes_gcm_dec_128_finalize(k, c, tag2, 16);
                }
        } else if (mode == 2) {
                if (k256) { _aes_gcm_enc_256_nt(k, c, ct, src, len, iv, aad, 20, tag, 16); hc = fold(7, ct, len); _aes_gcm_dec_256_nt(k, c, pt, ct, len, iv, aad, 20, tag2, 16); }
                else { _aes_gcm_enc_128_nt(k, c, ct, src, len, iv, aad, 20, tag, 16); hc = fold(7, ct, len); _aes_gcm_dec_128_nt(k, c, pt, ct, len, iv, aad, 20, tag2, 16); }
        } else {
                if (k256) {
                        _aes_gcm_init_256(k, c, iv, aad, 20); _aes_gcm_enc_256_update_nt(k, c, ct, src, len); _aes_gcm_enc_256_finalize(k, c, tag, 16); hc = fold(7, ct, len);
                        _aes_gcm_init_256(k, c, iv, aad, 20); _aes_gcm_dec_256_update_nt(k, c, pt, ct, len); _aes_gcm_dec_256_finalize(k, c, tag2, 16);
                } else {
                        _aes_gcm_init_128(k, c, iv, aad, 20); _aes_gcm_enc_128_update_nt(k, c, ct, src, len); _aes_gcm_enc_128_finalize(k, c, tag, 16); hc = fold(7, ct, len);
                        _aes_gcm_init_128(k, c, iv, aad, 20); _aes_gcm_dec_128_update_nt(k, c, pt, ct, len); _aes_gcm_dec_128_finalize(k, c, tag2, 16);
                }
        }
        h = hc; h = fold(h, tag, 16); h = fold(h, tag2, 16);
        if (memcmp(pt, in, len) || memcmp(tag, tag2, 16)) h ^= 0xbadbadbad;
        free(k); free(c);
        return h;
}

static uint64_t
op_xts(uint64_t *s, uint8_t *buf)
{
        uint8_t k1[32], k2[32], tw[16], __attribute__((aligned(16))) e1[16 * 15], __attribute__((aligned(16))) d1[16 * 15],
                __attribute__((aligned(16))) e2[16 * 15], __attribute__((aligned(16))) d2[16 * 15];
        int al = pick_align(s), var = pick_var(s, 4), k256 = var & 1, inplace = var >> 1;
        uint64_t h = 5, len = 16 + pick_len(s, 900, 2400);
        DESC("xts", al, len, var);
        uint8_t *in = buf + al, *ct = buf + REG + ((al * 7) & 63), *pt = buf + 2 * REG + ((al * 13) & 63), *ct2 = buf + REG + 4096 + ((al * 3) & 63);
        fill(k1, 32, s); fill(k2, 32, s); fill(tw, 16, s); fill(in, (size_t) len, s);
        if (inplace) { memcpy(ct, in, (size_t) len); pt = ct; }
        const uint8_t *src = inplace ? ct : in;
        if (k256) {
                _aes_keyexp_256(k1, e1, d1); _aes_keyexp_256(k2, e2, d2);
                _XTS_AES_256_enc_expanded_key(e2, e1, tw, len, in, ct2); h = fold(h, ct2, len);
                _XTS_AES_256_dec_expanded_key(e2, d1, tw, len, ct2, ct2);
                _XTS_AES_256_enc(k2, k1, tw, len, src, ct); h = fold(h, ct, len); _XTS_AES_256_dec(k2, k1, tw, len, ct, pt);
        } else {
                _aes_keyexp_128(k1, e1, d1); _aes_keyexp_128(k2, e2, d2);
                _XTS_AES_128_enc_expanded_key(e2, e1, tw, len, in, ct2); h = fold(h, ct2, len);
                _XTS_AES_128_dec_expanded_key(e2, d1, tw, len, ct2, ct2);
                isal_aes_xts_enc_128(k2, k1, tw, len, src, ct); h = fold(h, ct, len); isal_aes_xts_dec_128(k2, k1, tw, len, ct, pt);
        }
        if (memcmp(pt, in, len) || memcmp(ct2, in, len)) h ^= 0xbadbadbad;
        return h;
}

static uint64_t
op_roll(uint64_t *s, uint8_t *buf)
{
        struct isal_rh_state2 *st;
        if (posix_memalign((void **) &st, 64, sizeof *st)) return 1;
        uint64_t h = 3;
        int al = pick_align(s), var = pick_var(s, 48);
        uint32_t w = 1 + (uint32_t) var, off = 0, mask = 0x3f, trig = (uint32_t) sm64(s) & 0x3f, total = 64 + pick_len(s, 3000, 7000);
        int match = 0;
        DESC("roll", al, total, var);
        fill(buf, REG, s);
        uint8_t *d = buf + al;
        _rolling_hash2_init(st, w);
        _rolling_hash2_reset(st, d);
        uint32_t pos = 64;
        for (int i = 0; i < 6 && pos < total; i++) {
                match = _rolling_hash2_run(st, d + pos, total - pos, mask, trig, &off);
                h = fold(h, &off, 4); h = fold(h, &match, 4);
                pos += off;
        }
        free(st);
        return h;
}

typedef uint64_t (*opfn)(uint64_t *, uint8_t *);
static opfn OPS[] = { op_sha1, op_sha256, op_sha512, op_md5, op_sm3, op_mh, op_cbc, op_gcm, op_xts, op_roll };
static const char *OPNAMES[] = { "sha1", "sha256", "sha512", "md5", "sm3", "mh", "cbc", "gcm", "xts", "roll" };
static const int OPVARS[] = { 10, 10, 10, 10, 10, 4, 6, 16, 4, 48 };
#define NOPS ((int) (sizeof OPS / sizeof OPS[0]))

struct job { uint64_t seed; int nops; uint64_t *res; int rotate; };

static void
run_job(struct job *j)
{
        uint64_t s = j->seed;
        uint8_t *buf;
        if (posix_memalign((void **) &buf, 64, BUFSZ + 64)) exit(2);
        for (int i = 0; i < j->nops; i++) {
                int k = j->rotate >= 0 ? (i + j->rotate) % NOPS : (int) (sm64(&s) % NOPS);
                j->res[i] = OPS[k](&s, buf);
        }
        free(buf);
}

static atomic_int go, ready;
static void *
worker(void *p)
{
        atomic_fetch_add(&ready, 1);
        while (!atomic_load(&go)) __builtin_ia32_pause();
        run_job(p);
        return NULL;
}

static int
run_parallel(struct job *jobs, int n)
{
        pthread_t th[256];
        atomic_store(&go, 0); atomic_store(&ready, 0);
        for (int i = 0; i < n; i++) pthread_create(&th[i], NULL, worker, &jobs[i]);
        while (atomic_load(&ready) < n) __builtin_ia32_pause();
        atomic_store(&go, 1);
        for (int i = 0; i < n; i++) pthread_join(th[i], NULL);
        return 0;
}

static int
protect(int on)
{
        if (!on) protected_now = 0;
        if (mprotect((void *) rw_lo, rw_hi - rw_lo, on ? PROT_READ : PROT_READ | PROT_WRITE)) { perror("mprotect"); return -1; }
        if (on) protected_now = 1;
        return 0;
}

/* make EVERY binding the operations can reach under the current preset: every variant of every
   operation kind once (deterministic), unprotected; returns the number of bound entries */
static int
bind_all(uint8_t *buf, uint64_t seed)
{
        uint64_t s = seed ^ 0xb1d;
        for (int k = 0; k < NOPS; k++)
                for (int v = 0; v < OPVARS[k]; v++) {
                        cfg.force = 1; cfg.align = 0; cfg.len = 1280; cfg.variant = v;
                        OPS[k](&s, buf);
                }
        cfg.force = 0;
        int nb = 0;
        for (int i = 0; i < n_entries; i++) nb += *ptrs[i] != mbinit[i];
        return nb;
}
static void
report_unbound(const char *where)
{
        for (int i = 0; i < n_entries; i++)
                if (*ptrs[i] == mbinit[i]) printf("UNBOUND %s family=%s (%s)\n", names[i], cur_family, where);
}

/* targeted search: the given operation kinds under the given family presets, single-threaded,
   library data write-protected, over a grid of alignments x length classes x variants */
static int
sweep(const char *kinds, const char *fams, int ne, uint64_t seed)
{
        static const uint32_t lens[] = { 0, 1, 15, 16, 17, 63, 64, 65, 127, 128, 129, 255, 256, 257, 511, 512, 1023, 1024, 1025,
                                         2047, 2048, 2049, 3071, 3072, 3073, 4096, 4097, 5120 };
        uint8_t *buf;
        if (posix_memalign((void **) &buf, 64, BUFSZ + 64)) return 2;
        (void) isal_self_tests();       /* FIPS: the verdict is published before anything is protected */
        char fl[256];
        strncpy(fl, fams, sizeof fl - 1); fl[sizeof fl - 1] = 0;
        for (char *fam = strtok(fl, ","); fam; fam = strtok(NULL, ",")) {
                if (so_preset(fam)) continue;
                cur_family = fam;
                for (int i = 0; i < ne; i++) *ptrs[i] = mbinit[i];
                /* STATICS_DRV_SKIP_BIND=1: self-test of the late-binding path of this harness only */
                if (!getenv("STATICS_DRV_SKIP_BIND") && bind_all(buf, seed) != ne) report_unbound("sweep");
                for (int k = 0; k < NOPS; k++) {
                        if (!strstr(kinds, OPNAMES[k])) continue;
                        uint64_t s = seed;
                        long calls = 0;
                        if (protect(1)) return 2;
                        for (int al = 0; al < 64; al++)
                                for (unsigned li = 0; li < sizeof lens / sizeof lens[0]; li++)
                                        for (int v = 0; v < OPVARS[k]; v += (OPVARS[k] > 16 ? 5 : 1)) {
                                                cfg.force = 1; cfg.align = al; cfg.len = lens[li]; cfg.variant = v;
                                                OPS[k](&s, buf);
                                                calls++;
                                        }
                        cfg.force = 0;
                        if (protect(0)) return 2;
                        printf("S family=%s op=%s calls=%ld nofault late_binds=%d\n", fam, OPNAMES[k], calls, atomic_load(&late_binds));
                        fflush(stdout);
                }
        }
        so_preset("host");
        return 0;
}

int
main(int argc, char **argv)
{
        int nth = argc > 1 ? atoi(argv[1]) : 16, nops = argc > 2 ? atoi(argv[2]) : 40, rounds = argc > 3 ? atoi(argv[3]) : 50;
        uint64_t seed = argc > 4 ? strtoull(argv[4], NULL, 10) : 1;
        if (nth < 1 || nth > 256) return 2;
        int ne = 0;
        char line[256];
        void *self = dlopen(NULL, RTLD_NOW);
        while (fgets(line, sizeof line, stdin) && ne < 128) {
                char nm[96], s1[128], s2[128];
                if (sscanf(line, "%95s", nm) != 1) continue;
                snprintf(s1, sizeof s1, "%s_dispatched", nm);
                snprintf(s2, sizeof s2, "%s_mbinit", nm);
                ptrs[ne] = dlsym(self, s1);
                mbinit[ne] = dlsym(self, s2);
                if (!ptrs[ne] || !mbinit[ne]) { printf("NOSYM %s\n", nm); continue; }
                strcpy(names[ne], nm);
                ne++;
        }
        dl_iterate_phdr(phdr_cb, NULL);
        if (!rw_lo) { printf("NOMAP\n"); return 2; }
        {
                void *lib = dlopen("libisalverif.so", RTLD_NOW | RTLD_NOLOAD);
                if (lib) {
                        so_cpuid_on = dlsym(lib, "verif_cpuid_on"); so_cpuid_tab = dlsym(lib, "verif_cpuid_tab");
                        hook_ctr[0] = (uintptr_t) dlsym(lib, "verif_cpuid_calls"); hook_ctr[1] = (uintptr_t) dlsym(lib, "verif_xgetbv_calls");
                        hook_ctr[2] = (uintptr_t) dlsym(lib, "verif_cpuid_badleaf"); hook_ctr[3] = (uintptr_t) dlsym(lib, "verif_xgetbv_ud");
                }
                if (!so_cpuid_on || !so_cpuid_tab || (uintptr_t) so_cpuid_on < rw_lo || (uintptr_t) so_cpuid_on >= rw_hi) { printf("NOHOOK\n"); return 2; }
        }
        for (int i = 0; i < ne; i++)
                printf("PTR %s %lx mod64=%lu unbound=%d\n", names[i], (unsigned long) ((uintptr_t) ptrs[i] - so_base),
                       (unsigned long) ((uintptr_t) ptrs[i] % 64), *ptrs[i] == mbinit[i]);
        struct sigaction sa;
        memset(&sa, 0, sizeof sa);
        sa.sa_sigaction = on_fault;
        sa.sa_flags = SA_SIGINFO;
        sigaction(SIGSEGV, &sa, NULL);
        sigaction(SIGBUS, &sa, NULL);
        sigaction(SIGTRAP, &sa, NULL);

        n_entries = ne;
        if (argc > 7 && !strcmp(argv[5], "sweep")) return sweep(argv[6], argv[7], ne, seed);

        /* ---------------- phase A, once per implementation family (virtual CPUID presets of the hook
           build: the real dispatchers bind the family; a static written by one family only must
           show up when that family runs) */
        int fips = isal_self_tests();      /* 0 in a FIPS build: verdict published before protection */
        struct job *jobs = calloc((size_t) nth, sizeof *jobs), *ref = calloc((size_t) nth, sizeof *ref);
        for (int t = 0; t < nth; t++) {
                jobs[t].res = calloc((size_t) nops, 8);
                ref[t].res = calloc((size_t) nops, 8);
        }
        uint8_t *bindbuf;
        if (posix_memalign((void **) &bindbuf, 64, BUFSZ + 64)) return 2;
        static const char *presets[] = { "host", "base", "sse", "avx", "avx2", "avx512", "avx512g2", "sse_ni", "avx512_ni" };
        for (int pi = 0; pi < 9; pi++) {
                if (so_preset(presets[pi])) continue;
                cur_family = presets[pi];
                for (int i = 0; i < ne; i++) *ptrs[i] = mbinit[i];
                for (int t = 0; t < nth; t++) {
                        jobs[t].seed = ref[t].seed = seed * 1000003 + (uint64_t) t * 7919 + (uint64_t) pi * 104729;
                        jobs[t].nops = ref[t].nops = nops;
                        jobs[t].rotate = ref[t].rotate = -1;
                        run_job(&ref[t]);            /* sequential reference (binds what the mix uses) */
                }
                /* every variant of every operation kind once: every entry the mix can reach is bound */
                int nbound = bind_all(bindbuf, seed);
                if (nbound != ne) report_unbound("mix");
                for (int i = 0; i < ne; i++) bound[i] = *ptrs[i];
                if (protect(1)) return 2;
                run_parallel(jobs, nth);
                if (protect(0)) return 2;
                long diff = 0;
                for (int t = 0; t < nth; t++)
                        for (int i = 0; i < nops; i++) diff += jobs[t].res[i] != ref[t].res[i];
                const char *sample = "?";
                for (int i = 0; i < ne; i++)
                        if (!strcmp(names[i], "_sha256_ctx_mgr_submit")) {
                                Dl_info di;
                                if (dladdr(*ptrs[i], &di) && di.dli_sname) sample = di.dli_sname;
                        }
                printf("A family=%s threads=%d ops=%d protected_bytes=%lu entries=%d bound=%d fips_ret=%d result_mismatches=%ld late_binds=%d sha256_submit=%s\n", presets[pi], nth, nops,
                       (unsigned long) (rw_hi - rw_lo), ne, nbound, fips, diff, atomic_load(&late_binds), sample);
                fflush(stdout);
        }
        so_preset("host");
        cur_family = "host(race)";
        for (int i = 0; i < ne; i++) *ptrs[i] = mbinit[i];
        if (bind_all(bindbuf, seed) != ne) report_unbound("race reference");
        for (int i = 0; i < ne; i++) bound[i] = *ptrs[i];

        /* ---------------- phase B */
        int nb = 16;
        struct job bj[16], br[16];
        long bdiff = 0, unbound_after = 0, wrong_target = 0, selfbad = 0;
        for (int t = 0; t < nb; t++) {
                bj[t].nops = br[t].nops = NOPS;
                bj[t].res = calloc(NOPS, 8);
                br[t].res = calloc(NOPS, 8);
        }
        for (int r = 0; r < rounds; r++) {
                for (int t = 0; t < nb; t++) {
                        /* every thread starts with a different operation kind, so that the first calls
                           of all entries race among the threads within a round */
                        bj[t].seed = br[t].seed = seed * 31 + (uint64_t) r * 1009 + (uint64_t) t;
                        bj[t].rotate = br[t].rotate = (t + r) % NOPS;
                        run_job(&br[t]);
                }
                for (int i = 0; i < ne; i++) *ptrs[i] = mbinit[i];
                run_parallel(bj, nb);
                for (int t = 0; t < nb; t++)
                        for (int i = 0; i < NOPS; i++) bdiff += bj[t].res[i] != br[t].res[i];
                for (int i = 0; i < ne; i++) {
                        if (bound[i] == mbinit[i]) continue;      /* never used by the mix */
                        if (*ptrs[i] == mbinit[i]) unbound_after++;
                        else if (*ptrs[i] != bound[i]) wrong_target++;
                }
        }
        printf("B rounds=%d threads=%d result_mismatches=%ld unbound_after_round=%ld bound_to_other_target=%ld\n", rounds, nb, bdiff,
               unbound_after, wrong_target);
        return 0;
}
