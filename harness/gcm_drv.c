/* native driver for C02 / C07 (AES-GCM): every family entry point directly
   (_aes_gcm_*_{sse,avx_gen2,avx_gen4,vaes_avx512}[_nt]), the public isal_aes_gcm_* entry
   points through the real dispatcher under a virtual CPUID preset ("d:<preset>"), and the
   legacy aes_gcm_* names ("l:<preset>").

   case:  G <id> <fam> <enc 1|0> <nt 1|0> <key> <iv> <aad> <taglen> <data> <place> <mode> [seglens..]
          place = inplace,end,a_in,a_out,a_aad   (end=1: buffers flush against the following
                  PROT_NONE page; end=0: buffer starts a_x bytes after the start of a page
                  whose predecessor is PROT_NONE)
          mode  = o (one-shot) | s l1 l2 ... (init, one update per length, finalize)
          Z <id> <fam> <enc> <key> <iv> <aadlen> <taglen> <data>   one-shot, AAD = aadlen zero bytes
   out:   <id> out=<hex> tag=<hex> ctx=<88 bytes hex>[,...] [flags]
          one-shot: ctx after the call; streaming: after init, after every update, after finalize
          flags: rc=<n> (public API error), rt=bad (decrypting the produced ciphertext with the
          same implementation did not give back the input / the tag), canary, inputmod, fault@<what>
   The driver observes; it does not decide. */
#include "common.h"
#include <setjmp.h>
#include <signal.h>
#include "aes_gcm.h"
#include "aes_keyexp.h"
#include "isal_crypto_api.h"

typedef struct isal_gcm_key_data KD;
typedef struct isal_gcm_context_data CTX;
typedef void (*oneshot_fn)(const KD *, CTX *, uint8_t *, const uint8_t *, uint64_t, uint8_t *, const uint8_t *, uint64_t,
                           uint8_t *, uint64_t);
typedef void (*init_fn)(const KD *, CTX *, uint8_t *, const uint8_t *, uint64_t);
typedef void (*update_fn)(const KD *, CTX *, uint8_t *, const uint8_t *, uint64_t);
typedef void (*final_fn)(const KD *, CTX *, uint8_t *, uint64_t);
typedef void (*precomp_fn)(KD *);

#define DECL_FAM(f)                                                                                                    \
        extern void _aes_gcm_precomp_128_##f(KD *), _aes_gcm_precomp_256_##f(KD *);                                   \
        extern void _aes_gcm_init_128_##f(), _aes_gcm_init_256_##f();                                                  \
        extern void _aes_gcm_enc_128_##f(), _aes_gcm_enc_256_##f(), _aes_gcm_dec_128_##f(), _aes_gcm_dec_256_##f();    \
        extern void _aes_gcm_enc_128_##f##_nt(), _aes_gcm_enc_256_##f##_nt(), _aes_gcm_dec_128_##f##_nt(),             \
                _aes_gcm_dec_256_##f##_nt();                                                                           \
        extern void _aes_gcm_enc_128_update_##f(), _aes_gcm_enc_256_update_##f(), _aes_gcm_dec_128_update_##f(),       \
                _aes_gcm_dec_256_update_##f();                                                                         \
        extern void _aes_gcm_enc_128_update_##f##_nt(), _aes_gcm_enc_256_update_##f##_nt(),                            \
                _aes_gcm_dec_128_update_##f##_nt(), _aes_gcm_dec_256_update_##f##_nt();                                \
        extern void _aes_gcm_enc_128_finalize_##f(), _aes_gcm_enc_256_finalize_##f(), _aes_gcm_dec_128_finalize_##f(), \
                _aes_gcm_dec_256_finalize_##f();
DECL_FAM(sse)
DECL_FAM(avx_gen2)
DECL_FAM(avx_gen4)
DECL_FAM(vaes_avx512)

/* one implementation = the set of entry points of one family; index [k256][enc][nt] */
struct impl {
        const char *name;
        precomp_fn precomp[2];
        init_fn init[2];
        oneshot_fn oneshot[2][2][2];
        update_fn update[2][2][2];
        final_fn final[2][2];
};
#define FAM(f)                                                                                                         \
        { #f,                                                                                                          \
          { _aes_gcm_precomp_128_##f, _aes_gcm_precomp_256_##f },                                                      \
          { (init_fn) _aes_gcm_init_128_##f, (init_fn) _aes_gcm_init_256_##f },                                        \
          { { { (oneshot_fn) _aes_gcm_dec_128_##f, (oneshot_fn) _aes_gcm_dec_128_##f##_nt },                            \
              { (oneshot_fn) _aes_gcm_enc_128_##f, (oneshot_fn) _aes_gcm_enc_128_##f##_nt } },                          \
            { { (oneshot_fn) _aes_gcm_dec_256_##f, (oneshot_fn) _aes_gcm_dec_256_##f##_nt },                            \
              { (oneshot_fn) _aes_gcm_enc_256_##f, (oneshot_fn) _aes_gcm_enc_256_##f##_nt } } },                        \
          { { { (update_fn) _aes_gcm_dec_128_update_##f, (update_fn) _aes_gcm_dec_128_update_##f##_nt },                \
              { (update_fn) _aes_gcm_enc_128_update_##f, (update_fn) _aes_gcm_enc_128_update_##f##_nt } },              \
            { { (update_fn) _aes_gcm_dec_256_update_##f, (update_fn) _aes_gcm_dec_256_update_##f##_nt },                \
              { (update_fn) _aes_gcm_enc_256_update_##f, (update_fn) _aes_gcm_enc_256_update_##f##_nt } } },            \
          { { (final_fn) _aes_gcm_dec_128_finalize_##f, (final_fn) _aes_gcm_enc_128_finalize_##f },                     \
            { (final_fn) _aes_gcm_dec_256_finalize_##f, (final_fn) _aes_gcm_enc_256_finalize_##f } } }
static const struct impl fams[] = { FAM(sse), FAM(avx_gen2), FAM(avx_gen4), FAM(vaes_avx512) };
#define NFAM (sizeof fams / sizeof fams[0])

/* the dispatcher's bindings (hook build exports them): re-armed before every dispatched case */
#define DISP(X)                                                                                                        \
        X(_aes_gcm_precomp_128) X(_aes_gcm_precomp_256) X(_aes_gcm_init_128) X(_aes_gcm_init_256)                      \
        X(_aes_gcm_enc_128) X(_aes_gcm_enc_256) X(_aes_gcm_dec_128) X(_aes_gcm_dec_256)                                \
        X(_aes_gcm_enc_128_nt) X(_aes_gcm_enc_256_nt) X(_aes_gcm_dec_128_nt) X(_aes_gcm_dec_256_nt)                    \
        X(_aes_gcm_enc_128_update) X(_aes_gcm_enc_256_update) X(_aes_gcm_dec_128_update) X(_aes_gcm_dec_256_update)    \
        X(_aes_gcm_enc_128_update_nt) X(_aes_gcm_enc_256_update_nt) X(_aes_gcm_dec_128_update_nt)                      \
        X(_aes_gcm_dec_256_update_nt) X(_aes_gcm_enc_128_finalize) X(_aes_gcm_enc_256_finalize)                        \
        X(_aes_gcm_dec_128_finalize) X(_aes_gcm_dec_256_finalize)
#define X(n) extern void *n##_dispatched; extern char n##_mbinit[];
DISP(X)
#undef X
static void
rearm(void)
{
#define X(n) n##_dispatched = n##_mbinit;
        DISP(X)
#undef X
}

static sigjmp_buf jb;
static volatile const char *phase = "?";
static void
on_segv(int sig, siginfo_t *si, void *u)
{
        siglongjmp(jb, 1);
}

/* guard-page buffers with canaries */
struct gbuf { uint8_t *p, *body; size_t n, blen; };
#define NGB 600
static struct gbuf gbs[NGB];
static int ngb;
static uint8_t *
galloc(size_t n, int at_end, size_t off)
{
        if (arena_n >= ARENA_MAX - 2 || ngb >= NGB) { fprintf(stderr, "too many buffers\n"); exit(2); }
        uint8_t *p = guard_alloc(n, at_end, off);
        size_t pg = 4096, blen = (n + off + pg - 1) / pg * pg;
        if (blen == 0) blen = pg;
        struct gbuf *g = &gbs[ngb++];
        g->p = p; g->n = n; g->blen = blen;
        g->body = at_end ? p + n + off - blen : p - off;
        return p;
}
static int
canaries_ok(void)
{
        for (int i = 0; i < ngb; i++) {
                struct gbuf *g = &gbs[i];
                for (uint8_t *q = g->body; q < g->p; q++) if (*q != 0xA5) return 0;
                for (uint8_t *q = g->p + g->n; q < g->body + g->blen; q++) if (*q != 0xA5) return 0;
        }
        return 1;
}
static void
greset(void)
{
        arena_reset();
        ngb = 0;
}

static void
put_ctx(const CTX *c, int first)
{
        if (!first) putchar(',');
        puthex(stdout, (const uint8_t *) c, sizeof *c);
}

/* the calls of one API flavour: 0 = family symbols, 1 = isal_ (dispatched), 2 = legacy (dispatched) */
struct api { int kind; const struct impl *f; int k256; int rc; };

static void
do_pre(struct api *a, const uint8_t *key, KD *kd)
{
        if (a->kind == 0) {
                uint8_t dec_keys[16 * 15];
                if (a->k256) isal_aes_keyexp_256(key, kd->expanded_keys, dec_keys);
                else isal_aes_keyexp_128(key, kd->expanded_keys, dec_keys);
                a->f->precomp[a->k256](kd);
        } else if (a->kind == 1) {
                a->rc |= a->k256 ? isal_aes_gcm_pre_256(key, kd) : isal_aes_gcm_pre_128(key, kd);
        } else {
                if (a->k256) aes_gcm_pre_256(key, kd); else aes_gcm_pre_128(key, kd);
        }
}
extern void verif_poison_vregs(void);      /* harness/poison.S: junk in every caller-saved vector register */

static void
do_oneshot(struct api *a, int enc, int nt, const KD *kd, CTX *c, uint8_t *out, const uint8_t *in, uint64_t len,
           uint8_t *iv, const uint8_t *aad, uint64_t alen, uint8_t *tag, uint64_t tl)
{
        if (a->kind == 0) { verif_poison_vregs(); a->f->oneshot[a->k256][enc][nt](kd, c, out, in, len, iv, aad, alen, tag, tl); return; }
        if (a->kind == 1) {
                int (*fn[2][2][2])(const KD *, CTX *, uint8_t *, const uint8_t *, uint64_t, const uint8_t *, const uint8_t *,
                                   uint64_t, uint8_t *, uint64_t) = {
                        { { isal_aes_gcm_dec_128, isal_aes_gcm_dec_128_nt }, { isal_aes_gcm_enc_128, isal_aes_gcm_enc_128_nt } },
                        { { isal_aes_gcm_dec_256, isal_aes_gcm_dec_256_nt }, { isal_aes_gcm_enc_256, isal_aes_gcm_enc_256_nt } } };
                verif_poison_vregs();
                a->rc |= fn[a->k256][enc][nt](kd, c, out, in, len, iv, aad, alen, tag, tl);
                return;
        }
        void (*fn[2][2][2])(const KD *, CTX *, uint8_t *, uint8_t const *, uint64_t, uint8_t *, uint8_t const *, uint64_t,
                            uint8_t *, uint64_t) = {
                { { aes_gcm_dec_128, aes_gcm_dec_128_nt }, { aes_gcm_enc_128, aes_gcm_enc_128_nt } },
                { { aes_gcm_dec_256, aes_gcm_dec_256_nt }, { aes_gcm_enc_256, aes_gcm_enc_256_nt } } };
        verif_poison_vregs();
        fn[a->k256][enc][nt](kd, c, out, in, len, iv, aad, alen, tag, tl);
}
static void
do_init(struct api *a, const KD *kd, CTX *c, uint8_t *iv, const uint8_t *aad, uint64_t alen)
{
        verif_poison_vregs();
        if (a->kind == 0) a->f->init[a->k256](kd, c, iv, aad, alen);
        else if (a->kind == 1) a->rc |= a->k256 ? isal_aes_gcm_init_256(kd, c, iv, aad, alen) : isal_aes_gcm_init_128(kd, c, iv, aad, alen);
        else if (a->k256) aes_gcm_init_256(kd, c, iv, aad, alen);
        else aes_gcm_init_128(kd, c, iv, aad, alen);
}
static void
do_update(struct api *a, int enc, int nt, const KD *kd, CTX *c, uint8_t *out, const uint8_t *in, uint64_t len)
{
        if (a->kind == 0) { verif_poison_vregs(); a->f->update[a->k256][enc][nt](kd, c, out, in, len); return; }
        if (a->kind == 1) {
                int (*fn[2][2][2])(const KD *, CTX *, uint8_t *, const uint8_t *, uint64_t) = {
                        { { isal_aes_gcm_dec_128_update, isal_aes_gcm_dec_128_update_nt },
                          { isal_aes_gcm_enc_128_update, isal_aes_gcm_enc_128_update_nt } },
                        { { isal_aes_gcm_dec_256_update, isal_aes_gcm_dec_256_update_nt },
                          { isal_aes_gcm_enc_256_update, isal_aes_gcm_enc_256_update_nt } } };
                verif_poison_vregs();
                a->rc |= fn[a->k256][enc][nt](kd, c, out, in, len);
                return;
        }
        void (*fn[2][2][2])(const KD *, CTX *, uint8_t *, const uint8_t *, uint64_t) = {
                { { aes_gcm_dec_128_update, aes_gcm_dec_128_update_nt }, { aes_gcm_enc_128_update, aes_gcm_enc_128_update_nt } },
                { { aes_gcm_dec_256_update, aes_gcm_dec_256_update_nt }, { aes_gcm_enc_256_update, aes_gcm_enc_256_update_nt } } };
        verif_poison_vregs();
        fn[a->k256][enc][nt](kd, c, out, in, len);
}
static void
do_final(struct api *a, int enc, const KD *kd, CTX *c, uint8_t *tag, uint64_t tl)
{
        if (a->kind == 0) { verif_poison_vregs(); a->f->final[a->k256][enc](kd, c, tag, tl); return; }
        if (a->kind == 1) {
                int (*fn[2][2])(const KD *, CTX *, uint8_t *, uint64_t) = {
                        { isal_aes_gcm_dec_128_finalize, isal_aes_gcm_enc_128_finalize },
                        { isal_aes_gcm_dec_256_finalize, isal_aes_gcm_enc_256_finalize } };
                verif_poison_vregs();
                a->rc |= fn[a->k256][enc](kd, c, tag, tl);
                return;
        }
        void (*fn[2][2])(const KD *, CTX *, uint8_t *, uint64_t) = {
                { aes_gcm_dec_128_finalize, aes_gcm_enc_128_finalize }, { aes_gcm_dec_256_finalize, aes_gcm_enc_256_finalize } };
        verif_poison_vregs();
        fn[a->k256][enc](kd, c, tag, tl);
}

static const char *
bound_name(void *p)
{
        for (size_t i = 0; i < NFAM; i++)
                for (int k = 0; k < 2; k++) {
                        if (p == (void *) fams[i].oneshot[k][1][0] || p == (void *) fams[i].oneshot[k][0][0] ||
                            p == (void *) fams[i].oneshot[k][1][1] || p == (void *) fams[i].oneshot[k][0][1] ||
                            p == (void *) fams[i].update[k][1][0] || p == (void *) fams[i].update[k][0][0] ||
                            p == (void *) fams[i].update[k][1][1] || p == (void *) fams[i].update[k][0][1] ||
                            p == (void *) fams[i].init[k] || p == (void *) fams[i].final[k][0] ||
                            p == (void *) fams[i].final[k][1] || p == (void *) fams[i].precomp[k])
                                return fams[i].name;
                }
        return "unbound";
}

static char line[1 << 20];
static uint8_t key[32], iv[64], aadb[1 << 16], datab[1 << 18];
#define MAXSEG 4096

int
main(int argc, char **argv)
{
        struct sigaction sa;
        memset(&sa, 0, sizeof sa);
        sa.sa_sigaction = on_segv;
        sa.sa_flags = SA_SIGINFO | SA_NODEFER;
        sigaction(SIGSEGV, &sa, NULL);
        sigaction(SIGBUS, &sa, NULL);
        static char *tok[MAXSEG + 32];

        while (fgets(line, sizeof line, stdin)) {
                int nt_ = 0;
                for (char *p = strtok(line, " \n"); p && nt_ < MAXSEG + 32; p = strtok(NULL, " \n")) tok[nt_++] = p;
                if (nt_ < 9) continue;
                int zcase = !strcmp(tok[0], "Z");
                if (strcmp(tok[0], "G") && !zcase) continue;
                const char *id = tok[1], *fam = tok[2];
                int enc = atoi(tok[3]);
                int nt = zcase ? 0 : atoi(tok[4]);
                int b = zcase ? 4 : 5;
                size_t klen = unhex(tok[b], key, sizeof key);
                size_t ivlen = unhex(tok[b + 1], iv, sizeof iv);
                size_t alen;
                uint8_t *aad;
                if (zcase) {
                        alen = strtoull(tok[b + 2], NULL, 16);
                        aad = mmap(NULL, alen + 4096, PROT_READ, MAP_PRIVATE | MAP_ANONYMOUS | MAP_NORESERVE, -1, 0);
                        if (aad == MAP_FAILED) { printf("%s nomem\n", id); continue; }
                } else {
                        alen = unhex(tok[b + 2], aadb, sizeof aadb);
                        aad = NULL;
                }
                uint64_t tl = strtoull(tok[b + 3], NULL, 10);
                size_t len = unhex(tok[b + 4], datab, sizeof datab);
                int inplace = 0, at_end = 1, a_in = 0, a_out = 0, a_aad = 0, stream = 0, nseg = 0;
                size_t seg[MAXSEG];
                if (!zcase) {
                        sscanf(tok[b + 5], "%d,%d,%d,%d,%d", &inplace, &at_end, &a_in, &a_out, &a_aad);
                        stream = tok[b + 6][0] == 's';
                        for (int i = b + 7; i < nt_ && nseg < MAXSEG; i++) seg[nseg++] = strtoull(tok[i], NULL, 10);
                }
                printf("%s", id);
                struct api a = { 0, NULL, klen == 32, 0 };
                if (fam[0] == 'd' || fam[0] == 'l') {
                        a.kind = fam[0] == 'd' ? 1 : 2;
                        if (fam[1] != ':' || vcpu_preset(fam + 2)) { printf(" badfamily\n"); continue; }
                        rearm();
                } else {
                        verif_cpuid_on = 0;
                        for (size_t i = 0; i < NFAM; i++) if (!strcmp(fams[i].name, fam)) a.f = &fams[i];
                        if (!a.f) { printf(" badfamily\n"); continue; }
                }
                if (klen != 16 && klen != 32) { printf(" badkey\n"); continue; }
                phase = "setup";
                if (sigsetjmp(jb, 1)) {
                        printf(" fault@%s\n", phase);
                        greset();
                        if (zcase) munmap(aad, alen + 4096);
                        continue;
                }
                KD *kd = (KD *) galloc(sizeof(KD), 0, 0);
                CTX *ctx = (CTX *) galloc(sizeof(CTX), 1, 0);
                memset(ctx, 0xEE, sizeof *ctx);
                uint8_t *ivp = galloc(12, 1, 0);
                memcpy(ivp, iv, 12);
                (void) ivlen;
                uint8_t *tag = galloc(tl, 1, 0);
                if (!zcase) {
                        aad = galloc(alen, at_end, at_end ? 0 : a_aad);
                        memcpy(aad, aadb, alen);
                }
                phase = "pre";
                do_pre(&a, key, kd);
                int ntp = nt;
                if (!stream) {
                        uint8_t *in = galloc(len, at_end, at_end ? 0 : a_in);
                        memcpy(in, datab, len);
                        uint8_t *out = inplace ? in : galloc(len, at_end, at_end ? 0 : a_out);
                        phase = "oneshot";
                        do_oneshot(&a, enc, ntp, kd, ctx, out, in, len, ivp, aad, alen, tag, tl);
                        printf(" out=");
                        puthex(stdout, out, len);
                        printf(" tag=");
                        puthex(stdout, tag, tl);
                        printf(" ctx=");
                        put_ctx(ctx, 1);
                        if (!inplace && memcmp(in, datab, len)) printf(" inputmod");
                        if (enc && !zcase) {
                                /* decrypt what was produced, same implementation, out of place */
                                uint8_t *cin = galloc(len, 1, 0), *pout = galloc(len, 1, 0), *tag2 = galloc(tl, 1, 0);
                                memcpy(cin, out, len);
                                phase = "roundtrip";
                                do_oneshot(&a, 0, 0, kd, ctx, pout, cin, len, ivp, aad, alen, tag2, tl);
                                if (memcmp(pout, datab, len) || memcmp(tag, tag2, tl)) printf(" rt=bad");
                        }
                } else {
                        static uint8_t outacc[1 << 18];
                        size_t pos = 0;
                        phase = "init";
                        do_init(&a, kd, ctx, ivp, aad, alen);
                        printf(" ctx=");
                        put_ctx(ctx, 1);
                        int bad = 0;
                        for (int s = 0; s < nseg; s++) {
                                size_t n = seg[s];
                                int mark_a = arena_n, mark_g = ngb;
                                if (pos + n > len) { bad = 1; break; }
                                uint8_t *in = galloc(n, at_end, at_end ? 0 : a_in);
                                memcpy(in, datab + pos, n);
                                uint8_t *out = inplace ? in : galloc(n, at_end, at_end ? 0 : a_out);
                                phase = "update";
                                do_update(&a, enc, ntp, kd, ctx, out, in, n);
                                if (!inplace && memcmp(in, datab + pos, n)) bad = 2;
                                memcpy(outacc + pos, out, n);
                                pos += n;
                                put_ctx(ctx, 0);
                                /* the buffers of this segment: check their canaries, then release them */
                                if (!canaries_ok()) bad = 3;
                                while (arena_n > mark_a) { arena_n--; munmap(arena_maps[arena_n].base, arena_maps[arena_n].len); }
                                ngb = mark_g;
                        }
                        phase = "finalize";
                        do_final(&a, enc, kd, ctx, tag, tl);
                        put_ctx(ctx, 0);
                        printf(" out=");
                        puthex(stdout, outacc, pos);
                        printf(" tag=");
                        puthex(stdout, tag, tl);
                        if (bad == 1 || pos != len) printf(" badsegs");
                        if (bad == 2) printf(" inputmod");
                        if (bad == 3) printf(" canary");
                }
                if (!zcase && memcmp(aad, aadb, alen)) printf(" inputmod");
                if (memcmp(ivp, iv, 12)) printf(" inputmod");
                if (!canaries_ok()) printf(" canary");
                if (a.rc) printf(" rc=%d", a.rc);
                printf("\n");
                if (a.kind) {
                        void *p = stream ? (enc ? (a.k256 ? _aes_gcm_enc_256_update_dispatched : _aes_gcm_enc_128_update_dispatched)
                                                : (a.k256 ? _aes_gcm_dec_256_update_dispatched : _aes_gcm_dec_128_update_dispatched))
                                         : (enc ? (a.k256 ? _aes_gcm_enc_256_dispatched : _aes_gcm_enc_128_dispatched)
                                                : (a.k256 ? _aes_gcm_dec_256_dispatched : _aes_gcm_dec_128_dispatched));
                        if (nt) p = stream ? (enc ? (a.k256 ? _aes_gcm_enc_256_update_nt_dispatched : _aes_gcm_enc_128_update_nt_dispatched)
                                                  : (a.k256 ? _aes_gcm_dec_256_update_nt_dispatched : _aes_gcm_dec_128_update_nt_dispatched))
                                           : (enc ? (a.k256 ? _aes_gcm_enc_256_nt_dispatched : _aes_gcm_enc_128_nt_dispatched)
                                                  : (a.k256 ? _aes_gcm_dec_256_nt_dispatched : _aes_gcm_dec_128_nt_dispatched));
                        fprintf(stderr, "%s bound=%s pre=%s\n", fam + 2, bound_name(p),
                                bound_name(a.k256 ? _aes_gcm_precomp_256_dispatched : _aes_gcm_precomp_128_dispatched));
                }
                greset();
                if (zcase) munmap(aad, alen + 4096);
        }
        return 0;
}
