/* Shared helpers for the native drivers: hex I/O, guard-page arena, virtual CPUID presets. */
#ifndef VERIF_COMMON_H
#define VERIF_COMMON_H
#include <stdint.h>
#include <stdio.h>
#include <stdlib.h>
#include <string.h>
#include <sys/mman.h>
#include <unistd.h>

extern uint32_t verif_cpuid_on, verif_cpuid_tab[10], verif_cpuid_calls, verif_xgetbv_calls,
        verif_cpuid_badleaf, verif_xgetbv_ud;

/* feature presets for family selection through the real dispatchers */
#define C1_SSE41 (1u << 19)
#define C1_SSE42 (1u << 20)
#define C1_OSXSAVE (1u << 27)
#define C1_AVX (1u << 28)
#define C1_AES (1u << 25)
#define C1_PCLMUL (1u << 1)
#define C7B_AVX2 (1u << 5)
#define C7B_AVX512F (1u << 16)
#define C7B_AVX512DQ (1u << 17)
#define C7B_AVX512IFMA (1u << 21)
#define C7B_SHA (1u << 29)
#define C7B_AVX512CD (1u << 28)
#define C7B_AVX512BW (1u << 30)
#define C7B_AVX512VL (1u << 31)
#define C7C_VBMI2 (1u << 6)
#define C7C_GFNI (1u << 8)
#define C7C_VAES (1u << 9)
#define C7C_VPCLMULQDQ (1u << 10)
#define C7C_VNNI (1u << 11)
#define C7C_BITALG (1u << 12)
#define C7C_VPOPCNTDQ (1u << 14)

static inline void
vcpu_set(uint32_t l1c, uint32_t l7b, uint32_t l7c, uint32_t xcr0, uint32_t l1a)
{
        memset(verif_cpuid_tab, 0, sizeof(uint32_t) * 10);
        verif_cpuid_tab[0] = l1a;
        verif_cpuid_tab[2] = l1c;
        verif_cpuid_tab[5] = l7b;
        verif_cpuid_tab[6] = l7c;
        verif_cpuid_tab[8] = xcr0;
        verif_cpuid_on = 1;
}

/* level: 0 base(no sse4.1) 1 sse 2 avx 3 avx2 4 avx512(G1) 5 avx512 G1+G2 6 sse+sha 7 avx512+sha */
static inline int
vcpu_preset(const char *name)
{
        uint32_t sse = C1_SSE41 | C1_SSE42 | C1_AES | C1_PCLMUL, avx = sse | C1_AVX | C1_OSXSAVE;
        uint32_t g1 = C7B_AVX512F | C7B_AVX512DQ | C7B_AVX512CD | C7B_AVX512BW | C7B_AVX512VL;
        uint32_t g2 = C7C_VBMI2 | C7C_GFNI | C7C_VAES | C7C_VPCLMULQDQ | C7C_VNNI | C7C_BITALG | C7C_VPOPCNTDQ;
        if (!strcmp(name, "base")) vcpu_set(0, 0, 0, 0, 0);
        else if (!strcmp(name, "sse")) vcpu_set(sse, 0, 0, 0, 0);
        else if (!strcmp(name, "avx")) vcpu_set(avx, 0, 0, 6, 0);
        else if (!strcmp(name, "avx2")) vcpu_set(avx, C7B_AVX2, 0, 6, 0);
        else if (!strcmp(name, "avx512")) vcpu_set(avx, C7B_AVX2 | g1, 0, 0xe6, 0);
        else if (!strcmp(name, "avx512g2")) vcpu_set(avx, C7B_AVX2 | g1 | C7B_AVX512IFMA, g2, 0xe6, 0);
        else if (!strcmp(name, "sse_ni")) vcpu_set(sse, C7B_SHA, 0, 0, 0);
        else if (!strcmp(name, "avx512_ni")) vcpu_set(avx, C7B_AVX2 | g1 | C7B_SHA, 0, 0xe6, 0);
        else if (!strcmp(name, "host")) { verif_cpuid_on = 0; }
        else return -1;
        return 0;
}

static inline int
hexval(int c)
{
        if (c >= '0' && c <= '9') return c - '0';
        if (c >= 'a' && c <= 'f') return c - 'a' + 10;
        if (c >= 'A' && c <= 'F') return c - 'A' + 10;
        return -1;
}

/* parse hex string ("-" = empty) into buf; returns length */
static inline size_t
unhex(const char *s, uint8_t *buf, size_t cap)
{
        size_t n = 0;
        if (s[0] == '-') return 0;
        while (s[0] && s[1] && hexval(s[0]) >= 0) {
                if (n >= cap) { fprintf(stderr, "unhex overflow\n"); exit(2); }
                buf[n++] = (uint8_t) (hexval(s[0]) * 16 + hexval(s[1]));
                s += 2;
        }
        return n;
}

static inline void
puthex(FILE *f, const uint8_t *p, size_t n)
{
        static const char d[] = "0123456789abcdef";
        if (n == 0) { fputc('-', f); return; }
        for (size_t i = 0; i < n; i++) { fputc(d[p[i] >> 4], f); fputc(d[p[i] & 15], f); }
}

/* guard-page arena: a buffer of n bytes whose end is flush against a PROT_NONE page
   (end=1) or whose start is right after one (end=0); `mis` shifts it away from the guard
   only for end=0 alignment experiments.  Never freed piecemeal; arena_reset() frees all. */
#define ARENA_MAX 256
static struct { void *base; size_t len; } arena_maps[ARENA_MAX];
static int arena_n;

static inline uint8_t *
guard_alloc(size_t n, int at_end, size_t align_off)
{
        size_t pg = 4096, body = (n + align_off + pg - 1) / pg * pg;
        if (body == 0) body = pg;
        uint8_t *m = mmap(NULL, body + 2 * pg, PROT_READ | PROT_WRITE, MAP_PRIVATE | MAP_ANONYMOUS, -1, 0);
        if (m == MAP_FAILED) { perror("mmap"); exit(2); }
        mprotect(m, pg, PROT_NONE);
        mprotect(m + pg + body, pg, PROT_NONE);
        if (arena_n < ARENA_MAX) { arena_maps[arena_n].base = m; arena_maps[arena_n].len = body + 2 * pg; arena_n++; }
        else { fprintf(stderr, "arena full\n"); exit(2); }
        memset(m + pg, 0xA5, body);
        return at_end ? m + pg + body - n - align_off : m + pg + align_off;
}

static inline void
arena_reset(void)
{
        for (int i = 0; i < arena_n; i++) munmap(arena_maps[i].base, arena_maps[i].len);
        arena_n = 0;
}
#endif
