/* prints sizeof/offsetof of every structure checks/tramp.py and checks/c20.py poke, computed by
   the compiler from /repo's current headers ("name value" per line) */
#include <stdio.h>
#include <stddef.h>
#include "sha1_mb.h"
#include "sha256_mb.h"
#include "sha512_mb.h"
#include "md5_mb.h"
#include "sm3_mb.h"
#include "aes_gcm.h"
#include "aes_cbc.h"
#include "aes_xts.h"
#include "aes_keyexp.h"
#include "mh_sha1.h"
#include "mh_sha256.h"
#include "mh_sha1_murmur3_x64_128.h"
#include "rolling_hashx.h"

#define S(t) printf(#t ".size %zu\n", sizeof(t))
#define O(t, f) printf(#t "." #f " %zu\n", offsetof(t, f))
#define OS(t, f) printf(#t "." #f " %zu\n" #t "." #f ".size %zu\n", offsetof(t, f), sizeof(((t *) 0)->f))
#define HASH(A, a, B)                                                                              \
        S(ISAL_##A##_HASH_CTX_MGR);                                                                \
        S(ISAL_##A##_HASH_CTX);                                                                    \
        S(ISAL_##A##_JOB);                                                                         \
        S(ISAL_##A##_MB_JOB_MGR);                                                                  \
        OS(ISAL_##A##_HASH_CTX, job);                                                              \
        OS(ISAL_##A##_HASH_CTX, status);                                                           \
        OS(ISAL_##A##_HASH_CTX, error);                                                            \
        OS(ISAL_##A##_HASH_CTX, total_length);                                                     \
        OS(ISAL_##A##_HASH_CTX, incoming_buffer);                                                  \
        OS(ISAL_##A##_HASH_CTX, incoming_buffer_length);                                           \
        OS(ISAL_##A##_HASH_CTX, partial_block_buffer);                                             \
        OS(ISAL_##A##_HASH_CTX, partial_block_buffer_length);                                      \
        OS(ISAL_##A##_HASH_CTX, user_data);                                                        \
        OS(ISAL_##A##_JOB, buffer);                                                                \
        OS(ISAL_##A##_JOB, len);                                                                   \
        OS(ISAL_##A##_JOB, result_digest);                                                         \
        OS(ISAL_##A##_JOB, status);                                                                \
        OS(ISAL_##A##_JOB, user_data);                                                             \
        OS(ISAL_##A##_MB_JOB_MGR, args);                                                           \
        OS(ISAL_##A##_MB_JOB_MGR, args.digest);                                                    \
        OS(ISAL_##A##_MB_JOB_MGR, args.data_ptr);                                                  \
        OS(ISAL_##A##_MB_JOB_MGR, lens);                                                           \
        OS(ISAL_##A##_MB_JOB_MGR, unused_lanes);                                                   \
        OS(ISAL_##A##_MB_JOB_MGR, ldata);                                                          \
        OS(ISAL_##A##_MB_JOB_MGR, num_lanes_inuse);                                                \
        printf(#A ".block %d\n" #A ".max_lanes %d\n" #A ".digest_nwords %d\n", B, ISAL_##A##_MAX_LANES, ISAL_##A##_DIGEST_NWORDS)

int
main(void)
{
        HASH(SHA1, sha1, ISAL_SHA1_BLOCK_SIZE);
        HASH(SHA256, sha256, ISAL_SHA256_BLOCK_SIZE);
        HASH(SHA512, sha512, ISAL_SHA512_BLOCK_SIZE);
        HASH(MD5, md5, ISAL_MD5_BLOCK_SIZE);
        HASH(SM3, sm3, ISAL_SM3_BLOCK_SIZE);
        S(struct isal_gcm_key_data);
        OS(struct isal_gcm_key_data, expanded_keys);
        OS(struct isal_gcm_key_data, shifted_hkey_1);
        OS(struct isal_gcm_key_data, shifted_hkey_n_k);
        S(struct isal_gcm_context_data);
        OS(struct isal_gcm_context_data, aad_hash);
        OS(struct isal_gcm_context_data, aad_length);
        OS(struct isal_gcm_context_data, in_length);
        OS(struct isal_gcm_context_data, partial_block_enc_key);
        OS(struct isal_gcm_context_data, orig_IV);
        OS(struct isal_gcm_context_data, current_counter);
        OS(struct isal_gcm_context_data, partial_block_length);
        S(struct isal_cbc_key_data);
        OS(struct isal_cbc_key_data, enc_keys);
        OS(struct isal_cbc_key_data, dec_keys);
        S(struct isal_mh_sha1_ctx);
        OS(struct isal_mh_sha1_ctx, mh_sha1_digest);
        OS(struct isal_mh_sha1_ctx, total_length);
        OS(struct isal_mh_sha1_ctx, partial_block_buffer);
        OS(struct isal_mh_sha1_ctx, mh_sha1_interim_digests);
        OS(struct isal_mh_sha1_ctx, frame_buffer);
        S(struct isal_mh_sha256_ctx);
        OS(struct isal_mh_sha256_ctx, mh_sha256_digest);
        OS(struct isal_mh_sha256_ctx, total_length);
        OS(struct isal_mh_sha256_ctx, partial_block_buffer);
        OS(struct isal_mh_sha256_ctx, mh_sha256_interim_digests);
        OS(struct isal_mh_sha256_ctx, frame_buffer);
        S(struct isal_mh_sha1_murmur3_x64_128_ctx);
        OS(struct isal_mh_sha1_murmur3_x64_128_ctx, mh_sha1_digest);
        OS(struct isal_mh_sha1_murmur3_x64_128_ctx, murmur3_x64_128_digest);
        OS(struct isal_mh_sha1_murmur3_x64_128_ctx, total_length);
        OS(struct isal_mh_sha1_murmur3_x64_128_ctx, partial_block_buffer);
        OS(struct isal_mh_sha1_murmur3_x64_128_ctx, mh_sha1_interim_digests);
        OS(struct isal_mh_sha1_murmur3_x64_128_ctx, frame_buffer);
        S(struct isal_rh_state2);
        OS(struct isal_rh_state2, history);
        OS(struct isal_rh_state2, table1);
        OS(struct isal_rh_state2, table2);
        OS(struct isal_rh_state2, hash);
        OS(struct isal_rh_state2, w);
        return 0;
}
