/* native driver of the ckernels vertical: the REAL compiled C kernels of the freshly built
   library on the case lines ocaml/ckernels_driver.ml also reads.
   _murmur3_x64_128_block / _murmur3_x64_128_tail are linked from the archive.  The static
   <alg>_single block functions are reached through _<alg>_ctx_mgr_submit_base: one UPDATE of
   exactly one block on an idle context with nothing buffered and result_digest preset runs
   <alg>_single(buffer, digest) exactly once (that is the library's object code, not a
   recompilation of the source).
   Output: <id> n=<words> */
#include "common.h"
#include "sha1_mb.h"
#include "sha256_mb.h"
#include "sha512_mb.h"
#include "md5_mb.h"

extern void _murmur3_x64_128_block(const uint8_t *input_data, uint32_t num_blocks, uint32_t digests[4]);
extern void _murmur3_x64_128_tail(const uint8_t *tail_buffer, uint32_t total_len, uint32_t digests[4]);
extern ISAL_SHA256_HASH_CTX *_sha256_ctx_mgr_submit_base(ISAL_SHA256_HASH_CTX_MGR *, ISAL_SHA256_HASH_CTX *, const void *, uint32_t, ISAL_HASH_CTX_FLAG);
extern ISAL_SHA1_HASH_CTX *_sha1_ctx_mgr_submit_base(ISAL_SHA1_HASH_CTX_MGR *, ISAL_SHA1_HASH_CTX *, const void *, uint32_t, ISAL_HASH_CTX_FLAG);
extern ISAL_SHA512_HASH_CTX *_sha512_ctx_mgr_submit_base(ISAL_SHA512_HASH_CTX_MGR *, ISAL_SHA512_HASH_CTX *, const void *, uint32_t, ISAL_HASH_CTX_FLAG);
extern ISAL_MD5_HASH_CTX *_md5_ctx_mgr_submit_base(ISAL_MD5_HASH_CTX_MGR *, ISAL_MD5_HASH_CTX *, const void *, uint32_t, ISAL_HASH_CTX_FLAG);

static int
ck_hexv(int c)
{
        return c <= '9' ? c - '0' : (c | 32) - 'a' + 10;
}

static size_t
ck_unhex(const char *s, uint8_t *out)
{
        if (s[0] == '-')
                return 0;
        size_t n = strlen(s) / 2;
        for (size_t i = 0; i < n; i++)
                out[i] = (uint8_t) (ck_hexv(s[2 * i]) << 4 | ck_hexv(s[2 * i + 1]));
        return n;
}

static char line[1 << 22];
static uint8_t buf[1 << 20];

#define ONE_BLOCK(ALG, CTX, MGR, SUBMIT, NW, WT, FMT, BS)                                           \
        do {                                                                                       \
                static MGR mgr;                                                                    \
                static CTX ctx;                                                                    \
                memset(&ctx, 0x5a, sizeof ctx);                                                    \
                isal_hash_ctx_init(&ctx);                                                          \
                ctx.status = ISAL_HASH_CTX_STS_IDLE;                                               \
                ctx.partial_block_buffer_length = 0;                                               \
                ctx.total_length = 0;                                                              \
                for (int i = 0; i < NW; i++) {                                                     \
                        char w[17] = { 0 };                                                        \
                        memcpy(w, tok[3] + i * (int) sizeof(WT) * 2, sizeof(WT) * 2);              \
                        ctx.job.result_digest[i] = (WT) strtoull(w, NULL, 16);                     \
                }                                                                                  \
                if (ck_unhex(tok[4], buf) != BS) { printf("%s badblock\n", tok[1]); break; }          \
                SUBMIT(&mgr, &ctx, buf, BS, ISAL_HASH_UPDATE);                                     \
                printf("%s n=", tok[1]);                                                           \
                for (int i = 0; i < NW; i++)                                                       \
                        printf(FMT "%s", (unsigned long long) ctx.job.result_digest[i], i + 1 < NW ? "," : "\n"); \
        } while (0)

int
main(void)
{
        while (fgets(line, sizeof line, stdin)) {
                char *tok[8];
                int nt = 0;
                for (char *p = strtok(line, " \n"); p && nt < 8; p = strtok(NULL, " \n"))
                        tok[nt++] = p;
                if (nt < 2)
                        continue;
                if (!strcmp(tok[0], "MB") && nt == 6) {
                        uint64_t h[2] = { strtoull(tok[3], NULL, 16), strtoull(tok[4], NULL, 16) };
                        uint32_t nb = (uint32_t) strtoul(tok[2], NULL, 10);
                        size_t n = ck_unhex(tok[5], buf);
                        if (n != (size_t) nb * 16) { printf("%s badlen\n", tok[1]); continue; }
                        _murmur3_x64_128_block(buf, nb, (uint32_t *) h);
                        printf("%s n=%016llx,%016llx\n", tok[1], (unsigned long long) h[0], (unsigned long long) h[1]);
                } else if (!strcmp(tok[0], "MT") && nt == 6) {
                        uint64_t h[2] = { strtoull(tok[3], NULL, 16), strtoull(tok[4], NULL, 16) };
                        uint32_t tl = (uint32_t) strtoul(tok[2], NULL, 16);
                        ck_unhex(tok[5], buf);
                        _murmur3_x64_128_tail(buf, tl, (uint32_t *) h);
                        printf("%s n=%016llx,%016llx\n", tok[1], (unsigned long long) h[0], (unsigned long long) h[1]);
                } else if (!strcmp(tok[0], "MW") && nt == 4) {
                        uint64_t seed = strtoull(tok[2], NULL, 16);
                        uint64_t h[2] = { seed, seed };
                        size_t n = ck_unhex(tok[3], buf);
                        _murmur3_x64_128_block(buf, (uint32_t) (n / 16), (uint32_t *) h);
                        _murmur3_x64_128_tail(buf + (n / 16) * 16, (uint32_t) n, (uint32_t *) h);
                        printf("%s n=%016llx,%016llx\n", tok[1], (unsigned long long) h[0], (unsigned long long) h[1]);
                } else if (!strcmp(tok[0], "H") && nt == 5) {
                        if (!strcmp(tok[2], "sha256"))
                                ONE_BLOCK(sha256, ISAL_SHA256_HASH_CTX, ISAL_SHA256_HASH_CTX_MGR, _sha256_ctx_mgr_submit_base, 8, uint32_t, "%08llx", 64);
                        else if (!strcmp(tok[2], "sha1"))
                                ONE_BLOCK(sha1, ISAL_SHA1_HASH_CTX, ISAL_SHA1_HASH_CTX_MGR, _sha1_ctx_mgr_submit_base, 5, uint32_t, "%08llx", 64);
                        else if (!strcmp(tok[2], "md5"))
                                ONE_BLOCK(md5, ISAL_MD5_HASH_CTX, ISAL_MD5_HASH_CTX_MGR, _md5_ctx_mgr_submit_base, 4, uint32_t, "%08llx", 64);
                        else if (!strcmp(tok[2], "sha512"))
                                ONE_BLOCK(sha512, ISAL_SHA512_HASH_CTX, ISAL_SHA512_HASH_CTX_MGR, _sha512_ctx_mgr_submit_base, 8, uint64_t, "%016llx", 128);
                        else
                                printf("%s badalg\n", tok[1]);
                } else
                        printf("%s badline\n", tok[1]);
        }
        return 0;
}
