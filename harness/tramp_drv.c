/* Script interpreter around the call_observed trampoline.  Deliberately dumb and untyped:
   the typed knowledge (prototypes, struct layouts, which bytes are API-defined, what the
   secrets of a call are) lives in checks/tramp.py; this program allocates objects, stores
   bytes and pointers, calls a symbol of the library through the trampoline, and reports what
   it observed.  It links no library header.

   input : one case per line:  T <id> <cmd>;<cmd>;...
   output: one line per case:  <id> <item> <item> ...
   Each case runs in a forked child (fresh dispatcher bindings: the parent never calls the
   library; a crash or a hang kills only that case and is reported as `crash sig=N`).

   commands (numbers decimal unless noted; <a> = argument form below)
     o <k> <size> <align> <init>   allocate object k;  init = z | f<hexbyte> | s<seed> | h<hex>
                                   (s: splitmix64 stream; objects live at fixed addresses)
     w <k> <off> <hex>             store bytes
     p <k> <off> <a>               store a 64-bit value / pointer
     j <seed>                      junk seed for the following observed calls
     m <mxcsr-hex> <fcw-hex>       MXCSR / x87 CW to enter the following observed calls with
     c <sym> <a>...                observed call   -> "c<i>=<ret> abi=... [leak=...]"
     u <sym> <a>...                plain C call (set-up, warm-up) -> "u<i>=<ret>"
     x <0|1>                       secrets scan of zmm0-31 + dead stack after observed calls
     k <hex16> <label>             a 16-byte secret
     K <k> <off> <len> <label>     every non-constant 16-byte block of this object range is a
                                   secret (evaluated when the scan runs, i.e. after the call)
     d <k> <off> <len>             dump (hex up to 256 bytes, else fnv64 of the range)
     v <preset>                    virtual CPUID preset (hook build only)
     b <sym>                       (hook build) print which family symbol <sym>_dispatched holds
   <a>: i<hex> immediate | n NULL | o<k>+<off> address | r<i> return value of call i |
        q<k>+<off> the u64 stored there                                                    */
#define _GNU_SOURCE
#include <signal.h>
#include <stdarg.h>
#include <sys/wait.h>
#include "common.h"
#include "tramp.h"

/* ---- symbol table generated from `nm` of the archive by checks/tramp.py ---- */
#define X(n) extern char n[];
#include TRAMP_SYMS_H
#undef X
static const struct { const char *name; void *addr; } symtab[] = {
#define X(n) { #n, (void *) n },
#include TRAMP_SYMS_H
#undef X
        { 0, 0 }
};

static void *
sym_lookup(const char *n)
{
        for (int i = 0; symtab[i].name; i++)
                if (!strcmp(symtab[i].name, n)) return symtab[i].addr;
        return NULL;
}

static const char *
sym_name(void *a)
{
        for (int i = 0; symtab[i].name; i++)
                if (symtab[i].addr == a) return symtab[i].name;
        return "?";
}

/* ---- PRNG: the same splitmix64 as vlib.SplitMix64 ---- */
static uint64_t
sm_next(uint64_t *s)
{
        uint64_t z = (*s += 0x9E3779B97F4A7C15ull);
        z = (z ^ (z >> 30)) * 0xBF58476D1CE4E5B9ull;
        z = (z ^ (z >> 27)) * 0x94D049BB133111EBull;
        return z ^ (z >> 31);
}

static void
sm_fill(uint64_t seed, void *p, size_t n)
{
        uint8_t *b = p;
        uint64_t s = seed;
        while (n >= 8) { uint64_t v = sm_next(&s); memcpy(b, &v, 8); b += 8; n -= 8; }
        if (n) { uint64_t v = sm_next(&s); memcpy(b, &v, n); }
}

/* ---- fixed-address memory: objects and the private stack ---- */
#define OBJ_BASE 0x100000000000ull
#define OBJ_SIZE (96ull << 20)
#define STK_BASE 0x110000000000ull
#define STK_SIZE (512u << 10)
#define STK_CANARY 4096u
#define DEAD_MIN 65536u
#define MAXOBJ 96
#define MAXCALL 256
static struct { uint8_t *p; size_t n; } obj[MAXOBJ];
static size_t obj_used;
static uint8_t *stk;

static void
fixed_maps(void)
{
        void *a = mmap((void *) OBJ_BASE, OBJ_SIZE, PROT_READ | PROT_WRITE,
                       MAP_PRIVATE | MAP_ANONYMOUS | MAP_FIXED_NOREPLACE | MAP_NORESERVE, -1, 0);
        void *b = mmap((void *) (STK_BASE - 4096), STK_SIZE + 8192, PROT_READ | PROT_WRITE,
                       MAP_PRIVATE | MAP_ANONYMOUS | MAP_FIXED_NOREPLACE, -1, 0);
        if (a != (void *) OBJ_BASE || b != (void *) (STK_BASE - 4096)) { fprintf(stderr, "fixed mmap failed\n"); exit(2); }
        mprotect(b, 4096, PROT_NONE);
        mprotect((uint8_t *) b + 4096 + STK_SIZE, 4096, PROT_NONE);
        stk = (uint8_t *) STK_BASE;
}

/* ---- per-case output buffer, shared with the parent so that a crash keeps what was seen ---- */
#define OUTCAP (1u << 22)
static char *outbuf;
static volatile size_t *outlen;
static void
out(const char *fmt, ...)
{
        va_list ap;
        va_start(ap, fmt);
        size_t l = *outlen;
        if (l < OUTCAP - 1) {
                int n = vsnprintf(outbuf + l, OUTCAP - l, fmt, ap);
                if (n > 0) *outlen = (l + (size_t) n < OUTCAP) ? l + (size_t) n : OUTCAP - 1;
        }
        va_end(ap);
}
static void
out_hex(const uint8_t *p, size_t n)
{
        static const char d[] = "0123456789abcdef";
        if (!n) { out("-"); return; }
        for (size_t i = 0; i < n; i++) out("%c%c", d[p[i] >> 4], d[p[i] & 15]);
}

static uint64_t
fnv64(const uint8_t *p, size_t n)
{
        uint64_t h = 0xcbf29ce484222325ull;
        for (size_t i = 0; i < n; i++) { h ^= p[i]; h *= 0x100000001b3ull; }
        return h;
}

/* canonical print of a value that may be a pointer into an object / the private stack */
static void
out_val(uint64_t v)
{
        for (int k = 0; k < MAXOBJ; k++)
                if (obj[k].p && v >= (uint64_t) obj[k].p && v < (uint64_t) obj[k].p + (obj[k].n ? obj[k].n : 1)) {
                        out("o%d+%llu", k, (unsigned long long) (v - (uint64_t) obj[k].p));
                        return;
                }
        out("%llx", (unsigned long long) v);
}

/* ---- secrets ---- */
#define MAXSEC 4096
static struct { uint8_t b[16]; char label[24]; } sec[MAXSEC];
static int nsec, scan_on;
static struct { int k; size_t off, len; char label[16]; } dynsec[32];
static int ndyn;
#define HT 16384
static int16_t ht[HT];

static int
boring(const uint8_t *b)
{
        /* a block made of one repeated byte (zero fill, 0xA5 ...) is no secret */
        for (int i = 1; i < 16; i++) if (b[i] != b[0]) return 0;
        return 1;
}

static void
sec_add(const uint8_t *b, const char *label)
{
        if (nsec >= MAXSEC || boring(b)) return;
        for (int i = 0; i < nsec; i++) if (!memcmp(sec[i].b, b, 16)) return;
        memcpy(sec[nsec].b, b, 16);
        snprintf(sec[nsec].label, sizeof sec[nsec].label, "%s", label);
        nsec++;
}

static void
ht_build(void)
{
        memset(ht, 0xff, sizeof ht);
        for (int i = 0; i < nsec; i++) {
                uint64_t w;
                memcpy(&w, sec[i].b, 8);
                uint32_t h = (uint32_t) ((w * 0x9E3779B97F4A7C15ull) >> 50) % HT;
                while (ht[h] >= 0) h = (h + 1) % HT;
                ht[h] = (int16_t) i;
        }
}

static int
sec_find(const uint8_t *p)
{
        uint64_t w;
        memcpy(&w, p, 8);
        uint32_t h = (uint32_t) ((w * 0x9E3779B97F4A7C15ull) >> 50) % HT;
        while (ht[h] >= 0) {
                if (!memcmp(sec[ht[h]].b, p, 16)) return ht[h];
                h = (h + 1) % HT;
        }
        return -1;
}

/* ---- argument forms ---- */
static uint64_t rets[MAXCALL];
static int ncall;

static uint64_t
arg_val(const char *a)
{
        if (a[0] == 'n') return 0;
        if (a[0] == 'i') return strtoull(a + 1, NULL, 16);
        if (a[0] == 'r') return rets[atoi(a + 1) % MAXCALL];
        if (a[0] == 'o' || a[0] == 'q') {
                char *e;
                long k = strtol(a + 1, &e, 10);
                uint64_t off = (*e == '+') ? strtoull(e + 1, NULL, 10) : 0;
                if (k < 0 || k >= MAXOBJ || !obj[k].p) { out("badobj:%s ", a); return 0; }
                if (a[0] == 'o') return (uint64_t) obj[k].p + off;
                uint64_t v;
                memcpy(&v, obj[k].p + off, 8);
                return v;
        }
        out("badarg:%s ", a);
        return 0;
}

/* ---- the observed call ---- */
static uint64_t junk_seed = 1;
static uint32_t mxcsr_in = 0x1f80;
static uint16_t fcw_in = 0x037f;
static const int callee_saved[] = { R_RBX, R_RBP, R_R12, R_R13, R_R14, R_R15 };
static const char *rname[16] = { "rax", "rcx", "rdx", "rbx", "rsp", "rbp", "rsi", "rdi", "r8", "r9", "r10", "r11", "r12", "r13", "r14", "r15" };
static const int argreg[6] = { R_RDI, R_RSI, R_RDX, R_RCX, R_R8, R_R9 };

static void
observed_call(void *fn, int na, const uint64_t *a)
{
        uint64_t s = junk_seed * 0x100000001b3ull + (uint64_t) ncall;
        int nstk = na > 6 ? na - 6 : 0;
        /* private stack: [stk, rsp) dead area filled with junk, [rsp, rsp+8*nstk) stack
           arguments, above them canary words up to the end of the mapping */
        uint64_t top = (uint64_t) stk + STK_SIZE - STK_CANARY;
        uint64_t rsp = (top - 8 * (uint64_t) nstk) & ~15ull;
        sm_fill(sm_next(&s), stk, rsp - (uint64_t) stk);
        uint64_t cseed = sm_next(&s);
        sm_fill(cseed, (void *) rsp, (uint64_t) stk + STK_SIZE - rsp);
        for (int i = 0; i < nstk; i++) memcpy((void *) (rsp + 8 * (uint64_t) i), &a[6 + i], 8);
        uint64_t can0 = rsp + 8 * (uint64_t) nstk;

        memset(&tramp_in, 0, sizeof tramp_in);
        tramp_in.fn = fn;
        for (int r = 0; r < 16; r++) tramp_in.gpr[r] = sm_next(&s);
        for (int i = 0; i < na && i < 6; i++) tramp_in.gpr[argreg[i]] = a[i];
        tramp_in.gpr[R_RSP] = rsp;
        tramp_in.rflags = (sm_next(&s) & 0x8d5) | 0x202;
        tramp_in.mxcsr = mxcsr_in;
        tramp_in.fcw = fcw_in;
        for (int i = 0; i < 8; i++) tramp_in.k[i] = sm_next(&s);
        sm_fill(sm_next(&s), tramp_in.zmm, sizeof tramp_in.zmm);
        memset(&tramp_out, 0, sizeof tramp_out);

        tramp_call_observed();

        rets[ncall % MAXCALL] = tramp_out.gpr[R_RAX];
        out("c%d=", ncall);
        out_val(tramp_out.gpr[R_RAX]);
        /* ABI observations: values before / after, printed only when they differ */
        int bad = 0;
        out(" abi=");
        for (unsigned i = 0; i < sizeof callee_saved / sizeof *callee_saved; i++) {
                int r = callee_saved[i];
                if (tramp_out.gpr[r] != tramp_in.gpr[r])
                        out("%s%s:%llx:%llx", bad++ ? "," : "", rname[r], (unsigned long long) tramp_in.gpr[r], (unsigned long long) tramp_out.gpr[r]);
        }
        if (tramp_out.gpr[R_RSP] != rsp)
                out("%srsp:%llx:%llx", bad++ ? "," : "", (unsigned long long) rsp, (unsigned long long) tramp_out.gpr[R_RSP]);
        if (tramp_out.rflags & 0x400) out("%sdf:0:1", bad++ ? "," : "");
        if ((tramp_out.mxcsr & 0xffc0) != (mxcsr_in & 0xffc0)) out("%smxcsr:%x:%x", bad++ ? "," : "", mxcsr_in, tramp_out.mxcsr);
        if (tramp_out.fcw != fcw_in) out("%sfcw:%x:%x", bad++ ? "," : "", fcw_in, tramp_out.fcw);
        {
                /* canary words above the stack arguments */
                uint64_t cs = cseed, off = rsp;
                long firstbad = -1, nbad = 0;
                while (off + 8 <= (uint64_t) stk + STK_SIZE) {
                        uint64_t v = sm_next(&cs), w;
                        memcpy(&w, (void *) off, 8);
                        if (off >= can0 && v != w) { if (firstbad < 0) firstbad = (long) (off - rsp); nbad++; }
                        off += 8;
                }
                if (nbad) out("%sabove:rsp+%ld:%ldwords", bad++ ? "," : "", firstbad, nbad);
        }
        if (!bad) out("ok");
        /* deepest byte of the private stack that changed (how much stack the callee used) */
        if (scan_on) {
                for (int i = 0; i < ndyn; i++) {
                        int k = dynsec[i].k;
                        if (!obj[k].p) continue;
                        for (size_t o = dynsec[i].off; o + 16 <= dynsec[i].off + dynsec[i].len && o + 16 <= obj[k].n; o += 16) {
                                char lab[24];
                                snprintf(lab, sizeof lab, "%s[%zu]", dynsec[i].label, (o - dynsec[i].off) / 16);
                                sec_add(obj[k].p + o, lab);
                        }
                }
                ht_build();
                int nl = 0;
                out(" leak=");
                for (int r = 0; r < 32; r++)
                        for (int l = 0; l < 4; l++) {
                                int f = sec_find(tramp_out.zmm[r] + 16 * l);
                                if (f >= 0) out("%szmm%d.%d:%s", nl++ ? "," : "", r, l, sec[f].label);
                        }
                for (uint64_t p = (uint64_t) stk; p + 16 <= rsp; p++) {
                        int f = sec_find((const uint8_t *) p);
                        if (f >= 0 && nl < 400) out("%sstack-%llu:%s", nl++ ? "," : "", (unsigned long long) (rsp - p), sec[f].label);
                }
                if (!nl) out("none");
        }
        out(" ");
        ncall++;
}

typedef uint64_t (*fn10)(uint64_t, uint64_t, uint64_t, uint64_t, uint64_t, uint64_t, uint64_t, uint64_t, uint64_t, uint64_t);

#ifdef TRAMP_HOOK
static void
bound_of(const char *sym)
{
        char nm[256];
        snprintf(nm, sizeof nm, "%s_dispatched", sym);
        void **pp = sym_lookup(nm);
        if (!pp) { out("bound=nosym "); return; }
        out("bound=%s ", sym_name(*pp));
}
#endif

static void
run_case(char *script)
{
        char *save1 = NULL;
        for (char *cmd = strtok_r(script, ";\n", &save1); cmd; cmd = strtok_r(NULL, ";\n", &save1)) {
                char *t[32];
                int nt = 0;
                char *save2 = NULL;
                for (char *p = strtok_r(cmd, " ", &save2); p && nt < 32; p = strtok_r(NULL, " ", &save2)) t[nt++] = p;
                if (!nt) continue;
                char op = t[0][0];
                if (op == 'o' && nt >= 5) {
                        int k = atoi(t[1]);
                        size_t n = strtoull(t[2], NULL, 10), al = strtoull(t[3], NULL, 10);
                        if (k < 0 || k >= MAXOBJ || al == 0) { out("bad-o "); continue; }
                        /* 256-byte gap, then the requested alignment (al may be "64+3"-style: align+offset) */
                        size_t offs = 0;
                        char *plus = strchr(t[3], '+');
                        if (plus) offs = strtoull(plus + 1, NULL, 10);
                        size_t at = (obj_used + 256 + al - 1) / al * al + offs;
                        if (at + n + 256 > OBJ_SIZE) { out("arena-full "); continue; }
                        obj[k].p = (uint8_t *) OBJ_BASE + at;
                        obj[k].n = n;
                        obj_used = at + n;
                        const char *in = t[4];
                        if (in[0] == 'z') memset(obj[k].p, 0, n);
                        else if (in[0] == 'f') memset(obj[k].p, (int) strtoul(in + 1, NULL, 16), n);
                        else if (in[0] == 's') sm_fill(strtoull(in + 1, NULL, 10), obj[k].p, n);
                        else if (in[0] == 'h') { memset(obj[k].p, 0, n); unhex(in + 1, obj[k].p, n); }
                } else if (op == 'w' && nt >= 4) {
                        int k = atoi(t[1]);
                        size_t off = strtoull(t[2], NULL, 10);
                        if (k < 0 || k >= MAXOBJ || !obj[k].p || off > obj[k].n) { out("bad-w "); continue; }
                        unhex(t[3], obj[k].p + off, obj[k].n - off);
                } else if (op == 'p' && nt >= 4) {
                        int k = atoi(t[1]);
                        size_t off = strtoull(t[2], NULL, 10);
                        if (k < 0 || k >= MAXOBJ || !obj[k].p || off + 8 > obj[k].n) { out("bad-p "); continue; }
                        uint64_t v = arg_val(t[3]);
                        memcpy(obj[k].p + off, &v, 8);
                } else if (op == 'j' && nt >= 2) {
                        junk_seed = strtoull(t[1], NULL, 10);
                } else if (op == 'm' && nt >= 3) {
                        mxcsr_in = (uint32_t) strtoul(t[1], NULL, 16);
                        fcw_in = (uint16_t) strtoul(t[2], NULL, 16);
                } else if ((op == 'c' || op == 'u') && nt >= 2) {
                        void *fn = sym_lookup(t[1]);
                        uint64_t a[16] = { 0 };
                        int na = nt - 2 > 16 ? 16 : nt - 2;
                        for (int i = 0; i < na; i++) a[i] = arg_val(t[2 + i]);
                        if (!fn) { out("nosym:%s ", t[1]); continue; }
                        if (op == 'c') observed_call(fn, na, a);
                        else {
                                uint64_t r = ((fn10) fn)(a[0], a[1], a[2], a[3], a[4], a[5], a[6], a[7], a[8], a[9]);
                                rets[ncall % MAXCALL] = r;
                                out("u%d=", ncall);
                                out_val(r);
                                out(" ");
                                ncall++;
                        }
                } else if (op == 'x' && nt >= 2) {
                        scan_on = atoi(t[1]);
                } else if (op == 'k' && nt >= 3) {
                        uint8_t b[16];
                        if (unhex(t[1], b, 16) == 16) sec_add(b, t[2]);
                } else if (op == 'K' && nt >= 5) {
                        if (ndyn < 32) {
                                dynsec[ndyn].k = atoi(t[1]);
                                dynsec[ndyn].off = strtoull(t[2], NULL, 10);
                                dynsec[ndyn].len = strtoull(t[3], NULL, 10);
                                snprintf(dynsec[ndyn].label, sizeof dynsec[ndyn].label, "%s", t[4]);
                                ndyn++;
                        }
                } else if (op == 'd' && nt >= 4) {
                        int k = atoi(t[1]);
                        size_t off = strtoull(t[2], NULL, 10), len = strtoull(t[3], NULL, 10);
                        if (k < 0 || k >= MAXOBJ || !obj[k].p || off + len > obj[k].n) { out("bad-d "); continue; }
                        out("d%d@%zu:", k, off);
                        if (len <= 256) out_hex(obj[k].p + off, len);
                        else out("#%016llx", (unsigned long long) fnv64(obj[k].p + off, len));
                        out(" ");
                }
#ifdef TRAMP_HOOK
                else if (op == 'v' && nt >= 2) {
                        if (vcpu_preset(t[1])) out("bad-preset ");
                } else if (op == 'b' && nt >= 2) {
                        bound_of(t[1]);
                }
#endif
                else out("badcmd:%s ", t[0]);
        }
}

int
main(int argc, char **argv)
{
        static char line[1 << 22];
        fixed_maps();
        outbuf = mmap(NULL, OUTCAP + 4096, PROT_READ | PROT_WRITE, MAP_SHARED | MAP_ANONYMOUS, -1, 0);
        if (outbuf == MAP_FAILED) { perror("mmap"); return 2; }
        outlen = (volatile size_t *) (outbuf + OUTCAP);
        if (argc > 1 && !strcmp(argv[1], "--list")) {
                for (int i = 0; symtab[i].name; i++) printf("%s\n", symtab[i].name);
                return 0;
        }
        while (fgets(line, sizeof line, stdin)) {
                if (line[0] != 'T' || line[1] != ' ') continue;
                char *id = line + 2, *sp = strchr(id, ' ');
                if (!sp) continue;
                *sp = 0;
                *outlen = 0;
                fflush(stdout);
                pid_t pid = fork();
                if (pid == 0) {
                        alarm(60);
                        run_case(sp + 1);
                        _exit(0);
                }
                int st = 0;
                waitpid(pid, &st, 0);
                outbuf[*outlen] = 0;
                if (WIFSIGNALED(st)) printf("%s %scrash sig=%d\n", id, outbuf, WTERMSIG(st));
                else printf("%s %s\n", id, outbuf);
        }
        return 0;
}
