/* native driver for C17 (FIPS build): the real asm_check_self_tests_status /
   asm_set_self_tests_status / isal_self_tests and the real isal_* entry points.

   Every case line runs in a freshly forked child (no binding made, status word at its
   link-time value).  The self-test bodies and a set of internal "crypto" entry points are
   interposed with -Wl,--wrap so that the driver can count runs, inject outcomes / faults and
   order events on one logical clock (an atomic counter):
     Q id check <pc> <status> <pub|->   preset the status word, call asm_check_self_tests_status with
                                       junk in the scratch registers; when status = 3 a helper thread
                                       publishes <pub> after 2 ms
     Q id set <pc> <status> <arg>      preset, call asm_set_self_tests_status(arg)
     Q id full <pc> <status> <a> <s>   preset, bodies replaced by "return a" / "return s", call isal_self_tests()
     S id <nthreads> <mode> <a> <s> <delay_us> <extra>
                                       nthreads released together, each makes its first library call through a
                                       different isal_* entry point; mode = inject (bodies return a / s after
                                       delay_us) | real (the real bodies) | realfail-sha | realfail-aes (real bodies,
                                       one digest / one ciphertext byte corrupted inside the run); then <extra>
                                       further isal_self_tests() calls from the main thread
   Output: one line per case, starting with the id (same format as the model driver for Q). */
#define _GNU_SOURCE
#include "common.h"
#include <pthread.h>
#include <signal.h>
#include <stdatomic.h>
#include <sys/wait.h>
#include <time.h>
#include "isal_crypto_api.h"
#include "aes_cbc.h"
#include "aes_gcm.h"
#include "aes_keyexp.h"
#include "aes_xts.h"
#include "sha1_mb.h"
#include "sha256_mb.h"
#include "sha512_mb.h"

extern int asm_check_self_tests_status(void);
extern void asm_set_self_tests_status(int);

/* ------------------------------------------------------------------ logical clock and interposition */
static atomic_ulong lclock = 1;
static inline unsigned long tick(void) { return atomic_fetch_add(&lclock, 1); }

static atomic_int runs_aes, runs_sha;
static atomic_ulong run_end_tick;       /* tick taken when _sha_self_tests returned (first run) */
static atomic_ulong first_crypto_tick;  /* smallest tick of an entry into a wrapped internal outside a self-test run */
static atomic_int early_crypto;
static __thread int in_selftest;
static int mode_inject, inject_a, inject_s, delay_us, fault_sha, fault_aes;

extern int __real__aes_self_tests(void);
extern int __real__sha_self_tests(void);

static void
udelay(int us)
{
        if (us <= 0) return;
        struct timespec ts = { 0, us * 1000L };
        nanosleep(&ts, NULL);
}

int
__wrap__aes_self_tests(void)
{
        int r;
        atomic_fetch_add(&runs_aes, 1);
        in_selftest++;
        if (mode_inject) { udelay(delay_us); r = inject_a; }
        else r = __real__aes_self_tests();
        in_selftest--;
        return r;
}

int
__wrap__sha_self_tests(void)
{
        int r;
        atomic_fetch_add(&runs_sha, 1);
        in_selftest++;
        if (mode_inject) { udelay(delay_us); r = inject_s; }
        else { r = __real__sha_self_tests(); udelay(delay_us); }
        in_selftest--;
        unsigned long z = 0;
        atomic_compare_exchange_strong(&run_end_tick, &z, tick());
        return r;
}

static inline void
crypto_entry(void)
{
        if (in_selftest) return;
        unsigned long t = tick();
        if (atomic_load(&run_end_tick) == 0) atomic_fetch_add(&early_crypto, 1);
        (void) t;
}

#define WRAP(name, ...)                                                                            \
        extern long __real_##name();                                                               \
        long __wrap_##name(long a, long b, long c, long d, long e, long f)                         \
        {                                                                                          \
                crypto_entry();                                                                    \
                return __real_##name(a, b, c, d, e, f);                                            \
        }
WRAP(_aes_keyexp_128) WRAP(_aes_keyexp_192) WRAP(_aes_keyexp_256)
WRAP(_aes_cbc_dec_128) WRAP(_aes_cbc_enc_256) WRAP(_aes_cbc_dec_256)
WRAP(_aes_gcm_pre_128) WRAP(_aes_gcm_pre_256)
WRAP(_XTS_AES_128_enc) WRAP(_XTS_AES_128_dec) WRAP(_XTS_AES_256_enc) WRAP(_XTS_AES_256_dec)
WRAP(_sha1_ctx_mgr_init) WRAP(_sha256_ctx_mgr_init) WRAP(_sha512_ctx_mgr_init)

/* fault injection points inside the real self-test run */
extern long __real__aes_cbc_enc_128();
long
__wrap__aes_cbc_enc_128(long in, long iv, long keys, long out, long len, long f)
{
        crypto_entry();
        long r = __real__aes_cbc_enc_128(in, iv, keys, out, len, f);
        if (in_selftest && fault_aes && len > 0) ((uint8_t *) out)[0] ^= 1;
        return r;
}
extern ISAL_SHA256_HASH_CTX *__real__sha256_ctx_mgr_submit(ISAL_SHA256_HASH_CTX_MGR *, ISAL_SHA256_HASH_CTX *, const void *, uint32_t, ISAL_HASH_CTX_FLAG);
extern ISAL_SHA256_HASH_CTX *__real__sha256_ctx_mgr_flush(ISAL_SHA256_HASH_CTX_MGR *);
ISAL_SHA256_HASH_CTX *
__wrap__sha256_ctx_mgr_submit(ISAL_SHA256_HASH_CTX_MGR *m, ISAL_SHA256_HASH_CTX *c, const void *b, uint32_t l, ISAL_HASH_CTX_FLAG fl)
{
        crypto_entry();
        ISAL_SHA256_HASH_CTX *r = __real__sha256_ctx_mgr_submit(m, c, b, l, fl);
        if (r && in_selftest && fault_sha) r->job.result_digest[0] ^= 1;
        return r;
}
ISAL_SHA256_HASH_CTX *
__wrap__sha256_ctx_mgr_flush(ISAL_SHA256_HASH_CTX_MGR *m)
{
        crypto_entry();
        ISAL_SHA256_HASH_CTX *r = __real__sha256_ctx_mgr_flush(m);
        if (r && in_selftest && fault_sha) r->job.result_digest[0] ^= 1;
        return r;
}

/* ------------------------------------------------------------------ the status word (observation only) */
static volatile uint32_t *
status_addr(void)
{
        /* decode the RIP-relative operand of the first instruction of asm_set_self_tests_status
           (mov [rip+d], r32: 89 /r with mod=00 rm=101) or of asm_check_self_tests_status
           (mov r32, [rip+d]: 8b /r) */
        const uint8_t *p = (const uint8_t *) asm_set_self_tests_status;
        if (p[0] == 0xf3 && p[1] == 0x0f && p[2] == 0x1e && p[3] == 0xfa) p += 4;
        if (p[0] == 0x89 && (p[1] & 0xc7) == 0x05) {
                int32_t d;
                memcpy(&d, p + 2, 4);
                return (volatile uint32_t *) (p + 6 + d);
        }
        p = (const uint8_t *) asm_check_self_tests_status;
        if (p[0] == 0xf3 && p[1] == 0x0f && p[2] == 0x1e && p[3] == 0xfa) p += 4;
        if (p[0] == 0x8b && (p[1] & 0xc7) == 0x05) {
                int32_t d;
                memcpy(&d, p + 2, 4);
                return (volatile uint32_t *) (p + 6 + d);
        }
        return NULL;
}

/* call with junk in every scratch register and the arithmetic flags set */
static uint32_t
call_check_junk(void)
{
        uint64_t rax;
        __asm__ volatile("mov $0x1111111111111111, %%rcx\n\t"
                         "mov $0x2222222222222222, %%rdx\n\t"
                         "mov $0x3333333333333333, %%rsi\n\t"
                         "mov $0x4444444444444444, %%rdi\n\t"
                         "mov $0x5555555555555555, %%r8\n\t"
                         "mov $0x6666666666666666, %%r9\n\t"
                         "mov $0x7777777777777777, %%r10\n\t"
                         "mov $0x8888888888888888, %%r11\n\t"
                         "mov $0x9999999999999999, %%rax\n\t"
                         "cmp %%rax, %%rax\n\t"
                         "call asm_check_self_tests_status\n\t"
                         : "=a"(rax)
                         :
                         : "rcx", "rdx", "rsi", "rdi", "r8", "r9", "r10", "r11", "memory", "cc");
        return (uint32_t) rax;
}

static uint32_t pub_val;
static void *
publisher(void *p)
{
        udelay(2000);
        asm_set_self_tests_status((int) pub_val);
        return NULL;
}

static void
seq_case(char **tok, int nt)
{
        const char *id = tok[1], *kind = tok[2];
        volatile uint32_t *st = status_addr();
        if (!st) { printf("%s nostatusaddr\n", id); return; }
        uint32_t status = (uint32_t) strtoul(tok[4], NULL, 16);
        if (!strcmp(kind, "check") && nt >= 6) {
                pthread_t th;
                int helper = 0;
                asm_set_self_tests_status((int) status);
                if (*st != status) { printf("%s presetfailed\n", id); return; }
                if (strcmp(tok[5], "-")) {
                        pub_val = (uint32_t) strtoul(tok[5], NULL, 16);
                        if (status == 3) { pthread_create(&th, NULL, publisher, NULL); helper = 1; }
                }
                uint32_t r = call_check_junk();
                if (helper) pthread_join(th, NULL);
                printf("%s ret=%x status=%x\n", id, r, *st);
        } else if (!strcmp(kind, "set") && nt >= 6) {
                asm_set_self_tests_status((int) status);
                asm_set_self_tests_status((int) strtoul(tok[5], NULL, 16));
                printf("%s ret=- status=%x\n", id, *st);
        } else if (!strcmp(kind, "full") && nt >= 7) {
                mode_inject = 1;
                inject_a = (int) strtoul(tok[5], NULL, 16);
                inject_s = (int) strtoul(tok[6], NULL, 16);
                asm_set_self_tests_status((int) status);
                uint32_t r = (uint32_t) isal_self_tests();
                printf("%s ret=%x status=%x runs=%d\n", id, r, *st, atomic_load(&runs_aes));
        } else
                printf("%s ?\n", id);
}

/* ------------------------------------------------------------------ stress */
#define NENTRY 20
static atomic_int go;
static atomic_int ready;
struct tres { int entry; int ret; unsigned long ret_tick; };

static int
call_entry(int e)
{
        static const uint8_t key[32] = { 1, 2, 3, 4, 5, 6, 7, 8, 9, 10, 11, 12, 13, 14, 15, 16, 17 };
        static const uint8_t key2[32] = { 9, 9, 3, 4, 5, 6, 7, 8, 9, 10, 11, 12, 13, 14, 15, 16, 18 };
        uint8_t __attribute__((aligned(16))) iv[16] = { 0 };
        uint8_t __attribute__((aligned(16))) ek[16 * 15], dk[16 * 15], in[64] = { 0 }, out[64];
        struct isal_gcm_key_data gk;
        struct isal_gcm_context_data gc;
        uint8_t tag[16];
        switch (e) {
        case 0: return isal_self_tests();
        case 1: return isal_aes_keyexp_128(key, ek, dk);
        case 2: return isal_aes_keyexp_192(key, ek, dk);
        case 3: return isal_aes_keyexp_256(key, ek, dk);
        case 4: memset(ek, 7, sizeof ek); return isal_aes_cbc_enc_128(in, iv, ek, out, 32);
        case 5: memset(dk, 7, sizeof dk); return isal_aes_cbc_dec_128(in, iv, dk, out, 32);
        case 6: memset(ek, 7, sizeof ek); return isal_aes_cbc_enc_256(in, iv, ek, out, 32);
        case 7: memset(dk, 7, sizeof dk); return isal_aes_cbc_dec_256(in, iv, dk, out, 32);
        case 8: return isal_aes_gcm_pre_128(key, &gk);
        case 9: return isal_aes_gcm_pre_256(key, &gk);
        case 10: return isal_aes_xts_enc_128(key2, key, iv, 32, in, out);
        case 11: return isal_aes_xts_dec_128(key2, key, iv, 32, in, out);
        case 12: return isal_aes_xts_enc_256(key2, key, iv, 32, in, out);
        case 13: return isal_aes_xts_dec_256(key2, key, iv, 32, in, out);
        case 14: { ISAL_SHA1_HASH_CTX_MGR *m; if (posix_memalign((void **) &m, 64, sizeof *m)) return -99;
                   int r = isal_sha1_ctx_mgr_init(m); free(m); return r; }
        case 15: { ISAL_SHA256_HASH_CTX_MGR *m; if (posix_memalign((void **) &m, 64, sizeof *m)) return -99;
                   int r = isal_sha256_ctx_mgr_init(m); free(m); return r; }
        case 16: { ISAL_SHA512_HASH_CTX_MGR *m; if (posix_memalign((void **) &m, 64, sizeof *m)) return -99;
                   int r = isal_sha512_ctx_mgr_init(m); free(m); return r; }
        case 17: { ISAL_SHA256_HASH_CTX_MGR *m; ISAL_SHA256_HASH_CTX c, *o = NULL;
                   if (posix_memalign((void **) &m, 64, sizeof *m)) return -99;
                   /* the manager is initialised through the internal (ungated, unrecorded) entry so that the
                      thread's first gated call is the flush of an empty manager */
                   __real__sha256_ctx_mgr_init((long) m, 0, 0, 0, 0, 0);
                   isal_hash_ctx_init(&c);
                   int r = isal_sha256_ctx_mgr_flush(m, &o); free(m); return r; }
        case 18: memset(&gk, 1, sizeof gk); return isal_aes_gcm_enc_128(&gk, &gc, out, in, 32, iv, in, 8, tag, 16);
        case 19: memset(&gk, 1, sizeof gk); return isal_aes_gcm_dec_256(&gk, &gc, out, in, 32, iv, in, 8, tag, 16);
        }
        return -98;
}

static void *
worker(void *p)
{
        struct tres *r = p;
        atomic_fetch_add(&ready, 1);
        while (!atomic_load(&go)) __builtin_ia32_pause();
        r->ret = call_entry(r->entry);
        r->ret_tick = tick();
        return NULL;
}

static void
stress_case(char **tok, int nt)
{
        const char *id = tok[1];
        int n = atoi(tok[2]);
        const char *mode = tok[3];
        inject_a = (int) strtoul(tok[4], NULL, 16);
        inject_s = (int) strtoul(tok[5], NULL, 16);
        delay_us = atoi(tok[6]);
        int extra = atoi(tok[7]);
        mode_inject = !strcmp(mode, "inject");
        fault_sha = !strcmp(mode, "realfail-sha");
        fault_aes = !strcmp(mode, "realfail-aes");
        volatile uint32_t *st = status_addr();
        if (n < 1 || n > 256) { printf("%s badn\n", id); return; }
        pthread_t th[256];
        static struct tres res[256];
        for (int i = 0; i < n; i++) {
                res[i].entry = (i * 7 + atoi(id + 1)) % NENTRY;
                pthread_create(&th[i], NULL, worker, &res[i]);
        }
        while (atomic_load(&ready) < n) __builtin_ia32_pause();
        atomic_store(&go, 1);
        for (int i = 0; i < n; i++) pthread_join(th[i], NULL);
        unsigned long endt = atomic_load(&run_end_tick);
        int early_ret = 0, nz = 0, nerr = 0, nother = 0;
        for (int i = 0; i < n; i++) {
                if (endt == 0 || res[i].ret_tick < endt) early_ret++;
                if (res[i].ret == 0) nz++;
                else if (res[i].ret == ISAL_CRYPTO_ERR_SELF_TEST) nerr++;
                else nother++;
        }
        int r1a = atomic_load(&runs_aes), r1s = atomic_load(&runs_sha);
        uint32_t st1 = st ? *st : 0xeeeeeeee;
        int ez = 0, eerr = 0, eother = 0;
        for (int k = 0; k < extra; k++) {
                int r = (k & 1) ? call_entry(1 + k % (NENTRY - 1)) : isal_self_tests();
                if (r == 0) ez++;
                else if (r == ISAL_CRYPTO_ERR_SELF_TEST) eerr++;
                else eother++;
        }
        printf("%s n=%d runs_aes=%d runs_sha=%d ok=%d err=%d other=%d early_ret=%d early_crypto=%d status=%x "
               "later_runs_aes=%d later_ok=%d later_err=%d later_other=%d status_end=%x\n",
               id, n, r1a, r1s, nz, nerr, nother, early_ret, atomic_load(&early_crypto), st1,
               atomic_load(&runs_aes) - r1a, ez, eerr, eother, st ? *st : 0xeeeeeeee);
}

int
main(int argc, char **argv)
{
        static char line[1 << 16];
        int tmo = argc > 1 ? atoi(argv[1]) : 20;
        while (fgets(line, sizeof line, stdin)) {
                char copy[1 << 12];
                strncpy(copy, line, sizeof copy - 1);
                copy[sizeof copy - 1] = 0;
                char *tok[32];
                int nt = 0;
                for (char *p = strtok(copy, " \n"); p && nt < 32; p = strtok(NULL, " \n")) tok[nt++] = p;
                if (nt < 3) continue;
                fflush(stdout);
                pid_t pid = fork();
                if (pid == 0) {
                        alarm((unsigned) tmo);
                        if (!strcmp(tok[0], "Q") && nt >= 5) seq_case(tok, nt);
                        else if (!strcmp(tok[0], "S") && nt >= 8) stress_case(tok, nt);
                        else printf("%s ?\n", tok[1]);
                        fflush(stdout);
                        _exit(0);
                }
                int wst = 0;
                waitpid(pid, &wst, 0);
                if (WIFSIGNALED(wst)) {
                        printf("%s %s\n", tok[1], WTERMSIG(wst) == SIGALRM ? "timeout" : "crashed");
                        fflush(stdout);
                }
        }
        return 0;
}
