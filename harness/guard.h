/* C08 guard-page arena: every buffer handed to the library lives in its own mapping
   [PROT_NONE page][body][PROT_NONE page]; it is placed either with its END `shift` bytes
   before the trailing guard page (shift 0 = flush) or with its START `shift` bytes after the
   leading one.  Around every library call the neighbourhood of every buffer is snapshotted and
   compared afterwards: bytes outside the designated output ranges must not change (canary),
   input buffers must not change at all.  A SIGSEGV/SIGBUS is attributed to the buffer whose
   mapping contains the fault address (which buffer, which side, distance, read/write). */
#ifndef VERIF_GUARD_H
#define VERIF_GUARD_H
#define _GNU_SOURCE
#include <setjmp.h>
#include <signal.h>
#include <stdint.h>
#include <stdio.h>
#include <stdlib.h>
#include <string.h>
#include <sys/mman.h>
#include <ucontext.h>
#include <unistd.h>

#define GB_PAGE 4096u
#define GB_BODY_PAGES 5u               /* 20 KiB between the guards */
#define GB_BODY (GB_BODY_PAGES * GB_PAGE)
#define GB_MAX 112
#define GB_WIN 320u                    /* bytes checked on each side of a buffer */

enum { ROLE_IN = 0, ROLE_OUT = 1, ROLE_OBJ = 2 };  /* IN: must stay byte-identical; OUT/OBJ: may change inside [p,p+n) only */
enum { PL_END = 0, PL_START = 1 };

typedef struct {
        uint8_t *map, *body, *shadow;
        uint8_t *p;
        size_t n;
        const char *name;
        int role, used;
        size_t w0, w1;                 /* checked window [w0,w1) as offsets into body */
} gbuf_t;

static gbuf_t gb_tab[GB_MAX];
static int gb_n;                       /* regions mapped so far */
static int gb_used;                    /* regions handed out in the current case */

typedef struct {
        char kind[16];                 /* fault | canary | input_modified | overrun-result */
        char buf[24];
        char side[8];                  /* before | after | inside | - */
        long dist;
        char access[8];                /* read | write | - */
        char call[40];
} gviol_t;

static sigjmp_buf gb_jb;
static volatile int gb_armed;
static const char *volatile gb_call = "-";
static gviol_t gb_last;

static void
gb_map_one(gbuf_t *g)
{
        uint8_t *m = mmap(NULL, GB_BODY + 2 * GB_PAGE, PROT_READ | PROT_WRITE, MAP_PRIVATE | MAP_ANONYMOUS, -1, 0);
        if (m == MAP_FAILED) { perror("mmap"); _exit(3); }
        mprotect(m, GB_PAGE, PROT_NONE);
        mprotect(m + GB_PAGE + GB_BODY, GB_PAGE, PROT_NONE);
        g->map = m;
        g->body = m + GB_PAGE;
        g->shadow = malloc(GB_BODY);
        if (!g->shadow) _exit(3);
}

static inline void
gb_begin(void)
{
        gb_used = 0;
}

/* a buffer of n bytes, aligned to `align` (power of two; the placement keeps the alignment
   by moving the buffer AWAY from the guard), in its own guarded mapping */
static uint8_t *
gb(const char *name, size_t n, int role, int place, size_t shift, size_t align)
{
        if (gb_used >= GB_MAX) { fprintf(stderr, "guard arena exhausted\n"); _exit(3); }
        if (n + shift + 64 > GB_BODY) { fprintf(stderr, "buffer %s too large (%zu)\n", name, n); _exit(3); }
        gbuf_t *g = &gb_tab[gb_used];
        if (gb_used >= gb_n) { gb_map_one(g); gb_n++; }
        gb_used++;
        if (align == 0) align = 1;
        uint8_t *p;
        if (place == PL_END) {
                p = g->body + GB_BODY - shift - n;
                p = (uint8_t *) ((uintptr_t) p & ~(uintptr_t) (align - 1));
        } else {
                p = g->body + shift;
                p = (uint8_t *) (((uintptr_t) p + align - 1) & ~(uintptr_t) (align - 1));
        }
        g->p = p;
        g->n = n;
        g->name = name;
        g->role = role;
        size_t o = (size_t) (p - g->body);
        g->w0 = o > GB_WIN ? o - GB_WIN : 0;
        g->w1 = o + n + GB_WIN < GB_BODY ? o + n + GB_WIN : GB_BODY;
        /* position-dependent canary pattern around, caller fills the inside */
        for (size_t i = g->w0; i < g->w1; i++) g->body[i] = (uint8_t) (0xA5 ^ (i * 7));
        return p;
}

static inline void
gb_arm(const char *call)
{
        for (int i = 0; i < gb_used; i++) {
                gbuf_t *g = &gb_tab[i];
                memcpy(g->shadow + g->w0, g->body + g->w0, g->w1 - g->w0);
        }
        gb_call = call;
        gb_armed = 1;
}

/* returns 0 if clean; else fills *v with the first difference */
static int
gb_check(gviol_t *v)
{
        gb_armed = 0;
        for (int i = 0; i < gb_used; i++) {
                gbuf_t *g = &gb_tab[i];
                size_t o = (size_t) (g->p - g->body);
                if (memcmp(g->shadow + g->w0, g->body + g->w0, g->w1 - g->w0) == 0) continue;
                for (size_t k = g->w0; k < g->w1; k++) {
                        if (g->shadow[k] == g->body[k]) continue;
                        int inside = k >= o && k < o + g->n;
                        if (inside && g->role != ROLE_IN) { k = o + g->n - 1; continue; }
                        memset(v, 0, sizeof *v);
                        snprintf(v->kind, sizeof v->kind, "%s", inside ? "input_modified" : "canary");
                        snprintf(v->buf, sizeof v->buf, "%s", g->name);
                        snprintf(v->side, sizeof v->side, "%s", inside ? "inside" : (k < o ? "before" : "after"));
                        v->dist = inside ? (long) (k - o) : (k < o ? (long) (o - k) : (long) (k - (o + g->n)));
                        snprintf(v->access, sizeof v->access, "write");
                        snprintf(v->call, sizeof v->call, "%s", gb_call);
                        return 1;
                }
        }
        return 0;
}

static void
gb_on_fault(int sig, siginfo_t *si, void *uc_)
{
        ucontext_t *uc = uc_;
        uintptr_t a = (uintptr_t) si->si_addr;
        if (!gb_armed) {
                /* a fault in the harness itself: nothing to attribute */
                static const char msg[] = "guard_drv: fault outside an armed library call\n";
                if (write(2, msg, sizeof msg - 1)) {}
                _exit(4);
        }
        gviol_t *v = &gb_last;
        memset(v, 0, sizeof *v);
        snprintf(v->kind, sizeof v->kind, "fault");
        snprintf(v->buf, sizeof v->buf, "unknown");
        snprintf(v->side, sizeof v->side, "-");
        v->dist = (long) a;
#ifdef REG_ERR
        snprintf(v->access, sizeof v->access, "%s", (uc->uc_mcontext.gregs[REG_ERR] & 2) ? "write" : "read");
#else
        snprintf(v->access, sizeof v->access, "-");
#endif
        snprintf(v->call, sizeof v->call, "%s", gb_call);
        for (int i = 0; i < gb_used; i++) {
                gbuf_t *g = &gb_tab[i];
                if (a >= (uintptr_t) g->map && a < (uintptr_t) g->map + GB_BODY + 2 * GB_PAGE) {
                        snprintf(v->buf, sizeof v->buf, "%s", g->name);
                        if (a >= (uintptr_t) g->p + g->n) {
                                snprintf(v->side, sizeof v->side, "after");
                                v->dist = (long) (a - ((uintptr_t) g->p + g->n));
                        } else if (a < (uintptr_t) g->p) {
                                snprintf(v->side, sizeof v->side, "before");
                                v->dist = (long) ((uintptr_t) g->p - a);
                        } else {
                                snprintf(v->side, sizeof v->side, "inside");
                                v->dist = (long) (a - (uintptr_t) g->p);
                        }
                        break;
                }
        }
        if (sig == SIGILL) snprintf(v->kind, sizeof v->kind, "sigill");
        gb_armed = 0;
        siglongjmp(gb_jb, 1);
}

static void
gb_install(void)
{
        static uint8_t altstack[1 << 16];
        stack_t ss = { .ss_sp = altstack, .ss_size = sizeof altstack, .ss_flags = 0 };
        sigaltstack(&ss, NULL);
        struct sigaction sa;
        memset(&sa, 0, sizeof sa);
        sa.sa_sigaction = gb_on_fault;
        sa.sa_flags = SA_SIGINFO | SA_NODEFER | SA_ONSTACK;
        sigaction(SIGSEGV, &sa, NULL);
        sigaction(SIGBUS, &sa, NULL);
        sigaction(SIGILL, &sa, NULL);
}

/* splitmix64 for data */
static uint64_t gb_rs = 0x1234567;
static inline uint64_t
gb_rand(void)
{
        uint64_t z = (gb_rs += 0x9E3779B97F4A7C15ull);
        z = (z ^ (z >> 30)) * 0xBF58476D1CE4E5B9ull;
        z = (z ^ (z >> 27)) * 0x94D049BB133111EBull;
        return z ^ (z >> 31);
}
static inline void
gb_fill(uint8_t *p, size_t n)
{
        size_t i = 0;
        for (; i + 8 <= n; i += 8) {
                uint64_t v = gb_rand();
                memcpy(p + i, &v, 8);
        }
        if (i < n) {
                uint64_t v = gb_rand();
                memcpy(p + i, &v, n - i);
        }
}
#endif
