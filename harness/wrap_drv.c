/* Native driver for C13 / C16: calls every isal_* (and legacy) entry point of the freshly built
 * library with a chosen argument valuation and reports what it did.
 *
 * Every internal symbol a wrapper body calls (list generated from the translated bodies,
 * wrap_gen.h) is interposed at link time (-Wl,--wrap): the stub records (symbol, argument
 * registers/stack slots) and either returns a chosen value ("stub" mode: the kernel is never
 * run, so pointers may point at PROT_NONE pages) or forwards to the real symbol ("real" mode).
 *
 * Case lines
 *   N <id> <entry> <s|r> <status|-> <aes|-> <sha|-> <stubret> <arg>...
 *       arg: n (NULL) | g (pointer into a PROT_NONE region) | v (valid 64 KiB buffer, pattern
 *            filled) | s (valid buffer holding an initialised rolling-hash state) |
 *            b:<hex> (valid buffer starting with these bytes) |
 *            e:<hex> (exactly these bytes, ending flush against a PROT_NONE page: reading one
 *            byte past them faults) | <hex> scalar
 *       status: value stored with asm_set_self_tests_status before the call (FIPS library)
 *       aes/sha: what the interposed _aes_self_tests/_sha_self_tests return (-: run the real ones)
 *     -> <id> ret=<hex> fault=<0|1> calls=<symid>(<hex>,...);... ptrs=<hex>,... chg=<bits> status=<after>
 *   L <id> <pair> <seed> <len>      legacy / isal_ differential on valid inputs (wrap_diff.c)
 *     -> <id> same | <id> differ <what> | <id> nopair
 *   P <id>                          list the pairs wrap_diff.c implements
 *   K <id> <128|256> <keyhex>       -> <id> <enc schedule hex> <dec schedule hex>  (the library's own key expansion)
 * The driver observes; it decides nothing. */
#define _GNU_SOURCE
#include "common.h"
#include <setjmp.h>
#include <signal.h>

typedef long (*fn10)(long, long, long, long, long, long, long, long, long, long);
struct ent {
        const char *name;
        int id, np;
        const char *pt;
        char rk;
        fn10 fn;
};

#define MAXLOG 64
static struct {
        int idx;
        long a[10];
} calllog[MAXLOG];
static volatile int ncalls;
int wrap_stub_real;            /* 1: stubs forward to the real symbol */
static long stub_retval;       /* what a stub returns in stub mode */
static long aes_ret = -1, sha_ret = -1; /* -1: real self tests */
static int idx_aes = -1, idx_sha = -1, idx_check = -1, idx_set = -1;

static volatile int depth; /* calls made by a forwarded real symbol are not the wrapper's */
static long
stub_common(int idx, fn10 real, long a0, long a1, long a2, long a3, long a4, long a5, long a6,
            long a7, long a8, long a9)
{
        if (depth > 0) return real(a0, a1, a2, a3, a4, a5, a6, a7, a8, a9);
        if (ncalls < MAXLOG) {
                long a[10] = { a0, a1, a2, a3, a4, a5, a6, a7, a8, a9 };
                calllog[ncalls].idx = idx;
                memcpy(calllog[ncalls].a, a, sizeof a);
                ncalls++;
        }
        if (idx == idx_aes && aes_ret >= 0) return aes_ret;
        if (idx == idx_sha && sha_ret >= 0) return sha_ret;
        if (wrap_stub_real || idx == idx_aes || idx == idx_sha || idx == idx_check || idx == idx_set) {
                depth++;
                long r = real(a0, a1, a2, a3, a4, a5, a6, a7, a8, a9);
                depth--;
                return r;
        }
        return stub_retval;
}

#define WRAPDEF(k, sym)                                                                            \
        long __real_##sym(long, long, long, long, long, long, long, long, long, long);             \
        long __wrap_##sym(long a0, long a1, long a2, long a3, long a4, long a5, long a6, long a7,  \
                          long a8, long a9)                                                        \
        {                                                                                          \
                return stub_common(k, (fn10) __real_##sym, a0, a1, a2, a3, a4, a5, a6, a7, a8,     \
                                   a9);                                                            \
        }
#include "wrap_gen.h"

extern int
diff_case(const char *pair, uint64_t seed, uint64_t len, char *msg, size_t msgcap);
extern const char *diff_pairs[];

static sigjmp_buf jb;
static volatile int armed;
static void
on_fault(int sig)
{
        if (armed) siglongjmp(jb, 1);
        _exit(70);
}

#define VSZ (64 * 1024)
#define NARG 10
static uint8_t *vbuf[NARG], *vref[NARG], *gregion;

static int
wrap_index(const char *name)
{
        for (int i = 0; i < NWRAP; i++)
                if (!strcmp(wrap_names[i], name)) return i;
        return -1;
}

static long
real_status_set(long v)
{
        /* the interposed symbol forwards asm_set_self_tests_status to the real one */
        if (idx_set < 0) return -1;
        int save = ncalls;
        extern long __wrap_asm_set_self_tests_status(long, long, long, long, long, long, long, long,
                                                     long, long) __attribute__((weak));
        if (__wrap_asm_set_self_tests_status)
                __wrap_asm_set_self_tests_status(v, 0, 0, 0, 0, 0, 0, 0, 0, 0);
        ncalls = save;
        return 0;
}

static uint32_t *
status_word(void)
{
        /* asm_set_self_tests_status stores edi into the status word; find it by storing two
           distinct values is not needed: report the status through asm_check only when it is
           0/1 (a check on 2 would flip it to RUNNING).  We read it by a set/compare-free way:
           the symbol is local, so expose nothing here. */
        return 0;
}

int
main(void)
{
        static char line[1 << 20];
        struct sigaction sa;
        stack_t ss;
        ss.ss_sp = malloc(1 << 16);
        ss.ss_size = 1 << 16;
        ss.ss_flags = 0;
        sigaltstack(&ss, 0);
        memset(&sa, 0, sizeof sa);
        sa.sa_handler = on_fault;
        sa.sa_flags = SA_ONSTACK | SA_NODEFER;
        sigaction(SIGSEGV, &sa, 0);
        sigaction(SIGBUS, &sa, 0);
        sigaction(SIGILL, &sa, 0);
        sigaction(SIGFPE, &sa, 0);
        for (int i = 0; i < NARG; i++) {
                vbuf[i] = guard_alloc(VSZ, 1, 0);
                vref[i] = malloc(VSZ);
        }
        gregion = mmap(NULL, 64 * 4096, PROT_NONE, MAP_PRIVATE | MAP_ANONYMOUS, -1, 0);
        idx_aes = wrap_index("_aes_self_tests");
        idx_sha = wrap_index("_sha_self_tests");
        idx_check = wrap_index("asm_check_self_tests_status");
        idx_set = wrap_index("asm_set_self_tests_status");
        (void) status_word;
        while (fgets(line, sizeof line, stdin)) {
                char *tok[64];
                int nt = 0;
                for (char *p = strtok(line, " \t\n"); p && nt < 64; p = strtok(0, " \t\n")) tok[nt++] = p;
                if (nt < 2) continue;
                if (tok[0][0] == 'P') {
                        printf("%s", tok[1]);
                        for (int i = 0; diff_pairs[i]; i++) printf(" %s", diff_pairs[i]);
                        printf("\n");
                        fflush(stdout);
                        continue;
                }
                if (tok[0][0] == 'K' && nt >= 4) {
                        static uint8_t key[64], enc[256], dec[256];
                        int bits = atoi(tok[2]), n = bits == 128 ? 176 : 240;
                        memset(key, 0, sizeof key);
                        unhex(tok[3], key, sizeof key);
                        wrap_stub_real = 1;
                        depth = 1;
                        ((fn10) (bits == 128 ? (void (*)()) aes_keyexp_128 : (void (*)()) aes_keyexp_256))(
                                (long) key, (long) enc, (long) dec, 0, 0, 0, 0, 0, 0, 0);
                        depth = 0;
                        printf("%s ", tok[1]);
                        puthex(stdout, enc, n);
                        printf(" ");
                        puthex(stdout, dec, n);
                        printf("\n");
                        fflush(stdout);
                        continue;
                }
                if (tok[0][0] == 'L' && nt >= 5) {
                        static char msg[512];
                        msg[0] = 0;
                        wrap_stub_real = 1;
                        aes_ret = sha_ret = -1;
                        depth = 1; /* nothing is recorded during a differential case */
                        armed = 1;
                        int r;
                        if (sigsetjmp(jb, 1) == 0)
                                r = diff_case(tok[2], strtoull(tok[3], 0, 0), strtoull(tok[4], 0, 0), msg, sizeof msg);
                        else {
                                r = 3;
                                snprintf(msg, sizeof msg, "fault");
                        }
                        armed = 0;
                        printf("%s %s %s\n", tok[1], r == 0 ? "same" : (r == 2 ? "nopair" : "differ"), msg);
                        fflush(stdout);
                        continue;
                }
                if (tok[0][0] != 'N' || nt < 8) {
                        printf("%s ?\n", tok[1]);
                        fflush(stdout);
                        continue;
                }
                struct ent *e = 0;
                for (int i = 0; ents[i].name; i++)
                        if (!strcmp(ents[i].name, tok[2])) e = &ents[i];
                if (!e) {
                        printf("%s noentry\n", tok[1]);
                        fflush(stdout);
                        continue;
                }
                wrap_stub_real = tok[3][0] == 'r';
                aes_ret = tok[5][0] == '-' ? -1 : strtol(tok[5], 0, 0);
                sha_ret = tok[6][0] == '-' ? -1 : strtol(tok[6], 0, 0);
                stub_retval = (long) strtoull(tok[7], 0, 16);
                long a[NARG] = { 0 };
                int isv[NARG] = { 0 };
                int na = nt - 8;
                for (int i = 0; i < NARG && i < na; i++) {
                        const char *t = tok[8 + i];
                        if (!strcmp(t, "n")) a[i] = 0;
                        else if (!strcmp(t, "g")) a[i] = (long) (gregion + 4096 * (2 + 4 * i) + 64);
                        else if (t[0] == 'e' && t[1] == ':') {
                                size_t n = strlen(t + 2) / 2;
                                if (n > VSZ) n = VSZ;
                                memset(vbuf[i], 0xA5, VSZ);
                                unhex(t + 2, vbuf[i] + VSZ - n, n);
                                memcpy(vref[i], vbuf[i], VSZ);
                                a[i] = (long) (vbuf[i] + VSZ - n);
                                isv[i] = 1;
                        } else if (!strcmp(t, "v") || !strcmp(t, "s") || (t[0] == 'b' && t[1] == ':')) {
                                memset(vbuf[i], 0xA5, VSZ);
                                if (t[0] == 'b') unhex(t + 2, vbuf[i], VSZ);
                                if (t[0] == 's') {
                                        static uint8_t init[64];
                                        int w = wrap_stub_real;
                                        wrap_stub_real = 1;
                                        ((fn10) rolling_hash2_init)((long) vbuf[i], 16, 0, 0, 0, 0, 0, 0, 0, 0);
                                        ((fn10) rolling_hash2_reset)((long) vbuf[i], (long) init, 0, 0, 0, 0, 0, 0, 0, 0);
                                        wrap_stub_real = w;
                                }
                                memcpy(vref[i], vbuf[i], VSZ);
                                a[i] = (long) vbuf[i];
                                isv[i] = 1;
                        } else
                                a[i] = (long) strtoull(t, 0, 16);
                }
                if (tok[4][0] != '-') real_status_set(strtol(tok[4], 0, 0));
                ncalls = 0;
                depth = 0;
                long ret = 0;
                int fault = 0;
                armed = 1;
                if (sigsetjmp(jb, 1) == 0)
                        ret = e->fn(a[0], a[1], a[2], a[3], a[4], a[5], a[6], a[7], a[8], a[9]);
                else
                        fault = 1;
                armed = 0;
                int nc = ncalls;
                if (e->rk == 'i') ret = (long) (uint32_t) ret;
                if (e->rk == 'v') ret = 0;
                printf("%s ret=%lx fault=%d calls=", tok[1], (unsigned long) ret, fault);
                if (nc == 0) printf("-");
                for (int c = 0; c < nc; c++) {
                        printf("%s%d(", c ? ";" : "", wrap_ids[calllog[c].idx]);
                        for (int j = 0; j < 10; j++) printf("%s%lx", j ? "," : "", (unsigned long) calllog[c].a[j]);
                        printf(")");
                }
                printf(" ptrs=");
                for (int i = 0; i < e->np; i++) printf("%s%lx", i ? "," : "", (unsigned long) a[i]);
                if (e->np == 0) printf("-");
                printf(" chg=");
                for (int i = 0; i < e->np; i++) printf("%d", isv[i] ? (memcmp(vbuf[i], vref[i], VSZ) != 0) : 0);
                if (e->np == 0) printf("-");
                printf("\n");
                fflush(stdout);
                /* never leave the status word at RUNNING for the next case */
                if (tok[4][0] != '-') real_status_set(2);
        }
        return 0;
}
