From Coq Require Import NArith List String.
From ISAL Require Import Model.Dispatch Gen.DispatchGen Gen.IsaReqGen.
Import ListNotations.
Local Open Scope string_scope.
Local Open Scope N_scope.
Time Eval vm_compute in (map d_entry (filter (fun d => negb (check_disp isa_requires d)) dispatchers)).
Time Eval vm_compute in (map (fun d => (d_entry d, match counterexample isa_requires d with Some e => Some (words_of_env e, exec (d_entry d) (d_code d) e) | None => None end)) (filter (fun d => negb (check_disp isa_requires d)) dispatchers)).
