From Coq Require Import NArith List String.
From ISAL Require Import Model.Dispatch Gen.DispatchGen.
Import ListNotations.
Local Open Scope string_scope.
Local Open Scope N_scope.
Time Eval vm_compute in (map (fun p => (snd p, List.length (fst p))) (paths (tree_of d__sha256_ctx_mgr_init))).
Time Eval vm_compute in (paths (tree_of d__rolling_hash2_run_until)).
Time Eval vm_compute in (map (fun d => (d_entry d, List.length (paths (tree_of d)), stub_ok d)) dispatchers).
Time Eval vm_compute in (exec "_sha256_ctx_mgr_init" (d_code d__sha256_ctx_mgr_init) (env_of_words [0;0;0x18180000;0;0;0x20;0;0;6;0])).
Time Eval vm_compute in (family "_aes_gcm_enc_128_update_nt" "_aes_gcm_enc_128_update_avx_gen4_nt").
