From Coq Require Import NArith List String.
From ISAL Require Import Model.Dispatch Gen.DispatchGen Gen.IsaReqGen.
Import ListNotations.
Local Open Scope string_scope.
Eval vm_compute in (map (fun p => (snd p, match solve 0 k0 (fst p) with Some _ => true | None => false end)) (paths (tree_of d__mh_sha1_update))).
Eval vm_compute in (agree2 "_mh_sha1_update" "_mh_sha1_update" k0 (Some "_mh_sha1_update_base") (tree_of d__mh_sha1_update)).
Eval vm_compute in (famo "_mh_sha1_update"  (Some "_mh_sha1_update_base")).
