From Coq Require Import NArith List String.
From ISAL Require Import Model.Dispatch Gen.DispatchGen Gen.IsaReqGen.
Import ListNotations.
Local Open Scope string_scope.
Time Eval vm_compute in (map (fun g => (fst g, group_checked dispatchers g)) group_names).
Time Eval vm_compute in (forallb ref_ok data_refs, List.length data_refs, List.length dispatchers).
