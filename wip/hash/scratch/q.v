From ISAL Require Import Proofs.HashRefine.
Check hash_refines_run.
Print Assumptions hash_refines_run.
