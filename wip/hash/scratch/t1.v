From Coq Require Import NArith List Arith Lia ZArith ZifyNat ZifyN.
Ltac Zify.zify_post_hook ::= Z.div_mod_to_equations.
Local Open Scope N_scope.
Lemma pad_idx_64 (t : N) : t < 18446744073709551616 ->
  let i := t mod 64 in
  let neg := (18446744073709551616 - (t + 8 + 1) mod 18446744073709551616) mod 18446744073709551616 in
  let g := neg mod 64 in
  g = (64 - (i + 1 + 8) mod 64) mod 64 /\ (i + g + 1 + 8) mod 64 = 0 /\ i + g + 1 + 8 <= 128.
Proof.
  intros H i neg g. subst i neg g. Time lia.
Qed.
