From ISAL Require Import Proofs.SelfTestTMFacts.
Check Inv. Check Inv_exec. Check Inv_init. Check tm_safe. Check sexec_length. Check tm_reaches_final. Check tm_returns. Check pown. Check retdT. Check Inv_one_owner.
