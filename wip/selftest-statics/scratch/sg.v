From Coq Require Import String List NArith.
From ISAL Require Import Model.Statics Gen.StaticsGen.
Time Eval vm_compute in (written_statics_allowed stores, bss_allowed bss_syms, c_statics_allowed c_statics, dispatch_ptrs_ok dispatch_ptrs, length dispatch_ptrs, length stores, length c_statics).
