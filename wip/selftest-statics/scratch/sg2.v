From Coq Require Import String List NArith.
From ISAL Require Import Model.Statics Gen.StaticsGen.
Eval vm_compute in (statics_ok stores bss_syms c_statics dispatch_ptrs, forallb ptr_section_aligned dispatch_ptrs).
