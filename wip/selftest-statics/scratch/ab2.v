From ISAL Require Import Proofs.SelfTestTMFacts.
Check sstep_none. Check sstep_unfold. Check sexec_length. Check sexec_cons.
