From Coq Require Import NArith List.
From ISAL Require Import Model.SelfTestSys Model.SelfTest Gen.SelfTestGen.
Import ListNotations.
Definition pre := [0;0;0;1;1;1;2;2;2;0;0;1;1;2;2;0;1;2;0;1;2;0;1;2;1;1;1;1;0;2;0;2].
Definition show (s : st_sys) := (sg s, map pc (sths s), map own (sths s), map ph (sths s)).
Eval vm_compute in (length pre, show (st_exec prog (0,0)%N (st_init init_status entry 3) pre)).
Eval vm_compute in (show (st_exec prog (0,0)%N (st_init init_status entry 3) (pre ++ repeat 1 10))).
Eval vm_compute in (show (st_exec prog (0,0)%N (st_init init_status entry 3) (pre ++ repeat 1 40 ++ repeat 0 30 ++ repeat 2 30))).
