From Coq Require Import NArith List.
From ISAL Require Import Model.SelfTestSys Model.SelfTest Model.SelfTestTM Gen.SelfTestGen.
Import ListNotations.
Definition chk o := let PL := st_PL prog init_status entry o in
  (length PL, c_own gst tstate gst_eqb tstate_eqb (tstep prog o) own st_hot PL,
   c_interf gst tstate gst_eqb tstate_eqb (tstep prog o) own st_hot PL,
   c_good gst tstate (st_good errv o) PL,
   c_live gst tstate gst_eqb (tstep prog o) own st_hot st_cold retd (st_dist prog o) ST_B ST_K PL).
Time Eval vm_compute in (map chk st_oracles).
Eval vm_compute in (let o := (0,1)%N in filter (fun x => negb (st_good errv o (fst x) (snd x))) (st_PL prog init_status entry o)).
