From Coq Require Import NArith List.
From ISAL Require Import Model.SelfTestSys Model.SelfTest Model.SelfTestPinned Gen.SelfTestGen.
Import ListNotations.
Eval vm_compute in (sg (st_exec pinned_prog (0, 4294967295)%N (st_init pinned_init_status pinned_entry 2) (repeat 0 40 ++ repeat 1 40))).
Eval vm_compute in (sg (st_exec pinned_prog (0, 4294967295)%N (st_init pinned_init_status pinned_entry 2) (repeat 0 40 ++ repeat 1 40)%list)).
Check (repeat 0 40 ++ repeat 1 40).
