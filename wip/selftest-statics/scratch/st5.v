From Coq Require Import NArith List.
From ISAL Require Import Model.SelfTestSys Model.SelfTest Model.SelfTestTM Gen.SelfTestGen.
Import ListNotations.
Time Eval vm_compute in (st_check prog init_status entry errv).
Time Eval vm_compute in (st_check1 prog init_status entry errv (0,4294967295)%N).
