From Coq Require Import NArith List.
From ISAL Require Import Model.SelfTestSys Model.SelfTest Model.SelfTestTM Gen.SelfTestGen.
Import ListNotations.
Definition o := (0,1)%N.
Eval vm_compute in (let PL := st_PL prog init_status entry o in
  map (fun x => (fst x, pc (snd x), own (snd x), ph (snd x), st_dist prog o (fst x) (snd x), let '(g',l') := tstep prog o (fst x) (snd x) in (g', pc l', st_dist prog o g' l')))
  (filter (fun x => negb (c_live gst tstate gst_eqb (tstep prog o) own st_hot st_cold retd (st_dist prog o) ST_B ST_K [x])) PL)).
