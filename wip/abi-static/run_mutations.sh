#!/bin/sh
# usage: run_mutations.sh [diff...]  — applies each diff (default: mutations/*.diff and the C14/C19 seeds
# seeded/<id>/patch.diff) to a scratch worktree of /repo HEAD and runs the property's check against it
# (static half only unless FULL=1); one outcome block per mutation.  Since /repo HEAD 53395e5 the four
# C14 fixes are in the tree, so every diff applies to HEAD directly.
M=/verif/wip/abi-static/mutations
WT=/tmp/wt-abi
export VERIF_CACHE=${VERIF_CACHE:-/var/tmp/isal-verif-cache-abi}
[ -d $WT ] || git -C /repo worktree add --detach $WT HEAD >/dev/null
LIST=${@:-$M/*.diff /verif/seeded/C14-*/patch.diff /verif/seeded/C19-*/patch.diff}
for d in $LIST; do
  case $d in */patch.diff) n=seed-$(basename $(dirname $d)); pid=$(basename $(dirname $d) | cut -c1-3);; *) n=$(basename $d .diff); pid=$(echo $n | cut -c1-3 | tr a-z A-Z);; esac
  (cd $WT && git checkout -q . && git clean -fdq)
  if [ -s $d ]; then (cd $WT && patch -p1 -s < $d) || { echo "== $n: PATCH FAILED"; continue; }; fi
  if [ -n "$FULL" ]; then out=$(cd /verif && VERIF_REPO=$WT ./check $pid 2>&1); else out=$(cd /verif && ABI_STATIC_ONLY=1 VERIF_REPO=$WT ./check $pid 2>&1); fi
  rc=$?
  echo "== $n ($pid) rc=$rc violations=$(echo "$out" | grep -c '^VIOLATION')"
  echo "$out" | grep "^OK\|KNOWN" | head -3
  echo "$out" | grep "detail" | head -4 | cut -c1-420
  cp /verif/evidence/$pid.json $M/$n.evidence.json 2>/dev/null
done
(cd $WT && git checkout -q . && git clean -fdq)
